#!/bin/bash
# usage: tools/eval_seed.sh <dir containing patch.diff and demo.py|demo.sh> <prop> [more props...]
# Applies the patch to /repo, runs the demo and the given checks, reverts.
D=$1; shift
cd /repo || exit 9
if [ -n "$(git status --short)" ]; then echo "REPO-DIRTY"; exit 9; fi
demo() { if [ -f $D/demo.py ]; then timeout 120 /venv/bin/python $D/demo.py /repo >/tmp/demo.out 2>&1; else timeout 120 bash $D/demo.sh /repo >/tmp/demo.out 2>&1; fi; echo $?; }
echo "demo clean: $(demo)"
if ! git apply --check $D/patch.diff 2>/tmp/apply.err; then echo "PATCH-DOES-NOT-APPLY: $(head -2 /tmp/apply.err)"; exit 8; fi
git apply $D/patch.diff
echo "demo patched: $(demo) :: $(tail -2 /tmp/demo.out | tr '\n' ' ' | cut -c1-200)"
if [ -z "$SKIP_SUITE" ]; then
  echo "suite: $(timeout 600 /venv/bin/python -m pytest -q -p no:cacheprovider --continue-on-collection-errors tests/common tests/test_profiling.py tests/test_sourcecode.py 2>&1 | tail -1)"
fi
for p in "$@"; do
  out=$(/venv/bin/python /verif/check $p --tier quick 2>&1); rc=$?
  echo "check $p rc=$rc :: $(echo "$out" | grep -E '^FINDING|ANALYSIS-ERROR' | cut -c1-260 | head -4 | tr '\n' '|')"
done
git checkout -- . ; git status --short | head -3
