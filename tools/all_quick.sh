#!/bin/bash
# all 20 quick checks on /repo (throw-away evidence dir); prints non-OK lines
(for i in $(seq -w 1 20); do echo C$i; done) | xargs -P ${1:-6} -I{} bash -c 'VERIF_EVIDENCE_DIR=/tmp/allq_ev /venv/bin/python /verif/check {} > /tmp/allq_{}.log 2>&1; rc=$?; [ $rc -ne 0 ] && echo "{} rc=$rc $(grep -E "^FINDING|ANALYSIS-ERROR" /tmp/allq_{}.log | head -3 | cut -c1-300)"; true'
echo "all-quick done"
