#!/bin/bash
# Re-confirm every stored seed against the *current* /repo: its demonstration
# passes on the unchanged tree and fails with the patch (scratch hard-link
# copies; /repo itself is never touched).
# usage: tools/revalidate_seeds_par.sh [seed-id-prefix] [jobs]
PFX=$1; JOBS=${2:-12}
ROOT=$(mktemp -d /tmp/seedval.XXXXXX)
trap 'rm -rf "$ROOT"' EXIT
demo() { d=$1; r=$2; if [ -f $d/demo.py ]; then timeout 180 /venv/bin/python $d/demo.py $r >/dev/null 2>&1; else timeout 180 bash $d/demo.sh $r >/dev/null 2>&1; fi; echo $?; }
one() {
  d=$1; ROOT=$2
  id=$(basename $d); w=$ROOT/$id
  [ -f $d/OBSOLETE ] && { echo "$id obsolete ok"; return; }
  grep -q '"demo_rerunnable": false' $d/meta.json && { echo "$id helper-not-archived ok"; return; }
  mkdir -p $w
  cp -al /repo/edb $w/edb
  c=$(demo $d /repo)
  if ! (cd $w && patch -p1 -s -f --no-backup-if-mismatch < $d/patch.diff >/dev/null 2>&1); then
    echo "$id PATCH-DOES-NOT-APPLY clean=$c"; rm -rf $w; return
  fi
  p=$(demo $d $w)
  st=ok; [ "$c" != "0" ] && st=CLEAN-DEMO-FAILS; [ "$p" == "0" ] && st=PATCHED-DEMO-PASSES
  echo "$id clean=$c patched=$p $st"
  rm -rf $w
}
export -f one demo
ls -d /verif/seeded/${PFX}*/ | xargs -P $JOBS -I{} bash -c 'one {} '"$ROOT" | sort > $ROOT/out.txt
grep -v ' ok$' $ROOT/out.txt
echo "seeds=$(wc -l < $ROOT/out.txt) not-ok=$(grep -vc ' ok$' $ROOT/out.txt)"
