#!/bin/bash
# Every stored property-PRESERVING change (/verif/benign/<id>/patch.diff, written
# by independent sub-agents, each with an equivalence demonstration that passes
# before and after) is applied to its own hard-linked scratch copy of /repo/edb
# and ALL twenty quick checks are run against it.  A check that does not exit 0
# is an alarm on code where the property holds: rc=1 a false VIOLATION,
# rc=2 an "undecided" ANALYSIS-ERROR.
# usage: tools/reeval_benign_par.sh [id-prefix] [jobs]
PFX=$1; JOBS=${2:-4}
for d in /verif/benign/${PFX}*/; do
  id=$(basename $d)
  out=$(SKIP_DEMO=1 /verif/tools/eval_benign.sh $d 2>&1 | grep -E "^ALARM|PATCH-DOES-NOT-APPLY" | sed -E 's/ :: .*rule=([^ ]+) construct=([^ ]+).*/ \1 \2/' | cut -c1-160 | tr '\n' ';')
  echo "$id ${out:-silent}"
done
