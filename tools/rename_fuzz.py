#!/venv/bin/python
"""Negative-control generator: rename every local variable of every function
a property's rules analyse (behaviour-preserving) and check that the rules
stay silent.  In-memory overlays only.

usage: tools/rename_fuzz.py Cxx [Cyy ...]     (default: all claimed)
exit 0: no rule reported on a renamed tree; 1 otherwise (details printed).
"""
import ast, importlib, os, sys
HERE = os.path.dirname(os.path.dirname(os.path.abspath(__file__)))
sys.path.insert(0, HERE)
from sa import model, report  # noqa


def locals_of(fn):
    a = fn.args
    params = {x.arg for x in a.posonlyargs + a.args + a.kwonlyargs}
    if a.vararg:
        params.add(a.vararg.arg)
    if a.kwarg:
        params.add(a.kwarg.arg)
    stores, banned = set(), set(params)
    for n in ast.walk(fn):
        if isinstance(n, (ast.Global, ast.Nonlocal)):
            banned |= set(n.names)
        if n is not fn and isinstance(n, (ast.FunctionDef,
                                          ast.AsyncFunctionDef, ast.Lambda)):
            aa = n.args
            banned |= {x.arg for x in aa.posonlyargs + aa.args +
                       aa.kwonlyargs}
            if not isinstance(n, ast.Lambda):
                banned.add(n.name)
        if isinstance(n, ast.ClassDef):
            banned.add(n.name)
        if isinstance(n, (ast.Import, ast.ImportFrom)):
            for al in n.names:
                banned.add((al.asname or al.name).split('.')[0])
        if isinstance(n, ast.ExceptHandler) and n.name:
            banned.add(n.name)
        if isinstance(n, ast.MatchAs) and n.name:
            banned.add(n.name)
    for n in ast.walk(fn):
        if isinstance(n, ast.Name) and isinstance(n.ctx, ast.Store):
            stores.add(n.id)
    return {s for s in stores - banned if not s.startswith('__')}


class Ren(ast.NodeTransformer):
    def __init__(self, names):
        self.names = names

    def visit_Name(self, node):
        if node.id in self.names:
            return ast.copy_location(
                ast.Name(id=node.id + '_rn', ctx=node.ctx), node)
        return node


class SwapIf(ast.NodeTransformer):
    """if c: A else: B  ->  if not c: B else: A   (plain else only)"""
    def visit_If(self, node):
        self.generic_visit(node)
        if node.orelse and not (len(node.orelse) == 1 and isinstance(
                node.orelse[0], ast.If)):
            t = node.test
            if isinstance(t, ast.UnaryOp) and isinstance(t.op, ast.Not):
                nt = t.operand
            else:
                nt = ast.UnaryOp(op=ast.Not(), operand=t)
            return ast.copy_location(ast.If(test=nt, body=node.orelse,
                                            orelse=node.body), node)
        return node


class FlipCmp(ast.NodeTransformer):
    """a == b -> b == a, a < b -> b > a, `x and y` -> `y and x`"""
    FL = {ast.Eq: ast.Eq, ast.NotEq: ast.NotEq, ast.Lt: ast.Gt,
          ast.Gt: ast.Lt, ast.LtE: ast.GtE, ast.GtE: ast.LtE}

    def visit_Compare(self, node):
        self.generic_visit(node)
        if len(node.ops) == 1 and type(node.ops[0]) in self.FL:
            return ast.copy_location(ast.Compare(
                left=node.comparators[0],
                ops=[self.FL[type(node.ops[0])]()],
                comparators=[node.left]), node)
        return node

    def visit_BoolOp(self, node):
        self.generic_visit(node)
        node.values = list(reversed(node.values))
        return node



def _names(n):
    return {x.id for x in ast.walk(n) if isinstance(x, ast.Name)}


def _has_effect(n):
    return any(isinstance(x, (ast.Call, ast.Await, ast.Yield, ast.YieldFrom,
                              ast.NamedExpr)) for x in ast.walk(n))


class Hoist(ast.NodeTransformer):
    """x = f(a.b, ...)  ->  _h1 = a.b; x = f(_h1, ...)   (the first
    positional argument of a call that is the whole value of a simple
    statement, when it is a plain attribute chain on a name: evaluated
    unconditionally and first either way)"""
    def __init__(self):
        self.n = 0

    def _block(self, body):
        out = []
        for st in body:
            st = self.generic_visit(st)
            call = None
            if isinstance(st, (ast.Assign, ast.Expr, ast.Return)) and \
                    isinstance(st.value, ast.Call):
                call = st.value
            if call is not None and call.args and \
                    isinstance(call.args[0], ast.Attribute) and \
                    isinstance(call.func, (ast.Name, ast.Attribute)) and \
                    not _has_effect(call.func) and \
                    not _has_effect(call.args[0]):
                a0 = call.args[0]
                base = a0
                while isinstance(base, ast.Attribute):
                    base = base.value
                if isinstance(base, ast.Name):
                    self.n += 1
                    tmp = f'_h{self.n}'
                    out.append(ast.Assign(
                        targets=[ast.Name(id=tmp, ctx=ast.Store())],
                        value=a0, lineno=st.lineno))
                    call.args[0] = ast.Name(id=tmp, ctx=ast.Load())
            out.append(st)
        return out

    def generic_visit(self, node):
        for f in ('body', 'orelse', 'finalbody'):
            b = getattr(node, f, None)
            if isinstance(b, list) and b and isinstance(b[0], ast.stmt):
                setattr(node, f, self._block(b))
        if isinstance(node, ast.Try):
            for h in node.handlers:
                h.body = self._block(h.body)
        return node


class Reorder(ast.NodeTransformer):
    """swap adjacent single-name assignments whose values have no calls and
    which do not mention each other's target"""
    def _block(self, body):
        body = [self.generic_visit(st) for st in body]
        i = 0
        while i + 1 < len(body):
            a, b = body[i], body[i + 1]
            if all(isinstance(x, ast.Assign) and len(x.targets) == 1 and
                   isinstance(x.targets[0], ast.Name) and
                   not _has_effect(x.value) for x in (a, b)):
                ta, tb = a.targets[0].id, b.targets[0].id
                if ta != tb and ta not in _names(b.value) and \
                        tb not in _names(a.value):
                    body[i], body[i + 1] = b, a
                    i += 2
                    continue
            i += 1
        return body

    generic_visit = Hoist.generic_visit


class Early(ast.NodeTransformer):
    """a trailing `if c: body` (no else) of a function becomes
    `if not c: return` + body; of a loop body, `if not c: continue` + body"""
    def _neg(self, t):
        if isinstance(t, ast.UnaryOp) and isinstance(t.op, ast.Not):
            return t.operand
        return ast.UnaryOp(op=ast.Not(), operand=t)

    def _rewrite(self, body, jump):
        if body and isinstance(body[-1], ast.If) and not body[-1].orelse \
                and len(body[-1].body) >= 2:
            last = body[-1]
            return body[:-1] + [ast.If(test=self._neg(last.test),
                                       body=[jump], orelse=[],
                                       lineno=last.lineno)] + last.body
        return body

    def visit_FunctionDef(self, node):
        self.generic_visit(node)
        node.body = self._rewrite(node.body, ast.Return(value=None))
        return node
    visit_AsyncFunctionDef = visit_FunctionDef

    def visit_For(self, node):
        self.generic_visit(node)
        node.body = self._rewrite(node.body, ast.Continue())
        return node
    visit_While = visit_For
    visit_AsyncFor = visit_For


class Log(ast.NodeTransformer):
    """a logging call before every statement of every block"""
    def _block(self, body):
        out = []
        for k, st in enumerate(body):
            st = self.generic_visit(st)
            doc = (k == 0 and isinstance(st, ast.Expr) and
                   isinstance(st.value, ast.Constant))
            if not doc and not isinstance(st, (ast.Global, ast.Nonlocal)):
                out.append(ast.parse("logger.debug('trace')").body[0])
            out.append(st)
        return out

    generic_visit = Hoist.generic_visit


# ---------------------------------------------------------------------
# extract-helper: a run of top-level statements of a function moves into a
# fresh module-level function; the run is replaced by a call.
_BAD = (ast.Return, ast.Yield, ast.YieldFrom, ast.Await, ast.Global,
        ast.Nonlocal, ast.AsyncFor, ast.AsyncWith, ast.Try, ast.Raise)


def _stores(n):
    out = set()
    for x in ast.walk(n):
        if isinstance(x, ast.Name) and isinstance(x.ctx, (ast.Store, ast.Del)):
            out.add(x.id)
        elif isinstance(x, (ast.FunctionDef, ast.AsyncFunctionDef,
                            ast.ClassDef)):
            out.add(x.name)
        elif isinstance(x, ast.ExceptHandler) and x.name:
            out.add(x.name)
        elif isinstance(x, (ast.Import, ast.ImportFrom)):
            for al in x.names:
                out.add((al.asname or al.name).split('.')[0])
    return out


def _loads(n):
    out = {x.id for x in ast.walk(n)
           if isinstance(x, ast.Name) and isinstance(x.ctx, ast.Load)}
    for x in ast.walk(n):
        if isinstance(x, ast.AugAssign) and isinstance(x.target, ast.Name):
            out.add(x.target.id)
    return out


def _loose_jump(st):
    """break/continue not enclosed by a loop inside st"""
    def rec(n, inloop):
        if isinstance(n, (ast.Break, ast.Continue)) and not inloop:
            return True
        if isinstance(n, (ast.FunctionDef, ast.AsyncFunctionDef, ast.Lambda)):
            return False
        il = inloop or isinstance(n, (ast.For, ast.While))
        return any(rec(c, il) for c in ast.iter_child_nodes(n))
    return rec(st, False)


def extract_helper(fn, uid):
    """(new fn, helper def) or None.  Only top-level statements of fn; the
    inputs are parameters or names bound by a top-level simple statement
    before the run; outputs are the names the run binds that are read later."""
    import copy
    a = fn.args
    params = [x.arg for x in a.posonlyargs + a.args + a.kwonlyargs]
    if a.vararg:
        params.append(a.vararg.arg)
    if a.kwarg:
        params.append(a.kwarg.arg)
    body = fn.body
    # names referenced from nested scopes anywhere in fn: leave them alone
    nested_refs = set()
    for n in ast.walk(fn):
        if n is not fn and isinstance(n, (ast.FunctionDef,
                                          ast.AsyncFunctionDef, ast.Lambda)):
            nested_refs |= {x.id for x in ast.walk(n)
                            if isinstance(x, ast.Name)}
    all_stores = _stores(fn)
    ok = [not any(isinstance(x, _BAD) for x in ast.walk(st)) and
          not _loose_jump(st) and not (isinstance(st, ast.Expr) and
                                       isinstance(st.value, ast.Constant))
          for st in body]
    best = None
    n = len(body)
    for i in range(n):
        for j in range(i + 2, min(n, i + 6) + 1):
            if not all(ok[i:j]):
                break
            if j == n and i == 0:
                continue
            run = body[i:j]
            st_run = set().union(*[_stores(s) for s in run])
            ld_run = set().union(*[_loads(s) for s in run])
            if st_run & nested_refs:
                continue
            bound_before = set(params)
            for s in body[:i]:
                if isinstance(s, (ast.Assign, ast.AnnAssign, ast.AugAssign,
                                  ast.Import, ast.ImportFrom,
                                  ast.FunctionDef, ast.With, ast.For)):
                    if isinstance(s, (ast.With, ast.For)):
                        hdr = copy.copy(s)
                        hdr.body = []
                        hdr.orelse = []
                        bound_before |= _stores(hdr)
                    else:
                        bound_before |= _stores(s)
            ins = sorted(x for x in ld_run
                         if x in all_stores or x in params)
            # a name read by the run must be bound for sure, or be bound by
            # the run itself first (approximated: bound somewhere in the run
            # and not bound at all before it)
            if any(x not in bound_before and x not in st_run for x in ins):
                continue
            ins = [x for x in ins if x in bound_before]
            after = set().union(*[_loads(s) for s in body[j:]]) \
                if j < n else set()
            outs = sorted(x for x in st_run if x in after)
            if any(isinstance(x, ast.Name) and isinstance(x.ctx, ast.Del)
                   for s in run for x in ast.walk(s)):
                continue
            score = (j - i) * 10 - abs((i + j) / 2 - n / 2)
            if best is None or score > best[0]:
                best = (score, i, j, ins, outs)
    if best is None:
        return None
    _, i, j, ins, outs = best
    hname = f'_xh_{fn.name}_{uid}'
    hbody = copy.deepcopy(body[i:j])
    if outs:
        rv = ast.Name(id=outs[0], ctx=ast.Load()) if len(outs) == 1 else \
            ast.Tuple(elts=[ast.Name(id=o, ctx=ast.Load()) for o in outs],
                      ctx=ast.Load())
        hbody.append(ast.Return(value=rv))
    helper = ast.FunctionDef(
        name=hname, args=ast.arguments(
            posonlyargs=[], args=[ast.arg(arg=x) for x in ins],
            kwonlyargs=[], kw_defaults=[], defaults=[]),
        body=hbody, decorator_list=[], type_params=[])
    call = ast.Call(func=ast.Name(id=hname, ctx=ast.Load()),
                    args=[ast.Name(id=x, ctx=ast.Load()) for x in ins],
                    keywords=[])
    if not outs:
        rep = ast.Expr(value=call)
    elif len(outs) == 1:
        rep = ast.Assign(targets=[ast.Name(id=outs[0], ctx=ast.Store())],
                         value=call)
    else:
        rep = ast.Assign(targets=[ast.Tuple(
            elts=[ast.Name(id=o, ctx=ast.Store()) for o in outs],
            ctx=ast.Store())], value=call)
    new = copy.deepcopy(fn)
    new.body[i:j] = [rep]
    return new, helper


MODE = 'rename'
HELPERS = []


def renamed_source(m, fnodes):
    """source of module m with the given (top-most) function nodes replaced
    by local-renamed, unparsed versions"""
    lines = m.src.splitlines(keepends=True)
    # process bottom-up so line numbers stay valid
    for fn in sorted(fnodes, key=lambda f: -f.lineno):
        import copy
        if MODE == 'rename':
            names = locals_of(fn)
            if not names:
                continue
            new = Ren(names).visit(copy.deepcopy(fn))
        elif MODE == 'all':
            new = copy.deepcopy(fn)
            names = locals_of(fn)
            if names:
                new = Ren(names).visit(new)
            new = FlipCmp().visit(new)
            new = SwapIf().visit(new)
            i = 1 if (new.body and isinstance(new.body[0], ast.Expr)
                      and isinstance(new.body[0].value, ast.Constant)) else 0
            new.body.insert(i, ast.parse('_noop = None').body[0])
        elif MODE == 'hoist':
            new = Hoist().generic_visit(copy.deepcopy(fn))
        elif MODE == 'reorder':
            new = Reorder().generic_visit(copy.deepcopy(fn))
        elif MODE == 'early':
            new = Early().visit(copy.deepcopy(fn))
        elif MODE == 'log':
            new = Log().generic_visit(copy.deepcopy(fn))
        elif MODE == 'extract':
            r = extract_helper(fn, len(HELPERS))
            if r is None:
                continue
            new, helper = r
            ast.fix_missing_locations(helper)
            HELPERS.append(ast.unparse(helper))
        elif MODE == 'flip':
            new = FlipCmp().visit(copy.deepcopy(fn))
        elif MODE == 'swap':
            new = SwapIf().visit(copy.deepcopy(fn))
        else:
            # a harmless leading statement (after the docstring) and a
            # trailing `pass` in every if-body
            new = copy.deepcopy(fn)
            i = 1 if (new.body and isinstance(new.body[0], ast.Expr)
                      and isinstance(new.body[0].value, ast.Constant)) else 0
            new.body.insert(i, ast.parse('_noop = None').body[0])
        ast.fix_missing_locations(new)
        text = ast.unparse(new)
        indent = ' ' * fn.col_offset
        text = ''.join(indent + l + '\n' for l in text.splitlines())
        start = fn.lineno - 1
        if fn.decorator_list:
            start = min(d.lineno for d in fn.decorator_list) - 1
        lines[start:fn.end_lineno] = [text]
    out = ''.join(lines)
    if MODE == 'extract' and HELPERS:
        out += '\n\n' + '\n\n\n'.join(HELPERS) + '\n'
        HELPERS.clear()
    return out


def main(props):
    base = model.Repo()
    bad = 0
    for prop in props:
        mod = importlib.import_module(f'sa.rules.{prop.lower()}')
        ctx = report.Ctx(prop, 'quick')
        mod.run(base, ctx)
        from sa import lints
        lints.for_property(base, ctx, prop)
        by_mod = {}
        for q in ctx.functions_analysed:
            f = base.functions.get(q)
            if f is None:
                continue
            top = f
            while top.parent is not None:
                top = top.parent
            by_mod.setdefault(top.module.name, {})[top.qualname] = top
        overlay = {}
        nfun = 0
        for mn, fs in by_mod.items():
            m = base.modules[mn]
            overlay[m.rel()] = renamed_source(m, [f.node for f in
                                                  fs.values()])
            nfun += len(fs)
        for rel, src in overlay.items():
            ast.parse(src)
        repo = model.Repo(base=base, overlay=overlay)
        c2 = report.Ctx(prop, 'quick')
        try:
            mod.run(repo, c2)
            lints.for_property(repo, c2, prop)
            listed = report.load_known() if hasattr(report, 'load_known') \
                else []
            new = [f for f in c2.findings
                   if (f.rule, f.construct) not in
                   {(x.rule, x.construct) for x in ctx.findings}]
            status = 'FINDINGS' if new else 'silent'
            for f in new[:8]:
                print(f'  {prop} {f.rule} {f.construct}: '
                      f'{f.message[:110]}')
            bad += bool(new)
        except model.AnalysisError as e:
            status = f'ANALYSIS-ERROR: {str(e)[:140]}'
            bad += 1
        print(f'{prop}: mode={MODE} edited {nfun} functions of '
              f'{len(overlay)} modules (helpers inlined back: '
              f'{getattr(repo, "helpers_inlined", 0)}) -> {status}')
    return 1 if bad else 0


if __name__ == '__main__':
    if sys.argv[1:2] == ['--swap-if']:
        MODE = 'swap'
        del sys.argv[1]
    elif sys.argv[1:2] == ['--all']:
        MODE = 'all'
        del sys.argv[1]
    elif sys.argv[1:2] == ['--flip']:
        MODE = 'flip'
        del sys.argv[1]
    elif sys.argv[1:2] == ['--noop']:
        MODE = 'noop'
        del sys.argv[1]
    elif sys.argv[1:2] and sys.argv[1] in ('--hoist', '--reorder', '--early',
                                           '--log', '--extract'):
        MODE = sys.argv[1][2:]
        del sys.argv[1]
    ps = sys.argv[1:] or ['C%02d' % i for i in range(1, 21)]
    sys.exit(main(ps))
