#!/bin/bash
# Parallel variant of reeval_seeds.sh: every stored seeded break is applied to
# its own hard-linked scratch copy of /repo/edb (never to /repo itself) and the
# owning property's quick check is run against it through VERIF_REPO.
# usage: tools/reeval_seeds_par.sh [seed-id-prefix] [jobs]
PFX=$1; JOBS=${2:-12}
ROOT=$(mktemp -d /tmp/seedpar.XXXXXX)
trap 'rm -rf "$ROOT"' EXIT
one() {
  d=$1; ROOT=$2
  id=$(basename $d); prop=${id%%-*}
  [ -f $d/OBSOLETE ] && { echo "$id obsolete rc=1 "; return 2>/dev/null || continue; }
  w=$ROOT/$id; mkdir -p $w
  cp -al /repo/edb $w/edb
  [ -d /repo/tests ] && mkdir -p $w/tests
  if ! (cd $w && patch -p1 -s -f --no-backup-if-mismatch < $d/patch.diff >/dev/null 2>$w/apply.err); then
    echo "$id PATCH-DOES-NOT-APPLY"; rm -rf $w; return
  fi
  out=$(VERIF_REPO=$w VERIF_EVIDENCE_DIR=$w/ev /venv/bin/python /verif/check $prop --tier quick 2>&1); rc=$?
  rules=$(echo "$out" | grep -E '^FINDING' | sed -E 's/.*rule=([^ ]+) construct=([^ ]+).*/\1 \2/' | head -3 | tr '\n' ';')
  [ $rc -eq 2 ] && rules="$rules $(echo "$out" | grep -m1 ANALYSIS-ERROR | cut -c1-160)"
  echo "$id rc=$rc $rules"
  rm -rf $w
}
export -f one
ls -d /verif/seeded/${PFX}*/ | xargs -P $JOBS -I{} bash -c 'one {} '"$ROOT" | sort > $ROOT/out.txt
cat $ROOT/out.txt
echo "not-detected=$(grep -vc ' rc=1 ' $ROOT/out.txt)"
