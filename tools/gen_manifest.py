#!/venv/bin/python
"""Regenerate /verif/MANIFEST.json from the table below."""
import json, os, sys
HERE = os.path.dirname(os.path.dirname(os.path.abspath(__file__)))
sys.path.insert(0, HERE)
from tools.manifest_table import CLAIMED, NOT_APPLICABLE  # noqa

checks = []
for pid, d in sorted(CLAIMED.items()):
    checks.append({
        'property_id': pid,
        'quick_cmd': f'/venv/bin/python /verif/check {pid} --tier quick',
        'thorough_cmd': f'/venv/bin/python /verif/check {pid} --tier thorough',
        'evidence_file': f'/verif/evidence/{pid}.json',
        'replay_cmd_template': f'/venv/bin/python /verif/check {pid} --replay {{path}}',
        'engine': 'sa',
        'level_claimed': {
            'category': 'other',
            'text': d['text'],
            'design_ref': d.get('design_ref', f'DESIGN.md §3 {pid}'),
        },
        'level_note': d['note'],
        'technique': d['technique'],
    })
man = {
    'version': 1,
    'setup_cmd': 'true',
    'hooks': {
        'guard': 'EDGEDB_VERIF',
        'enable': 'none needed: static analysis reads /repo sources; no instrumentation is compiled in',
        'baseline_off_cmd': 'cd /repo && /venv/bin/python -m pytest -ra -q -p no:cacheprovider --timeout=900 --continue-on-collection-errors',
        'source_commits': [],
        'add_only': True,
    },
    'engines': [{
        'name': 'sa',
        'path': '/verif/sa',
        'serves_properties': sorted(CLAIMED),
        'kind_free_text': 'repo-specific static analysis over Python ast: class/MRO/import resolver, statement CFG with exceptional edges, registry exhaustiveness and field-coverage, table agreement, provenance, effect ledger; Rust reader tables via a small arm extractor. Nothing from /repo is imported or executed.',
    }],
    'checks': checks,
    'notes': 'All checks are static (level category "other"): they decide structural necessary clauses of each property on every path of the analysed functions, not the input-quantified behaviour. Exit 2 + ANALYSIS-ERROR means an anchor vanished or a rule would pass vacuously.',
    'not_applicable': [{'property_id': k, 'reason': v}
                       for k, v in sorted(NOT_APPLICABLE.items())],
}
with open(os.path.join(HERE, 'MANIFEST.json'), 'w') as f:
    json.dump(man, f, indent=1)
    f.write('\n')
print('claimed', len(checks), 'n/a', len(man['not_applicable']))
