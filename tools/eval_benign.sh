#!/bin/bash
# Evaluate a property-PRESERVING change (patch.diff [+ demo.py]) against ALL checks:
# the patch is applied to a hard-linked scratch copy of /repo/edb (never /repo itself);
# every property's quick check must stay silent (rc=0).  Prints one line per alarm.
# usage: tools/eval_benign.sh <dir with patch.diff> [props...]
D=$(readlink -f $1); shift
PROPS=${@:-C01 C02 C03 C04 C05 C06 C07 C08 C09 C10 C11 C12 C13 C14 C15 C16 C17 C18 C19 C20}
W=$(mktemp -d /tmp/benign.XXXXXX)
trap 'rm -rf "$W"' EXIT
cp -al /repo/edb $W/edb; mkdir -p $W/tests
if ! (cd $W && patch -p1 -s -f --no-backup-if-mismatch < $D/patch.diff >/dev/null 2>$W/apply.err); then
  echo "$(basename $(dirname $D))/$(basename $D) PATCH-DOES-NOT-APPLY $(head -2 $W/apply.err)"; exit 8
fi
if [ -f $D/demo.py ] && [ -z "$SKIP_DEMO" ]; then
  timeout 180 /venv/bin/python $D/demo.py /repo >/dev/null 2>&1; c=$?
  timeout 180 /venv/bin/python $D/demo.py $W >/dev/null 2>&1; p=$?
  echo "demo clean=$c patched=$p"
fi
one() { p=$1; W=$2
  out=$(VERIF_REPO=$W VERIF_EVIDENCE_DIR=$W/ev_$p /venv/bin/python /verif/check $p --tier quick 2>&1); rc=$?
  if [ $rc -ne 0 ]; then
     echo "ALARM $p rc=$rc :: $(echo "$out" | grep -E '^FINDING|ANALYSIS-ERROR' | cut -c1-400 | head -5 | tr '\n' '|')"
  fi
}
export -f one
echo $PROPS | tr ' ' '\n' | xargs -P 10 -I{} bash -c 'one {} '"$W"
echo "done $(basename $(dirname $D))/$(basename $D)"
