NOTE = ('Trusted base: Python ast of the current /repo sources; the resolver in sa/model.py '
        '(imports, MRO, registries), the CFG in sa/cfg.py, and the frozen exception tables in the '
        'rule module (one reason per entry). Necessary structural clauses only; value-level logic is not decided.')

CLAIMED = {
 'C20': dict(
   text='Decides, on every CFG path of sort_ex/visit, the DFS shape clauses the ordering property needs: visiting add/remove pairing on all exits, emission only after the hard and loop-control adjacency loops completed and exactly when marked visited, hard fields feed hard adjacency only and weak fields weak adjacency only, every key visited, result built from the emission order, callers never swallow CycleError. The soft-cycle tolerance counters are not decided.',
   note=NOTE,
   technique='static analysis: statement CFG path queries (dominance / must-pass-through with condition correlation), def-use of adjacency maps, who-catches scan'),
 'C15': dict(
   text='Decides for pool.py (Block, BasePool, Pool), on every CFG path including exceptional exits of awaits and closed over spawned tasks: the counting ledger cap-(live+pending+closing) returns to zero at every entry point; every connection-opening call is capacity-guarded in its atomic segment or a reasoned compensation; ledger fields have frozen single writers; lend typestate (idle stack entry/exit sites, in_use only set when lending, removed connections reach the disconnect and are never idle-stacked); database affinity of acquire/connect. Quota arithmetic and timing are not decided.',
   note=NOTE + ' Exception model: only awaits and explicit raise statements raise; asserts hold. _NaivePool and pool2.py are out of scope.',
   technique='static analysis: counting effect system (abstract interpretation of counter deltas over a CFG with exceptional and spawn edges, inter-procedural summaries by fixpoint), dominance within atomic segments, who-may-write tables, argument provenance'),
 'C16': dict(
   text='Decides the hand-off disciplines eventual service depends on: idle connection => wake-up in the same atomic segment; a woken waiter leaving by any exception (incl. cancellation) passes the wake-up on; waiter counters restored on all exits; connect-failure handler reaches retry or abort_waiters on every path; every path of Pool._acquire to the wait registers a demand or is dominated by a test implying the block has a connection (explicit implication table); no phantom pending connection (ledger); tick kept alive. Fairness itself is not decided.',
   note=NOTE + ' Exception model as C15 plus CancelledError at awaits of client-awaited coroutines.',
   technique='static analysis: CFG must-pass-through / dominance queries, path enumeration with a small explicit implication table, counting effect system shared with C15'),
 'C17': dict(
   text='Decides for edb/server/compiler_pool that the five state components keep one slot order from the sender (both arms) through worker entry signatures, __sync__ calls and stores, to the compiler entry points (both worker flavours and the multi-tenant header); that each component is compared with its own belief and sent iff its belief update is recorded; that the belief is acknowledged only after a completed request and never on FailedStateSync; that the belief merge tests None, not truthiness; that LAST_STATE writers agree with _last_pickled_state writers and the reuse marker / by-reference schema are sent only under the matching identity test. Multi-failure histories are not decided.',
   note=NOTE + ' Component identity is by name after stripping _pickle/_unpacked and owner prefixes.',
   technique='static analysis: table extraction and agreement between sender, receivers and callee signatures; CFG dominance for the acknowledgement discipline; contradiction rule (None-guard vs truthiness merge)'),
 'C09': dict(
   text='Decides structural clauses of the compiler-side transaction state: snapshot-field agreement of rollback/commit down to TransactionState; implicit-transaction guards dominate savepoint commands and COMMIT; _state0 frozen and updates persistent; statement class / state method / TxAction / SQL verb agreement per branch and exhaustiveness over Transaction subclasses; COMMIT reads if-updated values before the baseline reset; savepoint loop orderings (test-before-erase vs erase-before-test, newest-first, raise on no match); re-synchronisation shape incl. sync before compile; migration blocks pair their savepoint. Same-named savepoint stack behaviour and the Cython dbview are not decided.',
   note=NOTE,
   technique='static analysis: table extraction (class/method/enum/SQL-literal word agreement), CFG dominance and ordering queries, field-set agreement across call chains'),
 'C19': dict(
   text='Decides structural clauses of configuration handling: coercion dominates every storage write and storage is only rebound to persistent-operation results; opcode and scope exhaustiveness; lookup order (first hit wins, given order, default; compiler passes session, database, system); JSON key agreement, SQL operation-row order vs Operation.from_json and opcode validity per IR class, case-split agreement of the value converters; ScalarType kind coverage across sibling functions; opcode-to-storage-operation agreement; static evaluation maps each ConfigCommand to its namesake opcode with scope and name unchanged. Value-level text round trips are not decided.',
   note=NOTE + ' The Cython consumers (protocol/execute.pyx, dbview.pyx) are out of reach.',
   technique='static analysis: CFG dominance (validate-before-write), enum/branch exhaustiveness, writer/reader table agreement incl. SQL row producers, sibling-function case coverage over the class hierarchy'),
 'C14': dict(
   text='Decides for sertypes.py: per protocol generation, the regular language of field-width sequences each descriptor encoder can emit is included in the language its tag decoder reads (product-automaton inclusion, widths derived from struct formats and packer bodies) plus length framing; tag table consistency; every per-element list written into a shape-like descriptor is an argument of the content id; dedup discipline (early return iff already described, single buffer writer, references by position). One listed known finding (sources not covered by the shape id). That the described shape equals the query shape is not decided.',
   note=NOTE + ' Field identity is abstracted to width and order; which count governs which loop is forgotten.',
   technique='static analysis: abstract interpretation of writer/reader functions into regular expressions over field widths, NFA product inclusion; registry/table extraction; argument-coverage of id functions'),
 'C18': dict(
   text='Decides for the quoting layer: every escape the EdgeQL string/bytes writers can emit is accepted by the Rust unquote functions with the same value (tables extracted from both sides, incl. numeric guards); the code points passed through raw do not meet the lexer-prohibited set (character-class algebra over the regexes and the Rust match arms); each quoting function neutralises its own delimiter, backslash first, and the dollar-quote marker search covers a boundary-straddling occurrence; identifier quoting consults the keyword tables; the code generators\' constant and identifier sinks call the quoting functions. PostgreSQL\'s full lexical rules and hand-rolled quoting inside SQL f-strings are not decided.',
   note=NOTE + ' Rust side read through a three-function arm extractor (fails closed if an arm group cannot be parsed).',
   technique='static analysis: writer/reader escape-table extraction and agreement (Python ast + Rust match-arm extractor), interval algebra on character classes, structural delimiter-discipline checks, sink provenance'),
 'C01': dict(
   text='Decides writer/reader agreement between the EdgeQL printer and the grammar + lexer: every node class a reduction can construct has a visit_<Class> (exact-name dispatch) or is a listed inline component; every field a reduction can set to a non-constant value (keyword arguments, positional arguments, and self.val.<attr> stores resolved through the production symbols) is read by that visitor transitively through helpers and closures; literal brackets balance on every condition-consistent path of every visitor; literal alphabet agreement with the Rust lexer (shared with C18); keyword words exist in keywords.rs. Parenthesisation sufficiency, token fusion and byte-identity of the second print are not decided.',
   note=NOTE + ' Field reads are attribute reads on the node parameter, inter-procedural to depth 5.',
   technique='static analysis: registry exhaustiveness and inter-procedural field-coverage over the AST family (grammar side vs printer side), path-consistent bracket counting, keyword-table inclusion, character-class algebra'),
 'C08': dict(
   text='Decides: the statement-class dispatch of _compile_dispatch_ql, abstractly evaluated over every concrete qlast statement class, returns the capability of the class family (DDL, +TRANSACTION for migration commands with a tx action, TRANSACTION, SESSION_CONFIG, scope-dependent config capability, MODIFICATIONS iff has_dml); every construction of a mutating IR statement is dominated by a dml_exprs record and modifying function calls are recorded; has_dml derives from the dml_exprs of the same IR, MODIFICATIONS is guarded only by it, capabilities flow unmodified into the unit and are aggregated by union; flag enum sanity. Volatility inference of function bodies is not decided.',
   note=NOTE,
   technique='static analysis: abstract evaluation of an isinstance chain over the resolved class hierarchy, CFG dominance, provenance of keyword arguments, enum table checks'),
 'C06': dict(
   text='Decides: the cardinality reported to clients derives only from the inferred ir.cardinality of the same IR through an identity mapping that covers every member; every concrete IR expression/statement class resolves to a non-raising cardinality and multiplicity handler (reasoned inline exceptions) and the sibling registries agree; declared single/required pointers and globals are enforced by comparisons in the right direction that dominate the pointer update; four bound facts forced by set semantics (EXCEPT/INTERSECT lower bound zero, UNION sums, empty set may be empty, DISTINCT is UNIQUE and the multi fall-through is DUPLICATE). The soundness of the remaining bounds algebra is not decided - that needs the reference semantics, not source shape.',
   note=NOTE,
   technique='static analysis: provenance of reported values, singledispatch registry exhaustiveness over the IR class hierarchy with sibling cross-check, CFG dominance of enforcement comparisons, operator-arm table facts'),
 'C04': dict(
   text='Decides for the schema store: FlatSchema is persistent (seven fields assigned only in __init__ and on the fresh object in _replace, which installs every map; nothing in edb/ writes through them; bulk loader and map-mutation contexts publish through one _replace); every mutator that derives a new object-data map passes the type map, the three name indexes (from _update_obj_name with the right old/new names) and the reverse-reference index (from _update_refs_to with the right old/new sets, skipped only under the not-an-object-reference test) to the returning _replace; the only semantic deleter is DeleteObject._delete_finalize, where the delete is dominated by the referrer check; lookups read the maps of self and memoisation is per instance or keyed by the schema value; rename sets the name and renames owned children under the new parent name. The arithmetic of _update_refs_to and expression rewriting are not decided.',
   note=NOTE,
   technique='static analysis: whole-repo who-may-write / who-may-call scans, keyword-argument provenance into the copy constructor, CFG dominance of the referrer check, decorator audit'),
}

_PENDING = 'check not built yet in this round (design in DESIGN.md §3); will be claimed when its rules are armed'
NOT_APPLICABLE = {
 'C10': 'history-quantified schema equality (path independence over chains of schemas); no static clause beyond those already claimed under C02/C04/C20, so claiming it would double count',
}
for i in range(1, 20):
    pid = f'C{i:02d}'
    if pid not in CLAIMED and pid not in NOT_APPLICABLE:
        NOT_APPLICABLE[pid] = _PENDING
