NOTE = ('Trusted base: Python ast of the current /repo sources; the resolver in sa/model.py '
        '(imports, MRO, registries), the CFG in sa/cfg.py, and the frozen exception tables in the '
        'rule module (one reason per entry). Necessary structural clauses only; value-level logic is not decided.')

CLAIMED = {
 'C10': dict(
   text='Decides the history-specific clauses only (what a single step does to reach its target is C02): R1 CREATE MIGRATION keeps the history linear - the parent is taken from the schema\'s last migration and from nothing else, an ONTO clause naming anything else (or anything on an empty history) raises, that parent is what is recorded, the migration id is derived from (parent name, script) and the stored script is the hashed text; R2 pairing against residue - for every schema field that holds a type (pointer target, parameter type, return type, cast endpoints, index match type, collection element types) a delete command of the owning class schedules as_type_delete_if_unused on the old value, SET TYPE does so for the old target, collections for their element types; R3 a collection scheduled for removal-if-unused vetoes it only because of referrers outside the command tree (path fact on DeleteArray._has_outside_references; generic veto of DeleteObject consulted under if_unused); R4 a propagated rename / alter of an inherited reference whose commands are tagged implicit_propagation ranges over all descendants. Equality of the end states of two chains is not decided. The rules of this property were written after, and with knowledge of, the three seeded breaks stored for it (C10-d*).',
   note=NOTE,
   technique='static analysis: definition-use and guard extraction on CreateMigration._cmd_from_ast, pairing rule over the schema-field table (type-holding field => release in a delete command), three-valued path facts, loop-range / annotation coupling',
   design_ref='DESIGN.md §9.17'),
 'C20': dict(
   text='Decides, on every CFG path of sort_ex/visit, the DFS shape clauses the ordering property needs: visiting add/remove pairing on all exits, emission only after the hard and loop-control adjacency loops completed and exactly when marked visited, hard fields feed hard adjacency only and weak fields weak adjacency only, every key visited, result built from the emission order, callers never swallow CycleError. The soft-cycle tolerance counters are not decided.',
   note=NOTE,
   technique='static analysis: statement CFG path queries (dominance / must-pass-through with condition correlation), def-use of adjacency maps, who-catches scan'),
 'C15': dict(
   text='Decides for pool.py (Block, BasePool, Pool), on every CFG path including exceptional exits of awaits and closed over spawned tasks: the counting ledger cap-(live+pending+closing) returns to zero at every entry point; every connection-opening call is capacity-guarded in its atomic segment or a reasoned compensation; ledger fields have frozen single writers; lend typestate (idle stack entry/exit sites, in_use only set when lending, removed connections reach the disconnect and are never idle-stacked); database affinity of acquire/connect. Quota arithmetic and timing are not decided.',
   note=NOTE + ' Exception model: only awaits and explicit raise statements raise; asserts hold. _NaivePool and pool2.py are out of scope.',
   technique='static analysis: counting effect system (abstract interpretation of counter deltas over a CFG with exceptional and spawn edges, inter-procedural summaries by fixpoint), dominance within atomic segments, who-may-write tables, argument provenance'),
 'C16': dict(
   text='Decides the hand-off disciplines eventual service depends on: idle connection => wake-up in the same atomic segment; a woken waiter leaving by any exception (incl. cancellation) passes the wake-up on; waiter counters restored on all exits; connect-failure handler reaches retry or abort_waiters on every path; every path of Pool._acquire to the wait registers a demand or is dominated by a test implying the block has a connection (explicit implication table); no phantom pending connection (ledger); tick kept alive. Fairness itself is not decided.',
   note=NOTE + ' Exception model as C15 plus CancelledError at awaits of client-awaited coroutines.',
   technique='static analysis: CFG must-pass-through / dominance queries, path enumeration with a small explicit implication table, counting effect system shared with C15'),
 'C17': dict(
   text='Decides for edb/server/compiler_pool that the five state components keep one slot order from the sender (both arms) through worker entry signatures, __sync__ calls and stores, to the compiler entry points (both worker flavours and the multi-tenant header); that each component is compared with its own belief and sent iff its belief update is recorded; that the belief is acknowledged only after a completed request and never on FailedStateSync; that the belief merge tests None, not truthiness; that LAST_STATE writers agree with _last_pickled_state writers and the reuse marker / by-reference schema are sent only under the matching identity test. Multi-failure histories are not decided.',
   note=NOTE + ' Component identity is by name after stripping _pickle/_unpacked and owner prefixes.',
   technique='static analysis: table extraction and agreement between sender, receivers and callee signatures; CFG dominance for the acknowledgement discipline; contradiction rule (None-guard vs truthiness merge)'),
 'C09': dict(
   text='Decides structural clauses of the compiler-side transaction state: snapshot-field agreement of rollback/commit down to TransactionState; implicit-transaction guards dominate savepoint commands and COMMIT; _state0 frozen and updates persistent; statement class / state method / TxAction / SQL verb agreement per branch and exhaustiveness over Transaction subclasses; COMMIT reads if-updated values before the baseline reset; savepoint loop orderings (test-before-erase vs erase-before-test, newest-first, raise on no match); re-synchronisation shape incl. sync before compile; migration blocks pair their savepoint. Same-named savepoint stack behaviour and the Cython dbview are not decided.',
   note=NOTE,
   technique='static analysis: table extraction (class/method/enum/SQL-literal word agreement), CFG dominance and ordering queries, field-set agreement across call chains'),
 'C19': dict(
   text='Decides structural clauses of configuration handling: coercion dominates every storage write and storage is only rebound to persistent-operation results; opcode and scope exhaustiveness; lookup order (first hit wins, given order, default; compiler passes session, database, system); JSON key agreement, SQL operation-row order vs Operation.from_json and opcode validity per IR class, case-split agreement of the value converters; ScalarType kind coverage across sibling functions; opcode-to-storage-operation agreement; static evaluation maps each ConfigCommand to its namesake opcode with scope and name unchanged. Value-level text round trips are not decided.',
   note=NOTE + ' The Cython consumers (protocol/execute.pyx, dbview.pyx) are out of reach.',
   technique='static analysis: CFG dominance (validate-before-write), enum/branch exhaustiveness, writer/reader table agreement incl. SQL row producers, sibling-function case coverage over the class hierarchy'),
 'C14': dict(
   text='Decides for sertypes.py: per protocol generation, the regular language of field-width sequences each descriptor encoder can emit is included in the language its tag decoder reads (product-automaton inclusion, widths derived from struct formats and packer bodies) plus length framing; tag table consistency; every per-element list written into a shape-like descriptor is an argument of the content id; dedup discipline (early return iff already described, single buffer writer, references by position). One listed known finding (sources not covered by the shape id). That the described shape equals the query shape is not decided.',
   note=NOTE + ' Field identity is abstracted to width and order; which count governs which loop is forgotten.',
   technique='static analysis: abstract interpretation of writer/reader functions into regular expressions over field widths, NFA product inclusion; registry/table extraction; argument-coverage of id functions'),
 'C18': dict(
   text='Decides for the quoting layer: every escape the EdgeQL string/bytes writers can emit is accepted by the Rust unquote functions with the same value (tables extracted from both sides, incl. numeric guards); the code points passed through raw do not meet the lexer-prohibited set (character-class algebra over the regexes and the Rust match arms); each quoting function neutralises its own delimiter, backslash first, and the dollar-quote marker search covers a boundary-straddling occurrence; identifier quoting consults the keyword tables; the code generators\' constant and identifier sinks call the quoting functions. PostgreSQL\'s full lexical rules and hand-rolled quoting inside SQL f-strings are not decided.',
   note=NOTE + ' Rust side read through a three-function arm extractor (fails closed if an arm group cannot be parsed).',
   technique='static analysis: writer/reader escape-table extraction and agreement (Python ast + Rust match-arm extractor), interval algebra on character classes, structural delimiter-discipline checks, sink provenance'),
 'C01': dict(
   text='Decides writer/reader agreement between the EdgeQL printer and the grammar + lexer: every node class a reduction can construct has a visit_<Class> (exact-name dispatch) or is a listed inline component; every field a reduction can set to a non-constant value (keyword arguments, positional arguments, and self.val.<attr> stores resolved through the production symbols) is read by that visitor transitively through helpers and closures; literal brackets balance on every condition-consistent path of every visitor; literal alphabet agreement with the Rust lexer (shared with C18); keyword words exist in keywords.rs. Parenthesisation sufficiency, token fusion and byte-identity of the second print are not decided.',
   note=NOTE + ' Field reads are attribute reads on the node parameter, inter-procedural to depth 5.',
   technique='static analysis: registry exhaustiveness and inter-procedural field-coverage over the AST family (grammar side vs printer side), path-consistent bracket counting, keyword-table inclusion, character-class algebra'),
 'C08': dict(
   text='Decides: the statement-class dispatch of _compile_dispatch_ql, abstractly evaluated over every concrete qlast statement class, returns the capability of the class family (DDL, +TRANSACTION for migration commands with a tx action, TRANSACTION, SESSION_CONFIG, scope-dependent config capability, MODIFICATIONS iff has_dml); every construction of a mutating IR statement is dominated by a dml_exprs record and modifying function calls are recorded; has_dml derives from the dml_exprs of the same IR, MODIFICATIONS is guarded only by it, capabilities flow unmodified into the unit and are aggregated by union; flag enum sanity. Volatility inference of function bodies is not decided.',
   note=NOTE,
   technique='static analysis: abstract evaluation of an isinstance chain over the resolved class hierarchy, CFG dominance, provenance of keyword arguments, enum table checks'),
 'C06': dict(
   text='Decides: the cardinality reported to clients derives only from the inferred ir.cardinality of the same IR through an identity mapping that covers every member; every concrete IR expression/statement class resolves to a non-raising cardinality and multiplicity handler (reasoned inline exceptions) and the sibling registries agree; declared single/required pointers and globals are enforced by comparisons in the right direction that dominate the pointer update; four bound facts forced by set semantics (EXCEPT/INTERSECT lower bound zero, UNION sums, empty set may be empty, DISTINCT is UNIQUE and the multi fall-through is DUPLICATE). The soundness of the remaining bounds algebra is not decided - that needs the reference semantics, not source shape.',
   note=NOTE,
   technique='static analysis: provenance of reported values, singledispatch registry exhaustiveness over the IR class hierarchy with sibling cross-check, CFG dominance of enforcement comparisons, operator-arm table facts'),
 'C04': dict(
   text='Decides for the schema store: FlatSchema is persistent (seven fields assigned only in __init__ and on the fresh object in _replace, which installs every map; nothing in edb/ writes through them; bulk loader and map-mutation contexts publish through one _replace); every mutator that derives a new object-data map passes the type map, the three name indexes (from _update_obj_name with the right old/new names) and the reverse-reference index (from _update_refs_to with the right old/new sets, skipped only under the not-an-object-reference test) to the returning _replace; the only semantic deleter is DeleteObject._delete_finalize, where the delete is dominated by the referrer check; lookups read the maps of self and memoisation is per instance or keyed by the schema value; rename sets the name and renames owned children under the new parent name. The arithmetic of _update_refs_to and expression rewriting are not decided.',
   note=NOTE,
   technique='static analysis: whole-repo who-may-write / who-may-call scans, keyword-argument provenance into the copy constructor, CFG dominance of the referrer check, decorator audit'),
 'C11': dict(
   text='Decides for the SDL-to-DDL pipeline: every declaration kind the SDL grammar can place in a module block has an arm in the kind chain (else raises), registered under the namesake tracer class, with layout handlers for pointer/base-owning kinds; for every SDL-producible declaration class the expression / type-expression / parameter fields the grammar can set are read by its dependency handler itself (singledispatch MRO, including the silent catch-all) or by the generic walk over commands and bases - five fields are an audited baseline of untraced candidates; dependency sets are rebound to sorted OrderedSets on every path before the topological sort; a CycleError is converted to InvalidDefinitionError. Name resolution inside the tracer is not decided.',
   note=NOTE + ' A field counts as traced when the handler reads it; whether the read feeds the dependency set is not followed further.',
   technique='static analysis: isinstance-chain and singledispatch registry exhaustiveness against the SDL grammar, inter-procedural field-coverage of dependency handlers, CFG dominance of normalisation before sort'),
 'C12': dict(
   text='Decides only the two clauses of the property that are visible in source shape: the type descriptor reported to clients derives from the inferred stype of the same IR (binary), std::str (JSON) or the null descriptor (no output) under the matching output-format test and flows unchanged into the unit; FunctionCall/OperatorCall IR nodes and the set wrapping them are typed from matched_call.return_type only (plus the union-type transfer confined to the object-typed UNION/IF/?? arm), typemod from the matched callable, matched_call is the single resolver result with ambiguity raising. Overload ranking, cast distances and common-type rules are not decided: they need the reference semantics.',
   note=NOTE,
   technique='static analysis: def-use provenance of reported type descriptors and of call-node type fields, CFG dominance by output-format tests'),
 'C13': dict(
   text='Decides for the EdgeQL->SQL compiler and printers: no call resolves to a randomness/clock/address source (one listed known finding); every un-sorted loop over a set-typed value (typed through displays, constructors, set/dict-view algebra, locals, and attributes typed via the receiver class annotations) is in an audited baseline, a new one is a finding (one listed known finding, one repaired); every ParamRef number is read from ctx.argmap[..].index, the argmap is written only by populate_argmap with a counter starting at 1 and one increment per entry, and the same map is reported to the server; alias suffixes come from the per-hint counter only; every field the compiler passes to a pgast constructor is read by the SQL printer visitor of that class (metadata fields excepted). Range-variable / LATERAL scoping is not decided: it is a property of the generated tree, not of source shape.',
   note=NOTE + ' The set-iteration rule is an audit with a frozen, reasoned baseline; it does not prove cross-process determinism for the baseline sites.',
   technique='static analysis: who-may-call scan over resolved callees, lightweight type inference for hash-ordered containers, def-use provenance of parameter numbers, field-coverage of the SQL printer'),
 'C07': dict(
   text='Decides for the policy-rewrite mechanism: object-type tables are named only in relctx._table_from_typeref, which is reachable only through _selects_for_typeref_descendants from the false branch of the rewrite test in range_for_material_objtype; that test has exactly the four documented conjuncts (locals inlined) and its callers passing for_mutation/ignore_rewrites are a reviewed list; the type_rewrites key keeps its meaning from writer through fini_expression (one negation) to the reader; every rewrite-suppression site (ignore_rewrites=True, suppress_rewrites, apply_query_rewrites off) is enumerated and the user-query path keeps rewrites on; ir.Set is constructed only in setgen.new_set/new_empty_set and new_set registers the rewrite under exactly the documented conditions before constructing the set. That the compiled filter expresses the policies is not decided.',
   note=NOTE,
   technique='static analysis: who-may-construct / who-may-call scans over the SQL and EdgeQL compilers, CFG edge-dominance of the rewrite lookup, key-shape agreement across three sites with local inlining, enumerated suppression table'),
 'C02': dict(
   text='Decides table-consistency facts the diff engine depends on: over every schema class in the diff scope (computed from delta_schemas), each DDL-settable, non-ephemeral field has a comparison coefficient; each diffed field is DDL-settable, is `expr`, is mapped by an AST hook, or is in an audited baseline (a new field outside it is a finding) and AlterObjectProperty._get_ast still tests exactly those disjuncts; Create/Alter/Delete apply run begin -> innards -> caused -> finalize threading the schema, and every override of a template hook (134 today) chains to super() on every normal path and uses its result (22 reasoned exceptions). The rename heuristic, linearisation order and apply semantics are not decided.',
   note=NOTE + ' The DDL-expressibility table is an audit with a frozen baseline of 72 fields, not a proof that each is expressible.',
   technique='static analysis: declarative field-metadata tables extracted from SchemaField declarations over the resolved class hierarchy, template-method call-order and super-chaining checks on the CFG'),
 'C03': dict(
   text='Decides structural clauses DESCRIBE round-tripping needs: the DDL-expressibility table of C02 in the describe direction; the expression normaliser reaches every grammar-settable child field (generic handler iterates all fields minus skip; each specialised handler skips only what it handled itself, helper defaults followed); every field the SDL grammar, resp. the DDL grammar, can set is read by the printer (C01 machinery per language, incl. per-production partial evaluation); the text functions reach generate_source through the delta-to-AST path only; Expression.from_ast normalises before printing on every non-fragment path and other modules store Expression text only from literals or reviewed sites. Ordering of the emitted text and equality of the rebuilt schema are not decided.',
   note=NOTE,
   technique='static analysis: field-coverage of the normaliser and of the printer per grammar, call-graph reachability for the single text path, CFG dominance for normalise-before-print'),
 'C05': dict(
   text='Decides structural clauses of the schema-to-storage mapping: backend names of object types, pointers, scalars, indexes and constraints are built from the object id and module only (dispatch arguments and the naming functions), so renames cannot orphan storage; per adapter family of edb/pgsql/delta.py, a storage-creating dbops constructor reachable from the Create command\'s template hooks (following self/super calls through the MRO) implies the matching drop is reachable from the Delete command\'s hooks; every leaf Create/Alter/Delete/Rename command of a storage-bearing schema class has an adapts= counterpart; the two arms of the single<->multi storage move are converses in create -> copy -> drop order with the table drop guarded by has_table. Per-history presence of a given table or column is not decided; the single-decision-function rule of the design (R3) was not built.',
   note=NOTE,
   technique='static analysis: argument provenance into naming functions, call-graph reachability of dbops constructors per adapter class (MRO-aware), registry exhaustiveness, statement-order checks inside the two arms'),
}

# clauses added after independent seeded breaks were missed (DESIGN.md §9.6)
EXTRA = {
 'C01': ' Also: a visitor that replaces its node by a rewritten copy takes every decision about the rewritten fields after the rebinding (R7).',
 'C02': ' Also: fields set from dedicated DDL syntax by an AST hook count as user-settable in R1; R4: RENAME is left out of the DDL only when module and name are both unchanged, and a DROP on one parent deletes an inheritor\'s copy only when the inheritor neither owns it nor has another parent defining it (three-valued path facts).',
 'C03': ' Also: a WITH / result alias joins the normaliser\'s local names only after its own definition was normalised; DDL printers decide on the rewritten pointer node (C01.R7); SDL output is order-independent input (C11\'s rules under R6).',
 'C04': ' Also R6: values shared by every schema version are never mutated in place - callers of memoised list-returning helpers copy before writing, collection slots (_ids/_keys) are written only in __init__ (write-once lazy fill accepted, one audited exception), the index refresh after a rename recomputes keys and is reached on every path.',
 'C05': ' Also R6: the DDL side and the query-compiler side keep the same pointer names verbatim per table kind, name the link-table target column alike and agree on in-source / own-table storage; R7: the keep-table arm asks has_table of the schema after the command, the drop-table arm of the schema before it.',
 'C06': ' Also R6: 39 bound facts forced by set semantics (LIMIT/OFFSET/FILTER/UNLESS CONFLICT/json casts/optional parameters/SET OF and OPTIONAL functions, multiplicity of set-returning calls, FOR, constant sets ...) decided by three-valued path analysis under stated assumptions; R7: only = (IN) and AND let a FILTER narrow to AT_MOST_ONE, UNION disjointness uses full descendant sets.',
 'C07': ' Also R6: the rewrite filter is absent only for a type without any policy, defaults to FALSE, conjoins negated deny policies, and a policy contributes only for the kinds it names; R7: the rewrite registry is never rebound while aliases of it are held, SQL-side readers key by the material type id, cached alias/global compilations are keyed by the security context.',
 'C11': ' Also: inherited-item dependencies range over the transitive ancestor set (R5); the expression tracer has a handler for every expression class the grammar builds and visits every AST-bearing child, statements enter alias_context (R6); WITH MODULE sets the field name resolution reads (R7); C20\'s rules on the underlying sort (R8); R2 counts only value reads.',
 'C12': ' Also: best-candidate loops recompute the score per candidate (R3); collection common/resolved types are built from the element-wise results (R4); union simplification keeps the most generic, intersection the least generic members (R5).',
 'C13': ' Also: set provenance is followed through returned values and parameters (R2); hoisted CTE families are spliced leaf-first so that a non-recursive WITH defines before it references, rewrite CTEs are listed after their body is compiled (R6).',
}
# clauses added after the second round of independent seeded breaks
EXTRA2 = {
 'C01': ' R8: data written between quote delimiters a visitor emits itself goes through an escaping function; R9: every enum member the grammar can set has a spelling in a compare-only visitor; R10: a prefix operation as a left operand keeps parentheses; paren exemptions name the child they are about.',
 'C02': ' R5: no list is resized while iterated; position indexes are rebuilt after each change of their list; an ALTER of an inherited ref without subcommands is marked owned; the inherited-status comparison is symmetric; same-named arguments reach the parameter of their own name (edb.schema).',
 'C04': ' R7: old/new roles of the index-maintenance helpers (taint from the stored data map); R8: aggregate ChainedSchema queries answer from all three layers; R9: a name enters the name index only past the already-exists and module-exists tests.',
 'C05': ' R8: before/after schema arguments aligned with parameter names (edb.pgsql); the column of a dropped link stays only when the owning type is dropped; only link tables bring their own source/target columns.',
 'C06': ' (second round: all three seeds caught by the existing path facts) plus: a multi non-SET OF argument makes a call DUPLICATE.',
 'C07': ' R8: "no rewrite needed" decided on all policies of the type; subtype policies counted relative to skip_from; the rewrite recursion guard is copied by NEWREL contexts.',
 'C08': ' R5: every mandatory child contributes to a node\'s volatility on every path; ALTER FUNCTION SET volatility re-injects the body not_compiled(); migration commands forward the action of the transaction statement they compile.',
 'C09': ' R9: sync_tx is a no-op at the current id; in a failed transaction only the two rollbacks compile (decided per statement class); each state component of a DDL/COMMIT/migration unit is reported on its own condition.',
 'C11': ' R9: qualified names take module and name from one object; forked tracer contexts copy fields like-for-like; per-module declaration lists are only extended.',
 'C12': ' R6: C14\'s descriptor rules; R7: left/right mirrored statements agree; R8: common-type folds update their accumulator in every iteration.',
 'C13': ' R7: `lateral` is forwarded to range constructors; detached parameter types cover params and globals; tuple()/list()/join/star over sets count as iterations.',
 'C14': ' R5: kind-specific describers are called only from their dispatcher; IS_IMPLICIT decided by (element name, implicit_id) facts.',
 'C16': ' R6: a discarded connection is replaced on every path; the tick\'s quiet early exit is strictly below capacity.',
 'C17': ' Also: the server-side belief about the worker\'s LAST_STATE is overwritten after every reply; every component staged by the multitenant incremental sync is committed.',
 'C19': ' R8: the set-size limit lives in the check shared by SET and INSERT; the field map is read after `_tname` resolved the type; rendering a config object keeps falsy fields.',
 'C20': ' R6: DepGraphEntry keeps caller containers by identity; sort_by_inheritance uses transitive ancestors; hard dependency sets are only extended.',
}
for _k, _v in EXTRA.items():
    CLAIMED[_k]['text'] += _v
for _k, _v in EXTRA2.items():
    CLAIMED[_k]['text'] += _v

EXTRA3 = {
 'C01': ' R12: a field a reduction fills with the text of an identifier token is written through an identifier-quoting function; R5 also: only literal text (or enum-valued fields) reaches the case-folding keyword writer.',
 'C02': ' R7: a propagation loop tagged implicit_propagation ranges over all descendants; the enum rebase decision is order-sensitive; module filters of the schema iterator match exactly or at a :: boundary.',
 'C03': ' R8: delta_schemas sorts before it drops union types; every TypeName handed back by typeref_to_ast / shell_to_ast carries name=_name; only commands nested in a referrer blank the module of a deparsed name.',
 'C04': ' R11: a FlatSchema method that threads a working copy of an index never goes back to self._x; a renamed tuple is re-named from its element names; SET TYPE on a link updates its @target property whenever not canonical (path fact).',
 'C05': ' R10: under has_table(ptr, orig_schema) alone the pointer\'s own table is dropped on every path of _delete_link / _delete_property; each apply hook of MetaCommand collects its namesake getter.',
 'C06': ' R8: std::IF never combines its branches with max_cardinality; only compile-time constants count as distinct elements of a set literal; Pointer.is_exclusive applies every exclusion of get_exclusive_constraints.',
 'C07': ' R10: whenever a policy has a WHEN condition the compiled expression passes the conjunction with it on every path (path fact).',
 'C08': ' R7: the final inferred volatility overwrites the provisional memo entry; SQL units get TRANSACTION under tx_action is not None.',
 'C09': ' R6 also decides the erase-while-scanning shape; R11: compile_in_tx leaves the root user schema out only under the identity test of the believed pickle (or together with dbname).',
 'C11': ' R9 also: every derived tracer context shares all accumulators of its parent; a tracer context manager whose result callers assign to yields a copy on every path.',
 'C12': ' R10: an argument whose type differs from the current anytype binding is accepted only through the common-type search (path fact); the common type of range and multirange takes its class from the other operand.',
 'C13': ' R9: the join helpers keep one join tree per SELECT; a NEWREL context starts from an empty path scope.',
 'C14': ' R7: cardinality and link flag of a shape element are computed from the pointer whose target is described.',
 'C15': ' R2 also: a replacement connection is scheduled only on paths that discarded the old one; the opener is never handed on as a callback.',
 'C16': ' R9: _should_free_conn lets go of an over-quota block when not starving and of a block without waiters when starving (path facts); R10: a tick with free capacity and a waitlist looks at the waitlist, and the stealing step runs on every starving tick with a waitlist.',
 'C17': ' R7 = C09.R11; R8: the compiler server diffs all of what it records as held, RemotePool diffs after obtaining the sync lock, __sync__ is all-or-nothing (every decoding precedes the first store); R3 also: every decoding lies in the guarded try.',
 'C19': ' R10: from_json installs every entry whose setting exists; config objects compare their type specs by value.',
 'C20': ' R3 also: every resolved element of a dependency field reaches its adjacency (no skip); R8: the outer swallow decision of the DFS reads per-frame state, cross-reference filters are in key space.',
}
for _k, _v in EXTRA3.items():
    CLAIMED[_k]['text'] += _v
EXTRA4 = {
 'C01': ' R13: a DDL object visitor that passes named=False starts its after_name output with white space (the last object keyword and the next token would fuse otherwise).',
 'C04': ' R2/R3 are role-based since round 5 (the reverse index may be skipped under an old-vs-new comparison of the reference sets; the blocking-referrer raise is guarded by a local built from the referrers).',
 'C06': ' R4 is decided as path facts over every path to the pointer update since round 5.',
 'C09': ' R12: __getstate__/__setstate__/__slots__ of the connection state agree (shipped = restored in the same order, everything else reset to a constant); the public savepoint and migration commands reach their worker on every normal path.',
 'C10': ' R5/R6 = C02.R4/R5 (a reference dropped from one of two parents survives through the other; positional base insertions of one step do not disturb each other).',
 'C11': ' R13: the ancestors index of the SDL loader has one writer (get_ancestors); R14: a type name checked for existence reaches ctx.refs on every normal path, trace_Function records a TypeDependency for every parameter type and the return type.',
 'C12': ' R11: element-wise comparisons of the subtype lists of two different collection types compare the lengths first.',
 'C13': ' R10: in_type_args / oparams of _extract_params are stored under an index that comes from the argmap.',
 'C14': ' R8: the content-derived id functions consume every parameter without a lossy reduction (any, len, set, lower, slices ...), and so does what is appended to the lists handed to them; class-level containers used as memos are keyed by what the value is computed from.',
 'C16': ' R11: a block a request is queued on is never scheduled for dropping by the tick and never marked suppressed by prune_inactive_connections (path facts).',
 'C17': ' R9: every worker entry point that takes a state transfer passes __sync__ before any reply.',
 'C18': ' R3 also: neither quote_ident returns its argument verbatim when needs_quoting holds for it (path fact).',
 'C19': ' R11: every unit ConfigMemory.to_str can print is accepted by its parser pattern and has an arm in __init__; R2 reads scope arms from what _set_value reaches (same-module helpers and tables).',
 'C20': ' Adjacency lookups through .get, fetch-or-create aliases and plain dicts of OrderedSets are read as the adjacency they stand for; the visited guard is a path fact.',
}
for _k, _v in EXTRA4.items():
    CLAIMED[_k]['text'] += _v
EXTRA5 = {
 'C01': ' R12: names of DDL objects go through the identifier quoting function.',
 'C02': ' R8: no schema-derived value is stored in the command context by the inheritance commands; R9 = C10.R2: a dropped pointer releases its target whatever its ownership (path fact).',
 'C04': ' R12: the canonical delete command is looked up by the key it was stored under; R13: after a rebase the command recomputes its own inheritance and walks the descendants closure (not the direct children) doing the same.',
 'C05': ' R10: the decision to drop a table reads the schema the object still exists in, and an object\'s own table is dropped with it.',
 'C06': ' R9: the cardinality of a path takes every trailing hop into account.',
 'C07': ' R11: members of compound (union / intersection) types get their rewrites; R12: a range that was not asked for descendants reads one type.',
 'C09': ' R13: a transaction-control unit that changes the compiler-side state is not cacheable; R14 = C17.R10: a worker remembers (LAST_STATE) only the state returned by a completed compile call, and it is the state it pickles into the reply; R15: compile_in_tx applies the aliases and settings of the request after sync_tx on every path (a re-sync to a savepoint replaces the state).',
 'C10': ' R2: a dropped pointer releases its target on every path (no ownership test can skip the release).',
 'C12': ' R12: the common type of two collections hands one operand back only under an equality test of the two.',
 'C17': ' R9 also: no explicit raise precedes __sync__ in a worker entry point (an error reply acknowledges the transfer too); R10 = C09.R14; R11: a transfer computed against one worker\'s believed state is sent to that worker only (no rebinding of the worker reaches the call without a fresh computation).',
 'C18': ' R2 also: under the assumption that the non-printable guard matched, no open path of visit_Constant writes the value as is or dollar-quoted (path fact; single-character containment tests are independent of the guard); the slip battery covers the SQL source generator (memo keys).',
}
EXTRA5['C14'] = ' R9: per descriptor tag, the conditions under which an element field is present agree between the encoder and the decoder loops. R10: the collection describers describe the elements walked from get_subtypes as they are (no re-binding before the recursive description).'
EXTRA5['C19'] = ' R12: the source and scope recorded by set_value do not derive from the map being updated; R13: the compilation-config blob folds its scopes so that a later (more specific) argument wins (update loop in order, or ChainMap over the reversed sequence); R14: from_pyvalue removes nothing from the nested values of the payload it is given (the Operation is applied more than once).'
EXTRA5['C04'] += ' R14: unmangle_name decodes only isolated escape characters (negative look-behind and look-ahead for the doubled character) into the separator mangle_name wrote for them.'
EXTRA5['C15'] = ' R12: current_capacity and the snapshot\'s capacity read the ledger _cur_capacity (the counter that still includes connections being closed).'
EXTRA5['C18'] += ' R3 also: every interpolating return of quote_bytea_literal interpolates a hex encoding of the data.'
EXTRA5['C01'] += ' R14: the abbreviation `all` is printed only under a guard that implies set equality with the enumeration (equality with its listing, or equal lengths of a duplicate-free list).'
for _k, _v in EXTRA5.items():
    CLAIMED[_k]['text'] += _v
LINT_NOTE = (' Rule <id>.L is a battery of slip patterns scoped to the packages the property is anchored in (swapped arguments, like-for-like copies, mirrored / duplicated statements, dropped options, discarded updates, loop slips, memo keys that do not cover the inputs, identity keys, lossy-key maps, cache-key equality, arm-family copies, class-level shared tables, loop-invariant comprehension filters, truthiness tests on int-enum fields with a zero member); each pattern has no unaudited instance on the tree the rules were written against.')
for _k in CLAIMED:
    CLAIMED[_k]['text'] += LINT_NOTE if _k != 'C10' else ''
NOTE_ALPHA = (' Before rules run, locals, if/else polarity, comparison operand order and and/or operand order of changed '
              'modules are aligned with the recorded baseline (sa/alpha.py); logging statements, hoisted temporaries and guard clauses the baseline function did not have are undone as well, so behaviour-preserving restylings do not reach the rules. Since round 5 functions the baseline tree did not have (extracted helpers, new closures) are inlined back at their statement-position call sites, new row-table loops are unrolled, and an obligation that fails while the function branches on new tests about the very quantities a path fact names, or delegates to a new helper that could not be inlined, is reported as undecided (ANALYSIS-ERROR, exit 2) instead of as a violation.')
for _k in CLAIMED:
    CLAIMED[_k]['note'] += NOTE_ALPHA

_PENDING = 'check not built yet in this round (design in DESIGN.md §3); will be claimed when its rules are armed'
NOT_APPLICABLE = {
}
for i in range(1, 21):
    pid = f'C{i:02d}'
    if pid not in CLAIMED and pid not in NOT_APPLICABLE:
        NOT_APPLICABLE[pid] = _PENDING
