NOTE = ('Trusted base: Python ast of the current /repo sources; the resolver in sa/model.py '
        '(imports, MRO, registries), the CFG in sa/cfg.py, and the frozen exception tables in the '
        'rule module (one reason per entry). Necessary structural clauses only; value-level logic is not decided.')

CLAIMED = {
 'C20': dict(
   text='Decides, on every CFG path of sort_ex/visit, the DFS shape clauses the ordering property needs: visiting add/remove pairing on all exits, emission only after the hard and loop-control adjacency loops completed and exactly when marked visited, hard fields feed hard adjacency only and weak fields weak adjacency only, every key visited, result built from the emission order, callers never swallow CycleError. The soft-cycle tolerance counters are not decided.',
   note=NOTE,
   technique='static analysis: statement CFG path queries (dominance / must-pass-through with condition correlation), def-use of adjacency maps, who-catches scan'),
}

_PENDING = 'check not built yet in this round (design in DESIGN.md §3); will be claimed when its rules are armed'
NOT_APPLICABLE = {
 'C10': 'history-quantified schema equality (path independence over chains of schemas); no static clause beyond those already claimed under C02/C04/C20, so claiming it would double count',
}
for i in range(1, 20):
    pid = f'C{i:02d}'
    if pid not in CLAIMED and pid not in NOT_APPLICABLE:
        NOT_APPLICABLE[pid] = _PENDING
