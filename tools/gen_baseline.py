#!/venv/bin/python
"""Record the local-variable definition fingerprints of every function in
edb/ (see sa/alpha.py).  Run on the tree the rules were written against."""
import gzip, json, os, sys
HERE = os.path.dirname(os.path.dirname(os.path.abspath(__file__)))
sys.path.insert(0, HERE)
os.environ['VERIF_NO_ALPHA'] = '1'
from sa import model, alpha  # noqa

repo = model.Repo()
out = {}
for m in repo.modules.values():
    if m.name.startswith(('edb.tools', 'edb.testbase', 'edb.lib')):
        continue
    fs = {f.qualname: f for f in repo._funcs_of(m) if f.parent is None}
    keys = alpha.stable_keys(fs)
    for q, f in fs.items():
        fp = alpha.fingerprints(f.node)
        it = alpha.if_tests(f.node)
        cm = alpha.compares(f.node)
        bo = alpha.boolops(f.node)
        lg = alpha.log_stmts(f.node)
        ne = alpha.noelse_ifs(f.node)
        if fp or it or cm or bo or lg or ne:
            out[keys[q]] = {'l': fp, 'i': it, 'c': cm, 'b': bo}
            if lg:
                out[keys[q]]['g'] = lg
            out[keys[q]]['n'] = ne
            ts = alpha.all_tests(f.node)
            if ts:
                out[keys[q]]['t'] = sorted(set(ts))
import hashlib
out['__funcs__'] = {m.rel(): sorted(alpha.def_table(m.tree, m.name)) for m in repo.modules.values()}
out['__nested__'] = {m.rel(): sorted(alpha.nested_table(m.tree, m.name)) for m in repo.modules.values()}
out['__modules__'] = {m.rel(): hashlib.sha1(m.src.encode()).hexdigest() for m in repo.modules.values()}
os.makedirs(os.path.join(HERE, 'baseline'), exist_ok=True)
with gzip.open(alpha.BASEFILE, 'wt') as fh:
    json.dump(out, fh, separators=(',', ':'))
print(len(out), 'functions', os.path.getsize(alpha.BASEFILE), 'bytes')
