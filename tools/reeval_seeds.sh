#!/bin/bash
# Re-run the owning property's quick check against every stored seeded break.
# usage: tools/reeval_seeds.sh [seed-id-prefix]
cd /repo || exit 9
if [ -n "$(git status --short)" ]; then echo "REPO-DIRTY"; exit 9; fi
missed=0
for d in /verif/seeded/${1}*/; do
  id=$(basename $d); prop=${id%%-*}
  [ -f $d/OBSOLETE ] && { echo "$id obsolete rc=1 "; return 2>/dev/null || continue; }
  if ! git apply --check $d/patch.diff 2>/dev/null; then echo "$id PATCH-DOES-NOT-APPLY"; missed=$((missed+1)); continue; fi
  git apply $d/patch.diff
  out=$(/venv/bin/python /verif/check $prop --tier quick 2>&1); rc=$?
  git checkout -- .
  rules=$(echo "$out" | grep -E '^FINDING' | sed -E 's/.*rule=([^ ]+) construct=([^ ]+).*/\1 \2/' | head -3 | tr '\n' ';')
  echo "$id rc=$rc $rules"
  [ $rc -ne 1 ] && missed=$((missed+1))
done
echo "not-detected=$missed"
