#!/venv/bin/python
"""Import a sub-agent's seeded break into /verif/seeded/<id>/ after
confirming it: demo passes on clean /repo, fails with the patch, pinned suite
still 58 passed; records which checks report it.
usage: tools/import_seed.py <src dir> <seed id> <property> [other props to run...]"""
import json, os, re, shutil, subprocess, sys
src, sid, prop, *others = sys.argv[1:]
dst = f'/verif/seeded/{sid}'
os.makedirs(dst, exist_ok=True)
props = [prop] + others
out = subprocess.run(['/verif/tools/eval_seed.sh', src] + props, capture_output=True, text=True).stdout
print(out)
m_clean = re.search(r'demo clean: (\d+)', out)
m_pat = re.search(r'demo patched: (\d+) :: (.*)', out)
m_suite = re.search(r'suite: (.*)', out)
if not (m_clean and m_pat):
    sys.exit('evaluation failed: ' + out[-300:])
checks = {}
for m in re.finditer(r'check (C\d+) rc=(\d+) :: (.*)', out):
    rules = sorted(set(re.findall(r'rule=(\S+) construct=(\S+)', m.group(3))))
    checks[m.group(1)] = {'rc': int(m.group(2)), 'reported': [f'{r} {c}' for r, c in rules]}
ok = m_clean.group(1) == '0' and m_pat.group(1) != '0' and m_suite and '58 passed' in m_suite.group(1)
for f in ('patch.diff', 'demo.py', 'demo.sh', 'notes.md'):
    if os.path.exists(os.path.join(src, f)):
        shutil.copy(os.path.join(src, f), os.path.join(dst, f))
# helper modules the demo imports from its own directory (harness.py,
# _stubs.py, ...) travel with it
for f in os.listdir(src):
    if f.endswith('.py') and f not in ('demo.py',) and os.path.isfile(
            os.path.join(src, f)):
        shutil.copy(os.path.join(src, f), os.path.join(dst, f))
for up in (os.path.dirname(src.rstrip('/')),):
    for f in ('harness.py', '_stubs.py', 'common.py'):
        if os.path.exists(os.path.join(up, f)) and not os.path.exists(
                os.path.join(dst, f)):
            shutil.copy(os.path.join(up, f), os.path.join(dst, f))
notes = open(os.path.join(src, 'notes.md')).read() if os.path.exists(os.path.join(src, 'notes.md')) else ''
meta = {
    'id': sid,
    'property': prop,
    'origin': 'independent sub-agent given only the property text and a scratch worktree',
    'confirmed': bool(ok),
    'demo_exit_clean': int(m_clean.group(1)),
    'demo_exit_patched': int(m_pat.group(1)),
    'demo_symptom': m_pat.group(2).strip()[:300],
    'pinned_suite_with_patch': m_suite.group(1) if m_suite else None,
    'needs_to_manifest': (re.search(r'(?is)(needs?|manifest|trigger)[^\n]*\n(.{0,400})', notes) or [None, None, ''])[2].strip()[:400] if notes else '',
    'ran': ['tools/eval_seed.sh (demo on clean /repo, git apply, demo, pinned suite, checks, git checkout)'],
    'checks': checks,
    'detected': any(v['rc'] == 1 for v in checks.values()),
}
json.dump(meta, open(os.path.join(dst, 'meta.json'), 'w'), indent=1)
print('->', dst, 'confirmed' if ok else 'NOT CONFIRMED', 'detected' if meta['detected'] else 'MISSED')
