#!/venv/bin/python
"""Import a sub-agent's seeded break into /verif/seeded/<id>/ after
confirming it on a scratch git worktree of /repo (never /repo itself):
demo passes on clean /repo, fails on the patched copy, pinned suite still
58 passed on the patched copy; records which checks report it.
usage: tools/import_seed2.py <src dir> <seed id> <property> [other props...]"""
import json, os, re, shutil, subprocess, sys, tempfile
src, sid, prop, *others = sys.argv[1:]
src = os.path.abspath(src)
dst = f'/verif/seeded/{sid}'
props = [prop] + others
w = tempfile.mkdtemp(prefix='seedimp.')
try:
    os.rmdir(w)
    subprocess.run(['git', '-C', '/repo', 'worktree', 'add', '--detach', '-q', w, 'HEAD'], check=True)
    demo = 'demo.py' if os.path.exists(f'{src}/demo.py') else 'demo.sh'
    def run_demo(root):
        cmd = ['/venv/bin/python', f'{src}/demo.py', root] if demo == 'demo.py' \
            else ['bash', f'{src}/demo.sh', root]
        try:
            p = subprocess.run(cmd, capture_output=True, text=True, timeout=240)
            return p.returncode, (p.stdout + p.stderr)[-400:]
        except subprocess.TimeoutExpired:
            return 124, 'timeout'
    c_rc, _ = run_demo('/repo')
    ap = subprocess.run(f'cd {w} && patch -p1 -s -f --no-backup-if-mismatch < {src}/patch.diff',
                        shell=True, capture_output=True, text=True)
    if ap.returncode != 0:
        sys.exit(f'{sid}: PATCH-DOES-NOT-APPLY {ap.stdout[-200:]}{ap.stderr[-200:]}')
    p_rc, p_out = run_demo(w)
    suite = ''
    if not os.environ.get('SKIP_SUITE'):
        sp = subprocess.run(
            f'cd {w} && timeout 900 /venv/bin/python -m pytest -q -p no:cacheprovider '
            f'--continue-on-collection-errors tests/common tests/test_profiling.py '
            f'tests/test_sourcecode.py 2>&1 | tail -1', shell=True,
            capture_output=True, text=True)
        suite = sp.stdout.strip()
    checks = {}
    for p in props:
        cp = subprocess.run(['/venv/bin/python', '/verif/check', p, '--tier', 'quick'],
                            capture_output=True, text=True,
                            env=dict(os.environ, VERIF_REPO=w,
                                     VERIF_EVIDENCE_DIR=f'{w}/ev_{p}'))
        out = cp.stdout + cp.stderr
        rules = sorted(set(re.findall(r'^FINDING .*?rule=(\S+) construct=(\S+)', out, re.M)))
        checks[p] = {'rc': cp.returncode, 'reported': [f'{r} {c}' for r, c in rules]}
        if cp.returncode == 2:
            m = re.search(r'ANALYSIS-ERROR.*', out)
            checks[p]['analysis_error'] = m.group(0)[:300] if m else ''
finally:
    subprocess.run(['git', '-C', '/repo', 'worktree', 'remove', '--force', w])
    shutil.rmtree(w, ignore_errors=True)
ok = c_rc == 0 and p_rc != 0 and (os.environ.get('SKIP_SUITE') or '58 passed' in suite)
os.makedirs(dst, exist_ok=True)
for f in os.listdir(src):
    if os.path.isfile(os.path.join(src, f)) and (f.endswith('.py') or f in ('patch.diff', 'demo.sh', 'notes.md')):
        shutil.copy(os.path.join(src, f), os.path.join(dst, f))
notes = open(os.path.join(src, 'notes.md')).read() if os.path.exists(os.path.join(src, 'notes.md')) else ''
m = re.search(r'(?is)(needs?[^\n]*manifest|what it needs|to manifest)[^\n]*\n(.{0,500})', notes)
meta = {
    'id': sid, 'property': prop,
    'origin': 'independent sub-agent given only the property text and a scratch worktree (round 5)',
    'title': notes.strip().splitlines()[0].strip('# ')[:200] if notes.strip() else '',
    'confirmed': bool(ok),
    'demo_exit_clean': c_rc, 'demo_exit_patched': p_rc,
    'demo_symptom': p_out.strip()[-300:],
    'pinned_suite_with_patch': suite,
    'needs_to_manifest': (m.group(2).strip()[:450] if m else ''),
    'ran': ['tools/import_seed2.py (demo on clean /repo; patch applied to a scratch git worktree; demo, pinned suite and checks run against the copy)'],
    'checks_first_pass': checks,
    'detected_first_pass': any(v['rc'] == 1 for v in checks.values()),
}
json.dump(meta, open(os.path.join(dst, 'meta.json'), 'w'), indent=1)
print(sid, 'confirmed' if ok else f'NOT-CONFIRMED(clean={c_rc},patched={p_rc},suite={suite[:40]})',
      'DETECTED' if meta['detected_first_pass'] else 'MISSED',
      {p: (v['rc'], v['reported'][:2], v.get('analysis_error', '')[:120]) for p, v in checks.items()})
