from sa.selftest import V

D = 'edb/server/compiler/dbstate.py'
C = 'edb/server/compiler/compiler.py'
L = 'edb/server/compiler/ddl.py'
S = 'edb.server.compiler.dbstate.'
CS = S + 'CompilerConnectionState.'
TX = S + 'Transaction.'

V('C09', 'rollback-wrong-snapshot', D, CS + 'rollback_tx',
  'prior_state = self._current_tx._state0', 'prior_state = self._current_tx._current',
  'C09.R1', 'rollback_tx:snapshot-source')
V('C09', 'rollback-field-mix', D, CS + 'rollback_tx',
  'modaliases=prior_state.modaliases,', 'modaliases=self._current_tx._current.modaliases,',
  'C09.R1', 'rollback_tx:field=modaliases')
V('C09', 'commit-field-swap', D, CS + 'commit_tx',
  'database_config=latest_state.database_config,', 'database_config=latest_state.system_config,',
  'C09.R1', 'commit_tx:field=database_config')
V('C09', 'commit-from-state0', D, CS + 'commit_tx',
  'latest_state = self._current_tx._current', 'latest_state = self._current_tx._state0',
  'C09.R1', 'commit_tx:snapshot-source')
V('C09', 'release-no-guard', D, TX + 'release_savepoint',
  '''        if self.is_implicit():
            raise errors.TransactionError(
                "savepoints can only be used in transaction blocks"
            )

        self._release_savepoint(name)''', '''        self._release_savepoint(name)''',
  'C09.R2', 'release_savepoint')
V('C09', 'commit-no-guard', D, CS + 'commit_tx',
  'if self._current_tx.is_implicit():', 'if False:', 'C09.R2', 'commit_tx')
V('C09', 'start-twice-ok', D, CS + 'start_tx',
  'raise errors.TransactionError("already in transaction")', 'pass', 'C09.R2', 'start_tx')
V('C09', 'state0-moved', D, TX + 'update_schema',
  '''        self._current = self._current._replace(
            local_user_schema=user_schema,
            global_schema=global_schema,
        )''', '''        self._current = self._current._replace(
            local_user_schema=user_schema,
            global_schema=global_schema,
        )
        self._state0 = self._current''', 'C09.R3', '_state0')
V('C09', 'update-wrong-field', D, TX + 'update_session_config',
  '_replace(session_config=new_config)', '_replace(database_config=new_config)', 'C09.R3', 'update_session_config')
V('C09', 'if-updated-vs-current', D, TX + 'get_user_schema_if_updated',
  'self._state0.user_schema', 'self._current.user_schema', 'C09.R3', 'get_user_schema_if_updated')
V('C09', 'savepoint-not-logged', D, TX + '_declare_savepoint',
  '        self._constate._savepoints_log[sp_id] = sp_state\n', '', 'C09.R3', '_declare_savepoint')
V('C09', 'rollback-to-calls-release', C, 'edb.server.compiler.compiler._compile_ql_transaction',
  'new_state = tx.rollback_to_savepoint(ql.name)', 'new_state = tx.release_savepoint(ql.name)',
  'C09.R4', 'RollbackToSavepoint:method')
V('C09', 'release-sql-rollback', C, 'edb.server.compiler.compiler._compile_ql_transaction',
  "sql = f'RELEASE SAVEPOINT {pgname}'.encode()", "sql = f'ROLLBACK TO SAVEPOINT {pgname}'.encode()",
  'C09.R4', 'ReleaseSavepoint:sql')
V('C09', 'commit-action-rollback', C, 'edb.server.compiler.compiler._compile_ql_transaction',
  'action = dbstate.TxAction.COMMIT', 'action = dbstate.TxAction.ROLLBACK', 'C09.R4', 'CommitTransaction:action')
V('C09', 'commit-before-read', C, 'edb.server.compiler.compiler._compile_ql_transaction',
  '''        cur_tx = ctx.state.current_tx()
        final_user_schema = cur_tx.get_user_schema_if_updated()
        final_cached_reflection = cur_tx.get_cached_reflection_if_updated()
        final_global_schema = cur_tx.get_global_schema_if_updated()

        new_state = ctx.state.commit_tx()
''', '''        cur_tx = ctx.state.current_tx()
        final_cached_reflection = cur_tx.get_cached_reflection_if_updated()
        final_global_schema = cur_tx.get_global_schema_if_updated()

        new_state = ctx.state.commit_tx()
        final_user_schema = ctx.state.current_tx().get_user_schema_if_updated()
''', 'C09.R5', 'get_user_schema_if_updated')
V('C09', 'rollback-to-erases-target', D, TX + '_rollback_to_savepoint',
  '''            if sp.name == name:
                self._current = sp
                break

            sp_ids_to_erase.append(sp.id)''', '''            sp_ids_to_erase.append(sp.id)
            if sp.name == name:
                self._current = sp
                break
''', 'C09.R6', '_rollback_to_savepoint:order')
V('C09', 'release-keeps-target', D, TX + '_release_savepoint',
  '''            sp_ids_to_erase.append(sp.id)

            if sp.name == name:
                break''', '''            if sp.name == name:
                break
            sp_ids_to_erase.append(sp.id)''', 'C09.R6', '_release_savepoint:order')
V('C09', 'oldest-first', D, TX + '_rollback_to_savepoint',
  'for sp in reversed(self._savepoints.values()):', 'for sp in self._savepoints.values():',
  'C09.R6', 'newest-first')
V('C09', 'rollback-to-not-current', D, TX + '_rollback_to_savepoint',
  '                self._current = sp\n', '', 'C09.R6', '_rollback_to_savepoint:order')
V('C09', 'sync-forgets-current', D, CS + 'sync_to_savepoint',
  '        self._current_tx._current = sp\n', '', 'C09.R7', 'sync_to_savepoint')
V('C09', 'sync-prune-log-only', D, CS + 'sync_to_savepoint',
  '''        for id in tuple(self._current_tx._savepoints):
            if id > spid:
                self._current_tx._savepoints.pop(id)
''', '', 'C09.R7', 'both-tables')
V('C09', 'sync-tx-silent', D, CS + 'sync_tx',
  '''        raise errors.InternalServerError(
            f"failed to lookup transaction or savepoint with id={txid}"
        )  # pragma: no cover''', '''        return''', 'C09.R7', 'sync_tx')
V('C09', 'compile-in-tx-no-sync', C, 'edb.server.compiler.compiler.Compiler.compile_in_tx',
  '''        else:
            state.sync_tx(txid)
''', '''        else:
            pass
''', 'C09.R7', 'sync-before-compile')
V('C09', 'abort-migration-wrong-savepoint', L, 'edb.server.compiler.ddl._abort_migration',
  'current_tx.abort_migration(mstate.initial_savepoint)', 'current_tx.commit_migration(mstate.initial_savepoint)',
  'C09.R8', '_abort_migration')
V('C09', 'abort-keeps-state', L, 'edb.server.compiler.ddl._abort_migration',
  '    current_tx.update_migration_state(None)\n', '', 'C09.R8', '_abort_migration')
# negative controls
V('C09', 'neg-rename-var', D, CS + 'rollback_tx',
  'prior_state', 'snap', None, count=9)
V('C09', 'neg-reorder-kwargs', D, CS + 'commit_tx',
  '''            user_schema=latest_state.user_schema,
            global_schema=latest_state.global_schema,''', '''            global_schema=latest_state.global_schema,
            user_schema=latest_state.user_schema,''', None)

V('C09', 'sync-tx-restores-at-current-id', 'edb/server/compiler/dbstate.py', 'edb.server.compiler.dbstate.CompilerConnectionState.sync_tx',
  '''        if self._current_tx.id == txid:
            return

        if self.can_sync_to_savepoint(txid):
            self.sync_to_savepoint(txid)
            return
''', '''        if self.can_sync_to_savepoint(txid):
            self.sync_to_savepoint(txid)
            return

        if self._current_tx.id == txid:
            return
''', 'C09.R9', 'sync_tx:current-id-is-a-no-op')
V('C09', 'failed-tx-release-compiles', 'edb/server/compiler/compiler.py', 'edb.server.compiler.compiler._compile_ql_transaction',
  '''    if ctx.expect_rollback and not isinstance(
        ql, (qlast.RollbackTransaction, qlast.RollbackToSavepoint)
    ):''', '''    if ctx.expect_rollback and isinstance(
        ql, (qlast.StartTransaction, qlast.CommitTransaction, qlast.DeclareSavepoint)
    ):''', 'C09.R9', 'failed-tx:ReleaseSavepoint')
V('C09', 'commit-unit-global-under-user-schema', 'edb/server/compiler/compiler.py', 'edb.server.compiler.compiler._make_query_unit',
  '''        if not ctx.dump_restore_mode:
            if comp.user_schema is not None:
                final_user_schema = comp.user_schema
                unit.user_schema = pickle.dumps(comp.user_schema, -1)
                unit.user_schema_version = (
                    _get_schema_version(comp.user_schema)
                )
                unit.extensions, unit.ext_config_settings = (
                    _extract_extensions(ctx, comp.user_schema)
                )
            unit.feature_used_metrics = comp.feature_used_metrics
            if comp.cached_reflection is not None:
                unit.cached_reflection = \\
                    pickle.dumps(comp.cached_reflection, -1)
            if comp.global_schema is not None:
                unit.global_schema = pickle.dumps(comp.global_schema, -1)
                unit.roles = _extract_roles(comp.global_schema)

        if comp.modaliases is not None:''', '''        if not ctx.dump_restore_mode and comp.user_schema is not None:
            final_user_schema = comp.user_schema
            unit.user_schema = pickle.dumps(comp.user_schema, -1)
            unit.user_schema_version = (
                _get_schema_version(comp.user_schema)
            )
            unit.extensions, unit.ext_config_settings = (
                _extract_extensions(ctx, comp.user_schema)
            )
            unit.feature_used_metrics = comp.feature_used_metrics
            if comp.cached_reflection is not None:
                unit.cached_reflection = \\
                    pickle.dumps(comp.cached_reflection, -1)
            if comp.global_schema is not None:
                unit.global_schema = pickle.dumps(comp.global_schema, -1)
                unit.roles = _extract_roles(comp.global_schema)

        if comp.modaliases is not None:''', 'C09.R9', 'TxControlQuery:global_schema', count=1)
# negative control: the failed-transaction guard with the tuple reordered
V('C09', 'neg-failed-tx-tuple-reordered', 'edb/server/compiler/compiler.py', 'edb.server.compiler.compiler._compile_ql_transaction',
  '(qlast.RollbackTransaction, qlast.RollbackToSavepoint)', '(qlast.RollbackToSavepoint, qlast.RollbackTransaction)', None)
V('C09', 'lint-replace-result-dropped', D, TX + '_declare_savepoint',
  'sp_state = self._current._replace(id=sp_id, name=name)', 'sp_state = self._current\n        self._current._replace(id=sp_id, name=name)', 'C09.L', 'slips:discarded-update')
V('C09', 'redeclare-drops-older-savepoint', D, TX + '_declare_savepoint',
  '        self._savepoints[sp_id] = sp_state\n', '''        for old_id, old_sp in tuple(self._savepoints.items()):
            if old_sp.name == name:
                del self._savepoints[old_id]
        self._savepoints[sp_id] = sp_state
''', 'C09.R10', '_declare_savepoint:removes-savepoints')
V('C09', 'update-schema-early-return', D, TX + 'update_schema',
  '        global_schema = new_schema.get_global_schema()\n', '        if user_schema is self._current.user_schema:\n            return\n        global_schema = new_schema.get_global_schema()\n', 'C09.R10', 'update_schema:records-both-schemas')
V('C09', 'tx-caches-derived-schema', D, TX + 'update_modaliases',
  '        self._current = self._current._replace(modaliases=new_modaliases)', '        self._current = self._current._replace(modaliases=new_modaliases)\n        self._aliases_cache = new_modaliases', 'C09.R10', 'state-is-in-the-snapshot')

# round 4
V('C09', 'release-forgets-only-the-named-savepoint', 'edb/server/compiler/dbstate.py',
  'edb.server.compiler.dbstate.Transaction._release_savepoint',
  '''        sp_ids_to_erase = []
        for sp in reversed(self._savepoints.values()):
            sp_ids_to_erase.append(sp.id)

            if sp.name == name:
                break
        else:
            raise errors.TransactionError(f"there is no {name!r} savepoint")

        for sp_id in sp_ids_to_erase:
            self._savepoints.pop(sp_id)
''', '''        for sp in reversed(self._savepoints.values()):
            if sp.name == name:
                self._savepoints.pop(sp.id)
                return
        raise errors.TransactionError(f"there is no {name!r} savepoint")
''', 'C09.R6', '_release_savepoint:order')
V('C09', 'root-schema-left-out-whenever-db-known', 'edb/server/compiler_pool/pool.py',
  'edb.server.compiler_pool.pool.AbstractPool.compile_in_tx',
  '''            worker_db = worker._dbs.get(dbname)
            if worker_db is None:
                dbname = None
            elif worker_db.user_schema_pickle is user_schema_pickle:
                user_schema_pickle = None
            else:
                dbname = None
''', '''            if dbname in worker._dbs:
                user_schema_pickle = None
            else:
                dbname = None
''', 'C09.R11', 'root-schema-left-out')
# round 5: repair of RELEASE SAVEPOINT cacheability
V('C09', 'revert-fix-release-savepoint-cacheable', 'edb/server/compiler/compiler.py',
  'edb.server.compiler.compiler._compile_ql_transaction',
  "        sql = f'RELEASE SAVEPOINT {pgname}'.encode()\n        cacheable = False\n",
  "        sql = f'RELEASE SAVEPOINT {pgname}'.encode()\n",
  'C09.R13', 'ReleaseSavepoint:not-cacheable')
V('C09', 'declare-savepoint-cacheable', 'edb/server/compiler/compiler.py',
  'edb.server.compiler.compiler._compile_ql_transaction',
  "        sql = f'SAVEPOINT {pgname}'.encode()\n\n        cacheable = False\n",
  "        sql = f'SAVEPOINT {pgname}'.encode()\n\n",
  'C09.R13', 'DeclareSavepoint:not-cacheable')

# round 5: the stored seeded breaks this property's check reports, replayed as variants
from sa.selftest import VP  # noqa
VP('C09', 'C09-e1', 'C09.R12', 'slot=_tx_count')
VP('C09', 'C09-e2', 'C09.R4', 'modaliases')
VP('C09', 'C09-e3', 'C09.R12', 'reaches-worker')
VP('C09', 'C09-f3', 'C09.R14', 'remember-after-compile')

# final round: repair of the request state applied before the re-sync
V('C09', 'revert-fix-request-state-before-sync', 'edb/server/compiler/compiler.py',
  'edb.server.compiler.compiler.Compiler.compile_in_tx',
  "            return self._try_compile_rollback(request.source)[0], state\n        else:\n            state.sync_tx(txid)\n",
  "            return self._try_compile_rollback(request.source)[0], state\n        if request.modaliases is not None:\n            state.current_tx().update_modaliases(request.modaliases)\n        state.sync_tx(txid)\n",
  'C09.R15', 'update_modaliases-after-sync')
