from sa.selftest import V

F = 'edb/common/topological.py'
VIS = 'edb.common.topological.sort_ex.visit'
SE = 'edb.common.topological.sort_ex'

V('C20', 'drop-visiting-remove', F, VIS,
  '                visiting.remove(item)\n', '                pass\n',
  'C20.R1', 'visiting.add')
V('C20', 'drop-weak-remove', F, VIS,
  '                    visiting_weak.remove(item)\n', '                    pass\n',
  'C20.R1', 'visiting_weak.add')
V('C20', 'emit-before-adj', F, VIS,
  '''                for n in adj[item]:
                    visit(n, weak_link=weak_link)
                for n in loop_control[item]:
                    visit(n, weak_link=weak_link, for_control=True)
                if not for_control:
                    order.append(item)
                    visited.add(item)
''', '''                if not for_control:
                    order.append(item)
                    visited.add(item)
                for n in adj[item]:
                    visit(n, weak_link=weak_link)
                for n in loop_control[item]:
                    visit(n, weak_link=weak_link, for_control=True)
''', 'C20.R2', 'emit-after-adj')
V('C20', 'merge-not-hard', F, SE,
  '''                if merge in graph:
                    adj[item_name].add(merge)''',
  '''                if merge in graph:
                    weak_adj[item_name].add(merge)''', 'C20.R3', 'field=merge')
V('C20', 'weak-into-hard', F, SE,
  '''                if dep in graph:
                    weak_adj[item_name].add(dep)''',
  '''                if dep in graph:
                    adj[item_name].add(dep)''', 'C20.R3', 'field=weak_deps')
V('C20', 'unresolved-silently-dropped', F, SE,
  '''                    adj[item_name].add(dep)
                elif not allow_unresolved:
                    raise UnresolvedReferenceError(''',
  '''                    adj[item_name].add(dep)
                elif not allow_unresolved and False:
                    raise UnresolvedReferenceError(''', 'C20.R3', 'unresolved=deps')
V('C20', 'emit-without-mark', F, VIS,
  '                    visited.add(item)\n', '                    pass\n',
  'C20.R2', 'emit-iff-visited')
V('C20', 'cycle-test-removed', F, VIS,
  'if item in visiting:', 'if item in visiting and False:', 'C20.R2',
  'cycle-test')
V('C20', 'hard-recursion-forgets-weak', F, VIS,
  'visit(n, weak_link=weak_link)\n', 'visit(n, weak_link=False)\n', 'C20.R2',
  'hard-recursion-flag')
V('C20', 'result-sorted', F, SE,
  'return ((key, graph[key]) for key in order)',
  'return ((key, graph[key]) for key in reversed(order))', 'C20.R4',
  'result-from-order')
V('C20', 'declarative-swallows-cycle', 'edb/edgeql/declarative.py',
  'edb.edgeql.declarative.sdl_to_ddl',
  '        raise errors.InvalidDefinitionError(msg, span=node.span) from e\n',
  '        ordered = ()\n', 'C20.R5', 'except-CycleError')
# negative controls: behaviour-preserving refactors must stay silent
V('C20', 'neg-rename-local', F, VIS,
  'vis_list = tuple(visiting - {item})\n            cycle_item = item if len(vis_list) == 0 else vis_list[-1]',
  'vl = tuple(visiting - {item})\n            vis_list = vl\n            cycle_item = item if len(vl) == 0 else vl[-1]',
  None)
V('C20', 'neg-extra-comment-and-blank', F, SE,
  '    visiting: OrderedSet[K] = OrderedSet()\n',
  '    # bookkeeping\n\n    visiting: OrderedSet[K] = OrderedSet()\n', None)

V('C20', 'entry-defaults-by-truthiness', 'edb/common/topological.py', 'edb.common.topological.DepGraphEntry.__init__',
  '        if deps is None:\n            deps = set()\n        self.deps = deps\n', '        self.deps = deps or set()\n', 'C20.R6', 'deps-kept')
V('C20', 'inheritance-sort-direct-bases', 'edb/schema/delta.py', 'edb.schema.delta.sort_by_inheritance',
  'deps=ordered.OrderedSet(x.get_ancestors(schema).objects(schema)),', 'deps=ordered.OrderedSet(x.get_bases(schema).objects(schema)),', 'C20.R6', 'sort_by_inheritance:transitive')
V('C20', 'loop-control-edge-dropped', 'edb/edgeql/declarative.py', 'edb.edgeql.declarative._register_item',
  '        parent_node.loop_control.add(fq_name)\n', '        parent_node.loop_control.add(fq_name)\n        deps.discard(loop_control)\n', 'C20.R6', 'hard-deps-only-grow')
V('C20', 'neg-entry-default-restructured', 'edb/common/topological.py', 'edb.common.topological.DepGraphEntry.__init__',
  '        if deps is None:\n            deps = set()\n        self.deps = deps\n', '        self.deps = set() if deps is None else deps\n', None)
V('C20', 'orderedset-iand-takes-other-order', 'edb/common/ordered.py', None,
  '    intersection_update = collections.abc.MutableSet.__iand__\n', '''    def __iand__(self, other):  # type: ignore
        self.map = {item: None for item in other if item in self.map}
        return self

    intersection_update = __iand__  # type: ignore
''', 'C20.R7', 'OrderedSet.__iand__:keeps-own-order')
V('C20', 'neg-orderedset-iand-own-order', 'edb/common/ordered.py', None,
  '    intersection_update = collections.abc.MutableSet.__iand__\n', '''    def __iand__(self, other):  # type: ignore
        keep = set(other)
        self.map = {item: None for item in self.map if item in keep}
        return self

    intersection_update = __iand__  # type: ignore
''', None)
V('C20', 'self-ref-flag-reset-per-element', 'edb/schema/delta.py', 'edb.schema.delta.sort_by_cross_refs_key',
  '        if x in referrers:\n            self_ref = x\n', '        self_ref = x if x in referrers else None\n', 'C20.R7', 'self_ref-sticky')
V('C20', 'lint-flag-reset-per-element', 'edb/schema/delta.py', 'edb.schema.delta.sort_by_cross_refs_key',
  '        if x in referrers:\n            self_ref = x\n', '        self_ref = x if x in referrers else None\n', 'C20.L', 'slips:loops')
V('C20', 'forward-rename-map-for-new-name', 'edb/schema/ordering.py', 'edb.schema.ordering._trace_op',
  '''        if ref_name in renames_r:
            ref_name = renames_r[ref_name]
        ref_name_str = str(ref_name)
''', '''        ref_name_str = str(renames.get(ref_name, ref_name))
''', 'C20.R7', '_trace_op:forward-rename-key')

# round 4
V('C20', 'hard-dep-skipped-when-also-weak', F, SE,
  '''            for dep in item.deps:
                if dep in graph:
                    adj[item_name].add(dep)''',
  '''            for dep in item.deps:
                if dep in weak_adj.get(item_name, ()):
                    continue
                if dep in graph:
                    adj[item_name].add(dep)''', 'C20.R3', 'every-resolved=deps')
V('C20', 'swallow-by-frame-flag', F, VIS,
  'if len(visiting_weak) == 1:', 'if weak_link:', 'C20.R8', 'swallow-decision')
# negative control: a depth counter kept in the closure instead of the set's
# length decides the same thing
V('C20', 'swallow-by-closure-counter', F, VIS,
  'if len(visiting_weak) == 1:', 'if visiting_weak.__len__() == 1:', None)
V('C20', 'crossrefs-filter-by-entries', 'edb/schema/delta.py',
  'edb.schema.delta.sort_by_cross_refs_key',
  "if not x.is_parent_ref(schema, ref) and x != ref}",
  "if ref in frozenset(objs) and not x.is_parent_ref(schema, ref) and x != ref}",
  'C20.R8', 'deps-filter')
V('C20', 'crossrefs-filter-by-graph-keys', 'edb/schema/delta.py',
  'edb.schema.delta.sort_by_cross_refs_key',
  "if not x.is_parent_ref(schema, ref) and x != ref}",
  "if ref in graph and not x.is_parent_ref(schema, ref) and x != ref}",
  None)

# round 5: the stored seeded breaks this property's check reports, replayed as variants
from sa.selftest import VP  # noqa
VP('C20', 'C20-e1', 'C20.R1', 'visiting.add')
