from sa.selftest import V

F = 'edb/server/compiler_pool/pool.py'
W = 'edb/server/compiler_pool/worker.py'
M = 'edb/server/compiler_pool/multitenant_worker.py'
P = 'edb.server.compiler_pool.pool.'
PRE = P + 'AbstractPool._compute_compile_preargs'

V('C17', 'revert-fix-or-merge', F, PRE + '.sync_worker_state_cb',
  '''                                database_config
                                if database_config is not None
                                else worker_db.database_config''',
  '''                                database_config or worker_db.database_config''',
  'C17.R4', 'merge=database_config')
V('C17', 'swap-preargs-blocks', F, PRE,
  '''            if worker._global_schema_pickle is not global_schema_pickle:
                preargs.append(global_schema_pickle)
                to_update['global_schema_pickle'] = global_schema_pickle
            else:
                preargs.append(None)

            if worker_db.database_config is not database_config:
                preargs.append(_pickle_memoized(database_config))
                to_update['database_config'] = database_config
            else:
                preargs.append(None)
''', '''            if worker_db.database_config is not database_config:
                preargs.append(_pickle_memoized(database_config))
                to_update['database_config'] = database_config
            else:
                preargs.append(None)

            if worker._global_schema_pickle is not global_schema_pickle:
                preargs.append(global_schema_pickle)
                to_update['global_schema_pickle'] = global_schema_pickle
            else:
                preargs.append(None)
''', 'C17.R1', 'incremental-arm-order')
V('C17', 'swap-worker-params', W, 'edb.server.compiler_pool.worker.compile_sql',
  '''    reflection_cache: Optional[bytes],
    global_schema: Optional[bytes],''', '''    global_schema: Optional[bytes],
    reflection_cache: Optional[bytes],''', 'C17.R1', 'worker.compile_sql:signature')
V('C17', 'compare-wrong-component', F, PRE,
  'if worker_db.database_config is not database_config:',
  'if worker_db.database_config is not system_config:', 'C17.R2', 'compare=')
V('C17', 'send-without-belief', F, PRE,
  "                to_update['reflection_cache'] = reflection_cache\n", "                pass\n",
  'C17.R2', 'send-and-believe=reflection_cache')
V('C17', 'belief-under-wrong-key', F, PRE,
  "to_update['system_config'] = system_config", "to_update['database_config'] = system_config",
  'C17.R2', 'send-and-believe=system_config')
V('C17', 'ack-before-request', F, P + 'BaseWorker.call',
  '''        data = await self._request(method_name, args)
''', '''        if sync_state is not None:
            sync_state()
        data = await self._request(method_name, args)
''', 'C17.R3', 'ack')
V('C17', 'ack-on-failed-sync', F, P + 'BaseWorker.call',
  '''            if (sync_state is not None and
                    not isinstance(exc, state.FailedStateSync)):''',
  '''            if sync_state is not None:''', 'C17.R3', 'no-ack-on-failed-sync')
V('C17', 'ack-on-serialisation-failure', F, P + 'BaseWorker.call',
  '''            exc = RuntimeError(
                'could not serialize result in worker subprocess')''',
  '''            if sync_state is not None:
                sync_state()
            exc = RuntimeError(
                'could not serialize result in worker subprocess')''', 'C17.R3', 'ack-on-other-status')
V('C17', 'worker-state-outside-try', W, 'edb.server.compiler_pool.worker.__sync__',
  '''        if system_config is not None:
            INSTANCE_CONFIG = system_config_unpacked

    except Exception as ex:
        raise state.FailedStateSync(
            f'failed to sync worker state: {type(ex).__name__}({ex})') from ex
''', '''    except Exception as ex:
        raise state.FailedStateSync(
            f'failed to sync worker state: {type(ex).__name__}({ex})') from ex

    if system_config is not None:
        INSTANCE_CONFIG = system_config_unpacked
''', 'C17.R3', 'write=INSTANCE_CONFIG')
V('C17', 'sync-stores-wrong-global', W, 'edb.server.compiler_pool.worker.__sync__',
  'None if system_config is None else pickle.loads(system_config))', 'None if system_config is None else pickle.loads(database_config))',
  'C17.R1', 'store=')
V('C17', 'compiler-args-swapped', W, 'edb.server.compiler_pool.worker.compile_notebook',
  '''        db.database_config,
        INSTANCE_CONFIG,''', '''        INSTANCE_CONFIG,
        db.database_config,''', 'C17.R1', 'compile_notebook')
V('C17', 'mt-compiler-args-swapped', M, 'edb.server.compiler_pool.multitenant_worker.compile',
  '''        db.user_schema,
        client_schema.global_schema,''', '''        client_schema.global_schema,
        db.user_schema,''', 'C17.R1', 'multitenant_worker.compile')
V('C17', 'notebook-clobbers-last-state', W, 'edb.server.compiler_pool.worker.compile_notebook',
  '    return COMPILER.compile_notebook(', '    global LAST_STATE\n    LAST_STATE = None\n    return COMPILER.compile_notebook(',
  'C17.R5', 'LAST_STATE-writers')
V('C17', 'marker-without-test', F, P + 'AbstractPool.compile_in_tx',
  'if worker._last_pickled_state is pickled_state:', 'if worker._last_pickled_state is not None:',
  'C17.R5', 'marker-guard')
V('C17', 'schema-by-ref-without-test', F, P + 'AbstractPool.compile_in_tx',
  'elif worker_db.user_schema_pickle is user_schema_pickle:', 'elif worker_db.user_schema_pickle is not None:',
  'C17.R5', 'schema-by-reference')
V('C17', 'intx-send-order', F, P + 'AbstractPool.compile_in_tx',
  '''                pickled_state,
                txid,''', '''                txid,
                pickled_state,''', 'C17.R1', 'send-order')
V('C17', 'forwarded-arm-off-by-one', M, 'edb.server.compiler_pool.multitenant_worker.call_for_client',
  'args = args[6:]', 'args = args[5:]', 'C17.R1', 'forwarded-arm')
V('C17', 'mt-key-typo', F, P + 'MultiTenantPool._compute_compile_preargs',
  'to_update["instance_config"] = system_config', 'to_update["instance_cfg"] = system_config',
  'C17.R1', 'key=')
# negative controls
V('C17', 'neg-rename-callback', F, PRE,
  'callback = functools.partial(', 'cb = callback = functools.partial(', None)
V('C17', 'neg-reorder-asserts', F, PRE + '.sync_worker_state_cb',
  '''                assert user_schema_pickle is not None
                assert reflection_cache is not None
''', '''                assert reflection_cache is not None
                assert user_schema_pickle is not None
''', None)

V('C17', 'belief-kept-on-stateless-reply', 'edb/server/compiler_pool/pool.py', 'edb.server.compiler_pool.pool.AbstractPool.compile',
  '            worker._last_pickled_state = result[1]\n', '            if result[1] is not None:\n                worker._last_pickled_state = result[1]\n', 'C17.R5', 'AbstractPool.compile:belief-follows-every-reply')
V('C17', 'mt-diff-commit-only-with-dbs', 'edb/server/compiler_pool/multitenant_worker.py', 'edb.server.compiler_pool.multitenant_worker.__sync__',
  '                if updates:\n                    client_schema = client_schema._replace(', '                if dbs is not client_schema.dbs:\n                    client_schema = client_schema._replace(', 'C17.R2', '__sync__:commits=global_schema')
V('C17', 'server-belief-reread-after-await', 'edb/server/compiler_pool/server.py', 'edb.server.compiler_pool.server.MultiSchemaPool._call_for_client',
  '            status, *data = pickle.loads(resp)\n            if status == 0:\n', '            status, *data = pickle.loads(resp)\n            client_schema = self._clients.get(client_id, client_schema)\n            if status == 0:\n', 'C17.R6', '_call_for_client:belief')
V('C17', 'neg-server-belief-renamed-local', 'edb/server/compiler_pool/server.py', 'edb.server.compiler_pool.server.MultiSchemaPool._call_for_client',
  '            status, *data = pickle.loads(resp)\n            if status == 0:\n', '            status, *data = pickle.loads(resp)\n            nclients = len(self._clients)\n            if status == 0 and nclients >= 0:\n', None)

# round 4
W = 'edb/server/compiler_pool/worker.py'
V('C17', 'revert-fix-sync-stores-before-decoding', W,
  'edb.server.compiler_pool.worker.__sync__',
  '            GLOBAL_SCHEMA = global_schema_unpacked\n',
  '            GLOBAL_SCHEMA = pickle.loads(global_schema)\n',
  'C17.R8', 'all-or-nothing')
V('C17', 'decoding-outside-guarded-try', W,
  'edb.server.compiler_pool.worker.__sync__',
  '''    try:
        # Unpickle everything before storing anything: if this fails,
        # the caller keeps assuming that we have the old state.
        global_schema_unpacked = (
            None if global_schema is None else pickle.loads(global_schema))
''', '''    global_schema_unpacked = (
        None if global_schema is None else pickle.loads(global_schema))
    try:
''', 'C17.R3', 'decoding-guarded')
V('C17', 'server-diff-only-requested-db', 'edb/server/compiler_pool/server.py',
  'edb.server.compiler_pool.server.ClientSchema.diff',
  '            other_state = other.dbs.get(dbname)\n',
  '            if dbname.startswith("__"):\n                continue\n            other_state = other.dbs.get(dbname)\n',
  'C17.R8', 'every-database')
V('C17', 'remote-pool-keeps-stale-diff', 'edb/server/compiler_pool/pool.py',
  'edb.server.compiler_pool.pool.RemotePool._compute_compile_preargs',
  '''            del preargs, callback
            await self._sync_lock.acquire()
            preargs, callback = await super()._compute_compile_preargs(*args)
            if not callback:
                self._sync_lock.release()
''', '''            await self._sync_lock.acquire()
''', 'C17.R8', 'diff-after-lock')

# round 5: the stored seeded breaks this property's check reports, replayed as variants
from sa.selftest import VP  # noqa
VP('C17', 'C17-e1', 'C17.R9', 'sync-before-reply')
VP('C17', 'C17-e2', 'C17.R1', 'arg=global_schema')
VP('C17', 'C17-e3', 'C17.R5', 'records-new-state')
VP('C17', 'C17-f3', 'C17.R9', 'sync-before-error-reply')
VP('C17', 'C09-f3', 'C17.R10', 'remember-after-compile')
VP('C17', 'C17-f2', 'C17.R11', 'preargs-go-to-their-worker')
