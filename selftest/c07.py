from sa.selftest import V

R = 'edb/pgsql/compiler/relctx.py'
G = 'edb/pgsql/compiler/relgen.py'
S = 'edb/edgeql/compiler/setgen.py'
T = 'edb/edgeql/compiler/stmtctx.py'
RM = 'edb.pgsql.compiler.relctx.range_for_material_objtype'

V('C07', 'foreign-objtable', G, 'edb.pgsql.compiler.relgen.process_set_as_root',
  'def process_set_as_root(', '''def _raw_table(typeref, path_id, ctx):
    sn_, tn_ = common.get_objtype_backend_name(
        typeref.id, typeref.name_hint.module, aspect='table', catenate=False)
    rel_name = tn_
    return pgast.RelRangeVar(relation=pgast.Relation(
        schemaname=sn_, name=rel_name, path_id=path_id))


def process_set_as_root(''', 'C07.R1', '_raw_table')
V('C07', 'drop-for-mutation-conjunct', R, RM,
  '        and rw_key not in ctx.pending_type_rewrite_ctes\n        and not for_mutation\n', '        and rw_key not in ctx.pending_type_rewrite_ctes\n',
  'C07.R2', 'rewrite-conjuncts')
V('C07', 'rewrite-only-when-asked', R, RM,
  '(not ignore_rewrites or is_global)', '(not ignore_rewrites and not is_global)', 'C07.R2', 'rewrite-conjuncts')
V('C07', 'second-caller-of-table', R, 'edb.pgsql.compiler.relctx.range_for_typeref',
  '    else:\n        rvar = range_for_material_objtype(', '    elif for_mutation and not include_descendants:\n        rvar = _table_from_typeref(typeref, path_id, ctx=ctx)\n    else:\n        rvar = range_for_material_objtype(',
  'C07.R2', '_table_from_typeref:callers')
V('C07', 'key-polarity', T, 'edb.edgeql.compiler.stmtctx.fini_expression',
  '(typ.id, not skip_subtypes): s', '(typ.id, skip_subtypes): s', 'C07.R3', 'key-conversion')
V('C07', 'reader-key-changed', R, RM,
  'rw_key = (typeref.id, include_descendants)', 'rw_key = (typeref.id, True)', 'C07.R3', 'reader-key')
V('C07', 'new-ignore-site', S, 'edb.edgeql.compiler.setgen.class_set',
  'return new_set(', 'return new_set(\n        ignore_rewrites=True,', 'C07.R4', 'ignore_rewrites=True')
V('C07', 'user-queries-no-rewrites', 'edb/server/compiler/compiler.py', 'edb.server.compiler.compiler._get_compile_options',
  '''            not ctx.bootstrap_mode
            and not ctx.schema_reflection_mode
            and not bool(
                _get_config_val(ctx, '__internal_no_apply_query_rewrites'))''', '''            not ctx.bootstrap_mode
            and not ctx.schema_reflection_mode
            and not ctx.json_parameters''', 'C07.R4', 'apply_query_rewrites')
V('C07', 'direct-set-construction', 'edb/edgeql/compiler/stmt.py', 'edb.edgeql.compiler.stmt.compile_DeleteQuery',
  '        stmt = irast.DeleteStmt(span=expr.span)', '        _probe = irast.Set(path_id=None, typeref=None)\n        stmt = irast.DeleteStmt(span=expr.span)', 'C07.R5', 'irast.Set')
V('C07', 'registration-cond-weakened', S, 'edb.edgeql.compiler.setgen.new_set',
  '        and isinstance(stype, s_objtypes.ObjectType)\n        and ctx.env.options.apply_query_rewrites\n', '        and isinstance(stype, s_objtypes.ObjectType)\n        and ctx.env.options.apply_query_rewrites\n        and not kwargs.get("is_binding")\n',
  'C07.R5', 'registers-rewrite')
V('C07', 'neg-rename-local', R, RM,
  'force_cte', 'needs_cte', None, count=3)

PO = 'edb/edgeql/compiler/policies.py'
PF = 'edb.edgeql.compiler.policies.get_rewrite_filter'
V('C07', 'no-filter-when-no-policy-of-kind', PO, PF,
  '''    pols = get_access_policies(stype, ctx=ctx)
    if not pols:
        return None
''', '''    pols = [
        pol for pol in get_access_policies(stype, ctx=ctx)
        if mode in pol.get_access_kinds(schema)
    ]
    if not pols:
        return None
''', 'C07.R6', 'no-filter-only-without-policies')
V('C07', 'default-allow', PO, PF,
  '        filter_expr = qlast.Constant.boolean(False)\n', '        filter_expr = qlast.Constant.boolean(True)\n', 'C07.R6', 'default-deny')
V('C07', 'deny-ored', PO, PF,
  'filter_expr = astutils.extend_binop(filter_expr, deny_expr)', "filter_expr = astutils.extend_binop(filter_expr, deny_expr, op='OR')", 'C07.R6', 'deny-wins')
V('C07', 'deny-not-negated', PO, PF,
  '''        deny_expr = qlast.UnaryOp(
            op='NOT',
            operand=astutils.extend_binop(None, *deny, op='OR')
        )''', '''        deny_expr = astutils.extend_binop(None, *deny, op='OR')''', 'C07.R6', 'deny-wins')
V('C07', 'kinds-ignored', PO, PF,
  '''        if mode not in pol.get_access_kinds(schema):
            continue

''', '', 'C07.R6', 'get_rewrite_filter:kinds')
V('C07', 'allow-deny-swapped', PO, PF,
  'is_allow = pol.get_action(schema) == qltypes.AccessPolicyAction.Allow', 'is_allow = pol.get_action(schema) != qltypes.AccessPolicyAction.Allow', 'C07.R6', 'action=')
V('C07', 'registry-rebound-after-typeof', 'edb/edgeql/compiler/typegen.py', 'edb.edgeql.compiler.typegen._ql_typeexpr_get_types',
  '''            ctx.env.type_rewrites.clear()
            ctx.env.type_rewrites.update(orig_rewrites)
''', '''            ctx.env.type_rewrites = orig_rewrites
''', 'C07.R7', 'rebinds-registry')
V('C07', 'reader-uses-view-id', 'edb/pgsql/compiler/pathctx.py', 'edb.pgsql.compiler.pathctx.has_type_rewrite',
  '(typeref.real_material_type.id, b) in env.type_rewrites', '(typeref.id, b) in env.type_rewrites', 'C07.R7', 'has_type_rewrite:reader-key')
V('C07', 'view-cache-shared', 'edb/edgeql/compiler/stmtctx.py', 'edb.edgeql.compiler.stmtctx._declare_view_from_schema',
  '        ctx.env.schema_view_cache[key] = vc, view_set\n', '        ctx.env.schema_view_cache[key] = vc, view_set\n        ctx.env.schema_view_cache.setdefault((viewcls, False), (vc, view_set))\n', 'C07.R7', 'view-cache-key')
V('C07', 'view-cache-key-without-security', 'edb/edgeql/compiler/stmtctx.py', 'edb.edgeql.compiler.stmtctx._declare_view_from_schema',
  '    key = viewcls, ctx.get_security_context()\n', '    key = viewcls, None\n', 'C07.R7', 'view-cache-key')
# negative control: filter by kind in a second list, keep the early exit on all
V('C07', 'neg-kind-filter-in-second-list', PO, PF,
  '''    allow, deny = [], []
    for pol in pols:
        if mode not in pol.get_access_kinds(schema):
            continue

''', '''    allow, deny = [], []
    applicable = [p for p in pols if mode in p.get_access_kinds(schema)]
    for pol in applicable:
''', None)

V('C07', 'own-policies-by-owned-flag', PO, 'edb.edgeql.compiler.policies.has_own_policies',
  '''        if not any(
            skip_from == base.get_subject(schema)
            for base in pol.get_bases(schema).objects(schema)
        ):''', '''        if skip_from is None or pol.get_owned(schema):''', 'C07.R8', 'has_own_policies:relative-to-skip_from')
V('C07', 'rewrite-skipped-without-select-policy', PO, 'edb.edgeql.compiler.policies.try_type_rewrite',
  '    pols = get_access_policies(stype, ctx=ctx)\n    if not pols and not children_have_policies:', '''    pols = tuple(
        pol for pol in get_access_policies(stype, ctx=ctx)
        if qltypes.AccessKind.Select in pol.get_access_kinds(schema)
    )
    if not pols and not children_have_policies:''', 'C07.R8', 'try_type_rewrite:no-rewrite-only-without-policies')
V('C07', 'pending-guard-shared-with-parent', 'edb/pgsql/compiler/context.py', 'edb.pgsql.compiler.context.CompilerContextLevel.__init__',
  '''                self.pending_type_rewrite_ctes = set(
                    prevlevel.pending_type_rewrite_ctes
                )
''', '', 'C07.R8', 'pending_type_rewrite_ctes:scoped-by-newrel')
V('C07', 'abstract-types-have-no-policies', PO, 'edb.edgeql.compiler.policies.get_access_policies',
  '    # The apply_access_policies config flag disables user-specified\n', '    if stype.get_abstract(schema):\n        return ()\n\n    # The apply_access_policies config flag disables user-specified\n', 'C07.R9', 'withheld-only-by-options')

# round 4
V('C07', 'when-condition-only-with-using', 'edb/edgeql/compiler/policies.py',
  'edb.edgeql.compiler.policies.compile_pol',
  '''    if expr_field:
        expr = expr_field.parse()
    else:
        expr = qlast.Constant.boolean(True)

    if condition := pol.get_condition(schema):
        assert isinstance(condition, s_expr.Expression)
        expr = qlast.BinOp(op='AND', left=condition.parse(), right=expr)
''', '''    condition = pol.get_condition(schema)
    if expr_field:
        expr = expr_field.parse()
        if condition:
            expr = qlast.BinOp(op='AND', left=condition.parse(), right=expr)
    else:
        expr = qlast.Constant.boolean(True)
''', 'C07.R10', 'when-condition-always-applied')

# round 5: the stored seeded breaks this property's check reports, replayed as variants
from sa.selftest import VP  # noqa
VP('C07', 'C07-e1', 'C07.R11', 'compound-members')
VP('C07', 'C07-e3', 'C07.R12', 'no-descendants')
