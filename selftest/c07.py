from sa.selftest import V

R = 'edb/pgsql/compiler/relctx.py'
G = 'edb/pgsql/compiler/relgen.py'
S = 'edb/edgeql/compiler/setgen.py'
T = 'edb/edgeql/compiler/stmtctx.py'
RM = 'edb.pgsql.compiler.relctx.range_for_material_objtype'

V('C07', 'foreign-objtable', G, 'edb.pgsql.compiler.relgen.process_set_as_root',
  'def process_set_as_root(', '''def _raw_table(typeref, path_id, ctx):
    sn_, tn_ = common.get_objtype_backend_name(
        typeref.id, typeref.name_hint.module, aspect='table', catenate=False)
    rel_name = tn_
    return pgast.RelRangeVar(relation=pgast.Relation(
        schemaname=sn_, name=rel_name, path_id=path_id))


def process_set_as_root(''', 'C07.R1', '_raw_table')
V('C07', 'drop-for-mutation-conjunct', R, RM,
  '        and rw_key not in ctx.pending_type_rewrite_ctes\n        and not for_mutation\n', '        and rw_key not in ctx.pending_type_rewrite_ctes\n',
  'C07.R2', 'rewrite-conjuncts')
V('C07', 'rewrite-only-when-asked', R, RM,
  '(not ignore_rewrites or is_global)', '(not ignore_rewrites and not is_global)', 'C07.R2', 'rewrite-conjuncts')
V('C07', 'second-caller-of-table', R, 'edb.pgsql.compiler.relctx.range_for_typeref',
  '    else:\n        rvar = range_for_material_objtype(', '    elif for_mutation and not include_descendants:\n        rvar = _table_from_typeref(typeref, path_id, ctx=ctx)\n    else:\n        rvar = range_for_material_objtype(',
  'C07.R2', '_table_from_typeref:callers')
V('C07', 'key-polarity', T, 'edb.edgeql.compiler.stmtctx.fini_expression',
  '(typ.id, not skip_subtypes): s', '(typ.id, skip_subtypes): s', 'C07.R3', 'key-conversion')
V('C07', 'reader-key-changed', R, RM,
  'rw_key = (typeref.id, include_descendants)', 'rw_key = (typeref.id, True)', 'C07.R3', 'reader-key')
V('C07', 'new-ignore-site', S, 'edb.edgeql.compiler.setgen.class_set',
  'return new_set(', 'return new_set(\n        ignore_rewrites=True,', 'C07.R4', 'ignore_rewrites=True')
V('C07', 'user-queries-no-rewrites', 'edb/server/compiler/compiler.py', 'edb.server.compiler.compiler._get_compile_options',
  '''            not ctx.bootstrap_mode
            and not ctx.schema_reflection_mode
            and not bool(
                _get_config_val(ctx, '__internal_no_apply_query_rewrites'))''', '''            not ctx.bootstrap_mode
            and not ctx.schema_reflection_mode
            and not ctx.json_parameters''', 'C07.R4', 'apply_query_rewrites')
V('C07', 'direct-set-construction', 'edb/edgeql/compiler/stmt.py', 'edb.edgeql.compiler.stmt.compile_DeleteQuery',
  '        stmt = irast.DeleteStmt(span=expr.span)', '        _probe = irast.Set(path_id=None, typeref=None)\n        stmt = irast.DeleteStmt(span=expr.span)', 'C07.R5', 'irast.Set')
V('C07', 'registration-cond-weakened', S, 'edb.edgeql.compiler.setgen.new_set',
  '        and isinstance(stype, s_objtypes.ObjectType)\n        and ctx.env.options.apply_query_rewrites\n', '        and isinstance(stype, s_objtypes.ObjectType)\n        and ctx.env.options.apply_query_rewrites\n        and not kwargs.get("is_binding")\n',
  'C07.R5', 'registers-rewrite')
V('C07', 'neg-rename-local', R, RM,
  'force_cte', 'needs_cte', None, count=3)
