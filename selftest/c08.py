from sa.selftest import V

C = 'edb/server/compiler/compiler.py'
D = 'edb.server.compiler.compiler._compile_dispatch_ql'
S = 'edb/edgeql/compiler/stmt.py'

V('C08', 'ddl-no-capability', C, D,
  '''            ddl.compile_and_apply_ddl_stmt(ctx, ql, source=source),
            enums.Capability.DDL,''', '''            ddl.compile_and_apply_ddl_stmt(ctx, ql, source=source),
            enums.Capability(0),''', 'C08.R1', 'class=CreateObjectType')
V('C08', 'tx-as-session', C, D,
  '''            _compile_ql_transaction(ctx, ql),
            enums.Capability.TRANSACTION,''', '''            _compile_ql_transaction(ctx, ql),
            enums.Capability.SESSION_CONFIG,''', 'C08.R1', 'class=StartTransaction')
V('C08', 'config-persistent-as-session', C, D,
  '            capability = enums.Capability.PERSISTENT_CONFIG', '            capability = enums.Capability.SESSION_CONFIG',
  'C08.R1', 'class=ConfigSet')
V('C08', 'query-branch-first', C, D,
  'if isinstance(ql, qlast.MigrationCommand):', 'if isinstance(ql, (qlast.MigrationCommand, qlast.Transaction)):',
  'C08.R1', 'class=CommitTransaction')
V('C08', 'migration-no-tx-cap', C, D,
  '''            if query.tx_action:
                capability |= enums.Capability.TRANSACTION
''', '', 'C08.R1', 'migration:tx-action')
V('C08', 'explain-forgets-dml', C, D,
  '''        query = _compile_ql_explain(ctx, ql, script_info=script_info)
        caps = enums.Capability(0)
        if (
            isinstance(query, (dbstate.Query, dbstate.SimpleQuery))
            and query.has_dml
        ):
            caps |= enums.Capability.MODIFICATIONS
        return (query, caps)''', '''        query = _compile_ql_explain(ctx, ql, script_info=script_info)
        caps = enums.Capability(0)
        return (query, caps)''', 'C08.R1', 'class=ExplainStmt')
V('C08', 'delete-not-recorded', S, 'edb.edgeql.compiler.stmt.compile_DeleteQuery',
  '    ctx.env.dml_exprs.append(expr)\n', '', 'C08.R2', 'DeleteStmt')
V('C08', 'insert-recorded-late', S, 'edb.edgeql.compiler.stmt.compile_InsertQuery',
  '    ctx.env.dml_exprs.append(expr)\n', '    if expr.unless_conflict is None:\n        ctx.env.dml_exprs.append(expr)\n', 'C08.R2', 'InsertStmt')
V('C08', 'func-volatility-test', 'edb/edgeql/compiler/func.py', 'edb.edgeql.compiler.func.compile_FunctionCall',
  'if func.get_volatility(env.schema) == ft.Volatility.Modifying:', 'if func.get_volatility(env.schema) == ft.Volatility.Modifying and not ctx.env.options.func_params:',
  'C08.R2', 'records-modifying')
V('C08', 'has-dml-false', C, 'edb.server.compiler.compiler._compile_ql_query',
  'has_dml=bool(ir.dml_exprs),', 'has_dml=False,', 'C08.R3', 'has_dml')
V('C08', 'guard-extra-conjunct', C, D,
  '''        query = _compile_ql_query(
            ctx, ql, source=source, script_info=script_info)
        caps = enums.Capability(0)
        if (
            isinstance(query, (dbstate.Query, dbstate.SimpleQuery))
            and query.has_dml
        ):''', '''        query = _compile_ql_query(
            ctx, ql, source=source, script_info=script_info)
        caps = enums.Capability(0)
        if (
            isinstance(query, (dbstate.Query, dbstate.SimpleQuery))
            and query.has_dml
            and not in_script
        ):''', 'C08.R3', 'guard@')
V('C08', 'unit-drops-caps', C, 'edb.server.compiler.compiler._make_query_unit',
  '        capabilities=capabilities,\n        output_format', '        capabilities=enums.Capability(0),\n        output_format', 'C08.R3', '_make_query_unit')
V('C08', 'group-overwrites', 'edb/server/compiler/dbstate.py', 'edb.server.compiler.dbstate.QueryUnitGroup.append',
  'self.capabilities |= query_unit.capabilities', 'self.capabilities = query_unit.capabilities', 'C08.R3', 'QueryUnitGroup.append')
V('C08', 'write-misses-ddl', 'edb/server/compiler/enums.py', 'edb.server.compiler.enums.Capability',
  'WRITE             = (MODIFICATIONS | DDL | PERSISTENT_CONFIG)', 'WRITE             = (MODIFICATIONS | PERSISTENT_CONFIG)', 'C08.R4', 'WRITE')
# negative controls
V('C08', 'neg-swap-tx-session-arms', C, D,
  '''    elif isinstance(ql, qlast.Transaction):
        return (
            _compile_ql_transaction(ctx, ql),
            enums.Capability.TRANSACTION,
        )

    elif isinstance(ql, qlast.SessionCommand_tuple):
        return (
            _compile_ql_sess_state(ctx, ql),
            enums.Capability.SESSION_CONFIG,
        )
''', '''    elif isinstance(ql, qlast.SessionCommand_tuple):
        return (
            _compile_ql_sess_state(ctx, ql),
            enums.Capability.SESSION_CONFIG,
        )

    elif isinstance(ql, qlast.Transaction):
        return (
            _compile_ql_transaction(ctx, ql),
            enums.Capability.TRANSACTION,
        )
''', None)

V('C08', 'pointer-volatility-replaces-source', 'edb/edgeql/compiler/inference/volatility.py', 'edb.edgeql.compiler.inference.volatility._infer_pointer',
  '''    vol = _infer_volatility(ir.source, env)
    # If there's an expression on an rptr, and it comes from
    # the schema, we need to actually infer it, since it won't
    # have been processed at a shape declaration.
    if ir.expr is not None and not ir.ptrref.defined_here:
        vol = _max_volatility((
            vol,
            _infer_volatility(ir.expr, env),
        ))
''', '''    if ir.expr is not None and not ir.ptrref.defined_here:
        vol = _infer_volatility(ir.expr, env)
    else:
        vol = _infer_volatility(ir.source, env)
''', 'C08.R5', '_infer_pointer:source')
V('C08', 'alter-volatility-keeps-compiled-body', 'edb/schema/functions.py', 'edb.schema.functions.FunctionCommand.canonicalize_attributes',
  '''            self.set_attribute_value(
                'nativecode',
                nativecode.not_compiled()
            )''', '''            self.set_attribute_value('nativecode', nativecode)''', 'C08.R5', 'body-recompiled')
V('C08', 'abort-rewrite-loses-tx-action', 'edb/server/compiler/ddl.py', 'edb.server.compiler.ddl._abort_migration_rewrite',
  '        tx_action = tx_query.action\n', '        tx_action = None\n', 'C08.R5', '_abort_migration_rewrite:tx_action-forwarded')
V('C08', 'sql-dml-returning-loses-modifications', 'edb/server/compiler/sql.py', 'edb.server.compiler.sql._compile_sql',
  '        if isinstance(stmt, pgast.DMLQuery):\n            unit.capabilities |= enums.Capability.MODIFICATIONS\n', '        if isinstance(stmt, pgast.DMLQuery) and not stmt.returning_list:\n            unit.capabilities |= enums.Capability.MODIFICATIONS\n', 'C08.R6', '_compile_sql:')
V('C08', 'declared-volatile-never-checked', 'edb/schema/functions.py', 'edb.schema.functions.FunctionCommand.compile_this_function',
  '        if spec_volatility is not None and spec_volatility < ir.volatility:', '        if (spec_volatility is not None and not spec_volatility.is_volatile()\n                and spec_volatility < ir.volatility):', 'C08.R6', 'declared-below-inferred-rejected')

# round 4
V('C08', 'volatility-memo-keeps-provisional', 'edb/edgeql/compiler/inference/volatility.py',
  'edb.edgeql.compiler.inference.volatility._infer_volatility',
  'env.inferred_volatility[ir] = result', 'env.inferred_volatility.setdefault(ir, result)',
  'C08.R7', 'final-result-overwrites')
V('C08', 'sql-transaction-capability-dropped', 'edb/server/compiler/sql.py',
  'edb.server.compiler.sql._compile_sql',
  '''        if unit.tx_action is not None:
            unit.capabilities |= enums.Capability.TRANSACTION
''', '', 'C08.R7', 'transaction-capability-follows-tx_action')

# round 5: the stored seeded breaks this property's check reports, replayed as variants
from sa.selftest import VP  # noqa
VP('C08', 'C08-e1', 'C08.R2', 'records-modifying')
VP('C08', 'C08-e2', 'C08.L', 'falsy-enum-member')
VP('C08', 'C08-e3', 'C08.R3', 'has_dml')
