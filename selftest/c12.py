from sa.selftest import V

C = 'edb/server/compiler/compiler.py'
F = 'edb/edgeql/compiler/func.py'
Q = 'edb.server.compiler.compiler._compile_ql_query'

V('C12', 'describe-other-type', C, Q,
  '''            ir.schema, ir.stype,
            ir.view_shapes, ir.view_shapes_metadata,''', '''            ir.schema, ir.expr.stype if hasattr(ir.expr, 'stype') else ir.stype,
            ir.view_shapes, ir.view_shapes_metadata,''', 'C12.R1', 'out_type')
V('C12', 'json-branch-swapped', C, Q,
  'elif ctx.output_format is enums.OutputFormat.BINARY:', 'elif ctx.output_format is enums.OutputFormat.JSON:', 'C12.R1', 'out_type')
V('C12', 'query-gets-null-desc', C, Q,
  '        out_type_data=out_type_data,\n', '        out_type_data=sertypes.NULL_TYPE_DESC,\n', 'C12.R1', 'Query.out_type')
V('C12', 'fcall-typeref-from-declared', F, 'edb.edgeql.compiler.func.compile_FunctionCall',
  '''        typeref=typegen.type_to_typeref(
            rtype, env=env,
        ),''', '''        typeref=typegen.type_to_typeref(
            matched_func_ret_type, env=env,
        ),''', 'C12.R2', 'compile_FunctionCall:typeref-from-rtype')
V('C12', 'oper-rtype-from-arg', F, 'edb.edgeql.compiler.func.compile_operator',
  '    rtype = matched_call.return_type\n    matched_rtype = oper.get_return_type(env.schema)', '    rtype = oper.get_return_type(env.schema)\n    matched_rtype = oper.get_return_type(env.schema)',
  'C12.R2', 'compile_operator:rtype-provenance')
V('C12', 'union-override-everywhere', F, 'edb.edgeql.compiler.func.compile_operator',
  "    } and rtype.is_object_type():", "    }:", 'C12.R2', 'union-arm')
V('C12', 'ambiguous-picks-first', F, 'edb.edgeql.compiler.func.compile_FunctionCall',
  '''        if in_abstract_constraint:
            matched_call = matched[0]
        else:
            alts = [m.func.get_signature_as_str(env.schema) for m in matched]
            raise errors.QueryError(
                f'function {funcname} is not unique',
                hint=f'Please disambiguate between the following '
                     f'alternatives:\\n' +
                     ('\\n'.join(alts)),
                span=expr.span)''', '''        matched_call = matched[0]''', 'C12.R2', 'ambiguity-raises')
V('C12', 'matched-last', F, 'edb.edgeql.compiler.func.compile_FunctionCall',
  '    else:\n        matched_call = matched[0]\n\n    func = matched_call.func', '    else:\n        matched_call = matched[-1]\n\n    func = matched_call.func',
  'C12.R2', 'matched_call-selection')
V('C12', 'neg-rename', C, Q,
  '''        out_type_id = sertypes.NULL_TYPE_ID
        out_type_data = sertypes.NULL_TYPE_DESC''', '''        out_type_data = sertypes.NULL_TYPE_DESC
        out_type_id = sertypes.NULL_TYPE_ID''', None)

P = 'edb/edgeql/compiler/polyres.py'
V('C12', 'type-dist-carried-over', P, 'edb.edgeql.compiler.polyres.find_callable',
  '''        for call in matched:
            call_type_dist = 0

''', '''        call_type_dist = 0
        for call in matched:
''', 'C12.R3', 'find_callable:call_type_dist')
V('C12', 'total-cd-hoisted', P, 'edb.edgeql.compiler.polyres.find_callable',
  '''        total_cd = sum(barg.cast_distance for barg in call.args)

        if implicit_cast_distance is None:''', '''        if implicit_cast_distance is None:
            total_cd = sum(barg.cast_distance for barg in call.args)''', 'C12.R3', 'find_callable:total_cd')
V('C12', 'named-tuple-left-types', 'edb/schema/types.py', 'edb.schema.types.Tuple.find_common_implicitly_castable_type',
  'schema, dict(zip(my_names, new_types)), {"named": True}', 'schema, dict(zip(my_names, subs)), {"named": True}', 'C12.R4', 'find_common_implicitly_castable_type')
V('C12', 'nonpoly-tuple-keeps-poly', 'edb/schema/types.py', 'edb.schema.types.Tuple._to_nonpolymorphic',
  'return type(self).from_subtypes(schema, new_types)', 'return type(self).from_subtypes(schema, list(self.get_subtypes(schema)))', 'C12.R4', '_to_nonpolymorphic')
V('C12', 'union-least-generic', 'edb/schema/utils.py', 'edb.schema.utils.simplify_union_types_preserve_derived',
  'nonderived = minimize_class_set_by_most_generic(', 'nonderived = minimize_class_set_by_least_generic(', 'C12.R5', 'simplify_union_types_preserve_derived')
V('C12', 'intersection-most-generic', 'edb/schema/utils.py', 'edb.schema.utils.simplify_intersection_types',
  'return minimize_class_set_by_least_generic(', 'return minimize_class_set_by_most_generic(', 'C12.R5', 'simplify_intersection_types')
V('C12', 'most-generic-filter-flipped', 'edb/schema/utils.py', 'edb.schema.utils.minimize_class_set_by_most_generic',
  '((mros[i], classes[j])', '((mros[j], classes[i])', 'C12.R5', 'minimize_class_set_by_most_generic:filter')
# negative control: initialise through a helper expression, rename the score
V('C12', 'neg-score-renamed', P, 'edb.edgeql.compiler.polyres.find_callable',
  '''            call_type_dist = 0

            for barg in call.args:
                if barg.param is None:
                    # Skip injected bitmask argument.
                    continue

                paramtype = barg.param.get_type(ctx.env.schema)
                arg_type_dist = barg.valtype.get_common_parent_type_distance(
                    paramtype, ctx.env.schema)
                call_type_dist += arg_type_dist
''', '''            call_type_dist = sum(
                barg.valtype.get_common_parent_type_distance(
                    barg.param.get_type(ctx.env.schema), ctx.env.schema)
                for barg in call.args if barg.param is not None)
''', None)

V('C12', 'right-operand-uses-left-op', 'edb/edgeql/compiler/typegen.py', 'edb.edgeql.compiler.typegen._ql_typeexpr_get_types',
  'if right_op is None or right_op == ql_t.op else', 'if right_op is None or left_op == ql_t.op else', 'C12.R7', '_ql_typeexpr_get_types:mirror')
V('C12', 'union-fold-dedented', 'edb/schema/utils.py', 'edb.schema.utils.ensure_union_type',
  '''            if common_type is None:
                raise _union_error(schema, types)
            else:
                uniontype = common_type
''', '''            if common_type is None:
                raise _union_error(schema, types)
        else:
            uniontype = common_type
''', 'C12.R8', 'ensure_union_type:fold=uniontype')
V('C12', 'tuple-id-without-names', 'edb/server/compiler/sertypes.py', 'edb.server.compiler.sertypes._describe_tuple',
  '''    type_id = _get_collection_type_id(
        t.get_schema_name(), subtypes, element_names)''', '''    type_id = _get_collection_type_id(
        t.get_schema_name(), subtypes)''', 'C12.R6', '_describe_tuple:list=element_names')
V('C12', 'lint-castable-args-swapped', 'edb/schema/casts.py', 'edb.schema.casts.is_implicitly_castable',
  'return get_implicit_cast_distance(schema, source, target) >= 0', 'return get_implicit_cast_distance(schema, target, source) >= 0', 'C12.L', 'slips:argument-alignment')
V('C12', 'tuple-nonpolymorphic-collapses-element', 'edb/schema/types.py', 'edb.schema.types.Tuple._to_nonpolymorphic',
  '                schema, nst = st.to_nonpolymorphic(schema, concrete_type)\n', '                nst = concrete_type\n', 'C12.R9', 'Tuple._to_nonpolymorphic:recurses')
V('C12', 'revert-array-nonpolymorphic-fix', 'edb/schema/types.py', 'edb.schema.types.Array._to_nonpolymorphic',
  '        schema, newst = st.to_nonpolymorphic(schema, concrete_type)\n', '''        if isinstance(st, (Range, MultiRange)):
            schema, newst = st.to_nonpolymorphic(schema, concrete_type)
        else:
            newst = concrete_type
''', 'C12.R9', 'Array._to_nonpolymorphic:recurses')
V('C12', 'tuple-cast-keeps-source-names', 'edb/edgeql/compiler/casts.py', 'edb.edgeql.compiler.casts._cast_tuple',
  '''            if ctx.collection_cast_info is not None:
                ctx.collection_cast_info.path_elements.pop()

        elements.append(irast.TupleElement(name=new_el_name, val=val))''', '''            if ctx.collection_cast_info is not None:
                ctx.collection_cast_info.path_elements.pop()

        elements.append(irast.TupleElement(name=n, val=val))''', 'C12.R9', '_cast_tuple:tuple@')

# round 4
V('C12', 'range-common-type-ignores-other', 'edb/schema/types.py',
  'edb.schema.types.Range.find_common_implicitly_castable_type',
  '        return other_t.from_subtypes(schema, [subtype])',
  '        return (MultiRange if self.is_multirange() else Range).from_subtypes(schema, [subtype])',
  'C12.R10', 'class-from-other')
V('C12', 'anytype-binding-not-widened', 'edb/edgeql/compiler/polyres.py',
  'edb.edgeql.compiler.polyres.try_bind_call_args._get_cast_distance',
  '''            ctx.env.schema, ct = (
                resolved_poly_base_type.find_common_implicitly_castable_type(''',
  '''            if resolved.is_collection() and resolved_poly_base_type.implicitly_castable_to(resolved, ctx.env.schema):
                return s_types.MAX_TYPE_DISTANCE if is_abstract else 0
            ctx.env.schema, ct = (
                resolved_poly_base_type.find_common_implicitly_castable_type(''',
  'C12.R10', 'differing-binding-goes-through-common-type')
# round 5: repair of tuple subtyping by arity
V('C12', 'revert-fix-issubclass-arity', 'edb/schema/types.py',
  'edb.schema.types.Collection._issubclass',
  "        if len(parent_types) != len(my_types):\n            return False\n\n", "",
  'C12.R11', '_issubclass:zip-arity')
V('C12', 'revert-fix-distance-arity', 'edb/schema/types.py',
  'edb.schema.types.Collection.get_common_parent_type_distance',
  "        if len(other_types) != len(my_types):\n            return -1\n\n", "",
  'C12.R11', 'get_common_parent_type_distance:zip-arity')
# negative control: the comparison written the other way round
V('C12', 'nc-issubclass-arity-eq-form', 'edb/schema/types.py',
  'edb.schema.types.Collection._issubclass',
  "        if len(parent_types) != len(my_types):\n            return False\n",
  "        if not (len(my_types) == len(parent_types)):\n            return False\n", None)

# round 5: the stored seeded breaks this property's check reports, replayed as variants
from sa.selftest import VP  # noqa
VP('C12', 'C12-e3', 'C12.R12', 'returns-')
