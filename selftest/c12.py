from sa.selftest import V

C = 'edb/server/compiler/compiler.py'
F = 'edb/edgeql/compiler/func.py'
Q = 'edb.server.compiler.compiler._compile_ql_query'

V('C12', 'describe-other-type', C, Q,
  '''            ir.schema, ir.stype,
            ir.view_shapes, ir.view_shapes_metadata,''', '''            ir.schema, ir.expr.stype if hasattr(ir.expr, 'stype') else ir.stype,
            ir.view_shapes, ir.view_shapes_metadata,''', 'C12.R1', 'out_type')
V('C12', 'json-branch-swapped', C, Q,
  'elif ctx.output_format is enums.OutputFormat.BINARY:', 'elif ctx.output_format is enums.OutputFormat.JSON:', 'C12.R1', 'out_type')
V('C12', 'query-gets-null-desc', C, Q,
  '        out_type_data=out_type_data,\n', '        out_type_data=sertypes.NULL_TYPE_DESC,\n', 'C12.R1', 'Query.out_type')
V('C12', 'fcall-typeref-from-declared', F, 'edb.edgeql.compiler.func.compile_FunctionCall',
  '''        typeref=typegen.type_to_typeref(
            rtype, env=env,
        ),''', '''        typeref=typegen.type_to_typeref(
            matched_func_ret_type, env=env,
        ),''', 'C12.R2', 'compile_FunctionCall:typeref-from-rtype')
V('C12', 'oper-rtype-from-arg', F, 'edb.edgeql.compiler.func.compile_operator',
  '    rtype = matched_call.return_type\n    matched_rtype = oper.get_return_type(env.schema)', '    rtype = oper.get_return_type(env.schema)\n    matched_rtype = oper.get_return_type(env.schema)',
  'C12.R2', 'compile_operator:rtype-provenance')
V('C12', 'union-override-everywhere', F, 'edb.edgeql.compiler.func.compile_operator',
  "    } and rtype.is_object_type():", "    }:", 'C12.R2', 'union-arm')
V('C12', 'ambiguous-picks-first', F, 'edb.edgeql.compiler.func.compile_FunctionCall',
  '''        if in_abstract_constraint:
            matched_call = matched[0]
        else:
            alts = [m.func.get_signature_as_str(env.schema) for m in matched]
            raise errors.QueryError(
                f'function {funcname} is not unique',
                hint=f'Please disambiguate between the following '
                     f'alternatives:\\n' +
                     ('\\n'.join(alts)),
                span=expr.span)''', '''        matched_call = matched[0]''', 'C12.R2', 'ambiguity-raises')
V('C12', 'matched-last', F, 'edb.edgeql.compiler.func.compile_FunctionCall',
  '    else:\n        matched_call = matched[0]\n\n    func = matched_call.func', '    else:\n        matched_call = matched[-1]\n\n    func = matched_call.func',
  'C12.R2', 'matched_call-selection')
V('C12', 'neg-rename', C, Q,
  '''        out_type_id = sertypes.NULL_TYPE_ID
        out_type_data = sertypes.NULL_TYPE_DESC''', '''        out_type_data = sertypes.NULL_TYPE_DESC
        out_type_id = sertypes.NULL_TYPE_ID''', None)
