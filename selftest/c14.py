from sa.selftest import V

F = 'edb/server/compiler/sertypes.py'
M = 'edb.server.compiler.sertypes.'

V('C14', 'shape-swap-flags-card', F, M + '_describe_object_shape',
  '''        # ShapeElement.flags
        buf.append(_uint32_packer(flags))
        # ShapeElement.cardinality
        buf.append(_uint8_packer(el_c.value))
''', '''        # ShapeElement.cardinality
        buf.append(_uint8_packer(el_c.value))
        # ShapeElement.flags
        buf.append(_uint32_packer(flags))
''', 'C14.R1', '_describe_object_shape@')
V('C14', 'shape-drop-source-type', F, M + '_describe_object_shape',
  '''            if not is_free_object_type:
                src_type_id = _describe_object_type(el_src, ctx=ctx)
                buf.append(_type_ref_id_packer(src_type_id, ctx=ctx))
            else:
                buf.append(_uint16_packer(0))''', '''            if not is_free_object_type:
                src_type_id = _describe_object_type(el_src, ctx=ctx)
                buf.append(_type_ref_id_packer(src_type_id, ctx=ctx))''',
  'C14.R1', '_describe_object_shape@2.0')
V('C14', 'array-dims-width', F, M + '_describe_array',
  'buf.append(_int32_packer(-1))', 'buf.append(_uint16_packer(0))', 'C14.R1', '_describe_array')
V('C14', 'enum-name-only-v1', F, M + '_describe_enum',
  '''    if ctx.protocol_version >= (2, 0):
        # .name
        buf.append(_name_packer(enum.get_name(ctx.schema)))''', '''    if ctx.protocol_version >= (1, 0):
        # .name
        buf.append(_name_packer(enum.get_name(ctx.schema)))''', 'C14.R1', '_describe_enum@1.0')
V('C14', 'decoder-reads-u32-count', F, M + '_parse_strings',
  'read_ui16()', 'read_ui32()', 'C14.R1', '_describe_enum')
V('C14', 'decoder-skips-schema-defined', F, M + '_parse_enum_descriptor',
  '        schema_defined = _parse_bool(desc)\n', '        schema_defined = None\n', 'C14.R1', '_describe_enum@2.0')
V('C14', 'params-missing-source-slot', F, M + 'describe_params',
  '''        if protocol_version >= (2, 0):
            # ShapeElement.source_type
            params_buf.append(_uint16_packer(0))
''', '', 'C14.R1', 'describe_params@2.0')
V('C14', 'no-length-prefix', F, M + '_finish_typedesc',
  '''    if ctx.protocol_version >= (2, 0):
        ctx.buffer.append(_uint32_packer(len(desc)))
''', '', 'C14.R1', 'framing@2.0')
V('C14', 'decoder-registered-twice', F, M + '_parse_range_descriptor',
  '@_parse_descriptor.register(DescriptorTag.RANGE)', '@_parse_descriptor.register(DescriptorTag.MULTIRANGE)',
  'C14.R2', 'decoder-for=')
V('C14', 'tag-byte-clash', F, M + 'DescriptorTag',
  "MULTIRANGE = b'\\x0c'", "MULTIRANGE = b'\\x0b'", 'C14.R2', 'tag-byte=0b')
V('C14', 'id-misses-cardinalities', F, M + '_describe_object_shape',
  '''        element_names,
        cardinalities,
        links_props=link_props,''', '''        element_names,
        None,
        links_props=link_props,''', 'C14.R3', 'list=cardinalities')
V('C14', 'id-fn-ignores-links', F, M + '_get_object_shape_id',
  "string_id += f'{has_implicit_fields!r};{links_props!r};{links!r}'",
  "string_id += f'{has_implicit_fields!r};{links_props!r}'", 'C14.R3', '_get_object_shape_id:uses=links')
V('C14', 'tuple-id-misses-names', F, M + '_describe_tuple',
  't.get_schema_name(), subtypes, element_names)', 't.get_schema_name(), subtypes)', 'C14.R3', '_describe_tuple')
V('C14', 'no-dedup', F, M + '_describe_array',
  '''    if type_id in ctx.uuid_to_pos:
        return type_id
''', '', 'C14.R4', '_describe_array:early-return')
V('C14', 'foreign-buffer-writer', F, M + '_add_annotation',
  'ctx.anno_buffer.append(desc)', 'ctx.buffer.append(desc)', 'C14.R4', 'writer=_add_annotation')
V('C14', 'position-not-index', F, M + '_register_type_id',
  'ctx.uuid_to_pos[type_id] = len(ctx.uuid_to_pos)', 'ctx.uuid_to_pos[type_id] = len(ctx.buffer)',
  'C14.R4', '_register_type_id')
# negative controls
V('C14', 'neg-local-alias', F, M + '_describe_array',
  'buf.append(_uint16_packer(1))', 'dims = _uint16_packer(1)\n    buf.append(dims)', None)
V('C14', 'neg-comment', F, M + '_describe_enum',
  '    # .member_count\n', '    # .member_count (u16)\n', None)

S = 'edb/server/compiler/sertypes.py'
V('C14', 'tid-implicit-only-with-implicit-id', S, 'edb.server.compiler.sertypes._describe_object_shape',
  "        if (implicit_id and el_name == 'id') or el_name == '__tid__':", "        if implicit_id and el_name in ('id', '__tid__'):", 'C14.R5', '__tid__-always-implicit')
V('C14', 'explicit-id-flagged-implicit', S, 'edb.server.compiler.sertypes._describe_object_shape',
  "        if (implicit_id and el_name == 'id') or el_name == '__tid__':", "        if el_name == 'id' or el_name == '__tid__':", 'C14.R5', 'explicit-id-not-implicit')
V('C14', 'compound-components-as-regular', S, 'edb.server.compiler.sertypes._describe_compound_object_type',
  '[_describe_object_type(c, ctx=ctx) for c in components]', '[_describe_regular_object_type(c, ctx=ctx) for c in components]', 'C14.R5', 'calls=_describe_regular_object_type')
V('C14', 'neg-flag-test-restructured', S, 'edb.server.compiler.sertypes._describe_object_shape',
  "        if (implicit_id and el_name == 'id') or el_name == '__tid__':", "        if el_name == '__tid__' or (el_name == 'id' and implicit_id):", None)
V('C14', 'string-length-in-characters', S, 'edb.server.compiler.sertypes._string_packer',
  "    s_bytes = s.encode('utf-8')\n    return _uint32_packer(len(s_bytes)) + s_bytes", "    return _uint32_packer(len(s)) + s.encode('utf-8')", 'C14.R6', '_string_packer:len-prefix=payload')

# round 4
V('C14', 'cardinality-from-material-pointer', 'edb/server/compiler/sertypes.py',
  'edb.server.compiler.sertypes._describe_object_shape',
  '''        links.append(not ptr.is_property(ctx.schema))
        cardinalities.append(cardinality_from_ptr(ptr, ctx.schema))
        ctx.schema, material_ptr = ptr.material_type(ctx.schema)
''', '''        ctx.schema, material_ptr = ptr.material_type(ctx.schema)
        links.append(not ptr.is_property(ctx.schema))
        cardinalities.append(cardinality_from_ptr(material_ptr, ctx.schema))
''', 'C14.R7', 'cardinalities-from-element')
# negative control: only the statement order changes
V('C14', 'material-pointer-resolved-first', 'edb/server/compiler/sertypes.py',
  'edb.server.compiler.sertypes._describe_object_shape',
  '''        links.append(not ptr.is_property(ctx.schema))
        cardinalities.append(cardinality_from_ptr(ptr, ctx.schema))
        ctx.schema, material_ptr = ptr.material_type(ctx.schema)
''', '''        ctx.schema, material_ptr = ptr.material_type(ctx.schema)
        links.append(not ptr.is_property(ctx.schema))
        cardinalities.append(cardinality_from_ptr(ptr, ctx.schema))
''', None)

# round 5: the stored seeded breaks this property's check reports, replayed as variants
from sa.selftest import VP  # noqa
VP('C14', 'C14-e1', 'C14.L', 'memo-keys')
VP('C14', 'C14-e2', 'C14.R8', 'param=links_props')
VP('C14', 'C14-e3', 'C14.R8', 'element_names.append')
VP('C14', 'C14-f3', 'C14.R9', 'element-presence-conditions')
VP('C14', 'C14-f2', 'C14.R10', 'element-described-as-declared')
