from sa.selftest import V

D = 'edb/edgeql/declarative.py'
M = 'edb.edgeql.declarative.'

V('C11', 'drop-global-arm', D, M + 'sdl_to_ddl',
  '''                elif isinstance(decl_ast, qlast.CreateGlobal):
                    ctx.objects[fq_name] = qltracer.Global(fq_name)
''', '', 'C11.R1', 'kind=CreateGlobal')
V('C11', 'wrong-tracer-class', D, M + 'sdl_to_ddl',
  'ctx.objects[fq_name] = qltracer.Constraint(fq_name)', 'ctx.objects[fq_name] = qltracer.Annotation(fq_name)',
  'C11.R1', 'arm=CreateConstraint')
V('C11', 'unknown-kind-skipped', D, M + 'sdl_to_ddl',
  '''                else:
                    raise AssertionError(
                        f'unexpected SDL declaration: {decl_ast}')''', '''                else:
                    pass''', 'C11.R1', 'else-raises')
V('C11', 'no-link-layout', D, M + 'trace_layout_CreateLink',
  '@trace_layout.register\ndef trace_layout_CreateLink(', 'def trace_layout_CreateLink(', 'C11.R1', 'trace_layout:CreateLink')
V('C11', 'index-except-untraced', D, M + 'trace_Index',
  '''    if node.except_expr:
        exprs.append(ExprDependency(expr=node.except_expr))
''', '', 'C11.R2', 'CreateConcreteIndex.except_expr')
V('C11', 'policy-condition-untraced', D, M + 'trace_AccessPolicy',
  '''    if node.condition:
        exprs.append(ExprDependency(expr=node.condition))
''', '', 'C11.R2', 'CreateAccessPolicy.condition')
V('C11', 'global-handler-unregistered', D, M + 'trace_Global',
  '@trace_dependencies.register\ndef trace_Global(', 'def trace_Global(', 'C11.R2', 'CreateGlobal.target')
V('C11', 'trigger-exprs-dropped', D, M + 'trace_Trigger',
  '        hard_dep_exprs=exprs,\n        source=obj,', '        source=obj,', 'C11.R2', 'trace_Trigger:hands-exprs-over')
V('C11', 'deps-not-sorted', D, M + 'sdl_to_ddl',
  'ddlentry.deps = OrderedSet(sorted(deps))', 'ddlentry.deps = OrderedSet(deps)', 'C11.R3', 'normalise-deps')
V('C11', 'weak-not-normalised', D, M + 'sdl_to_ddl',
  '        ddlentry.weak_deps = OrderedSet(sorted(weak_deps))\n', '', 'C11.R3', 'normalise-weak_deps')
V('C11', 'cycle-swallowed', D, M + 'sdl_to_ddl',
  '        raise errors.InvalidDefinitionError(msg, span=node.span) from e\n', '        ordered = ()\n', 'C11.R4', 'cycle-reported')
# negative control
V('C11', 'neg-reorder-arms', D, M + 'sdl_to_ddl',
  '''                elif isinstance(decl_ast, qlast.CreateGlobal):
                    ctx.objects[fq_name] = qltracer.Global(fq_name)
                elif isinstance(decl_ast, qlast.CreateIndex):
                    ctx.objects[fq_name] = qltracer.Index(fq_name)
''', '''                elif isinstance(decl_ast, qlast.CreateIndex):
                    ctx.objects[fq_name] = qltracer.Index(fq_name)
                elif isinstance(decl_ast, qlast.CreateGlobal):
                    ctx.objects[fq_name] = qltracer.Global(fq_name)
''', None)
