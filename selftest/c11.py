from sa.selftest import V

D = 'edb/edgeql/declarative.py'
M = 'edb.edgeql.declarative.'

V('C11', 'drop-global-arm', D, M + 'sdl_to_ddl',
  '''                elif isinstance(decl_ast, qlast.CreateGlobal):
                    ctx.objects[fq_name] = qltracer.Global(fq_name)
''', '', 'C11.R1', 'kind=CreateGlobal')
V('C11', 'wrong-tracer-class', D, M + 'sdl_to_ddl',
  'ctx.objects[fq_name] = qltracer.Constraint(fq_name)', 'ctx.objects[fq_name] = qltracer.Annotation(fq_name)',
  'C11.R1', 'arm=CreateConstraint')
V('C11', 'unknown-kind-skipped', D, M + 'sdl_to_ddl',
  '''                else:
                    raise AssertionError(
                        f'unexpected SDL declaration: {decl_ast}')''', '''                else:
                    pass''', 'C11.R1', 'else-raises')
V('C11', 'no-link-layout', D, M + 'trace_layout_CreateLink',
  '@trace_layout.register\ndef trace_layout_CreateLink(', 'def trace_layout_CreateLink(', 'C11.R1', 'trace_layout:CreateLink')
V('C11', 'index-except-untraced', D, M + 'trace_Index',
  '''    if node.except_expr:
        exprs.append(ExprDependency(expr=node.except_expr))
''', '', 'C11.R2', 'CreateConcreteIndex.except_expr')
V('C11', 'policy-condition-untraced', D, M + 'trace_AccessPolicy',
  '''    if node.condition:
        exprs.append(ExprDependency(expr=node.condition))
''', '', 'C11.R2', 'CreateAccessPolicy.condition')
V('C11', 'global-handler-unregistered', D, M + 'trace_Global',
  '@trace_dependencies.register\ndef trace_Global(', 'def trace_Global(', 'C11.R2', 'CreateGlobal.target')
V('C11', 'trigger-exprs-dropped', D, M + 'trace_Trigger',
  '        hard_dep_exprs=exprs,\n        source=obj,', '        source=obj,', 'C11.R2', 'trace_Trigger:hands-exprs-over')
V('C11', 'deps-not-sorted', D, M + 'sdl_to_ddl',
  'ddlentry.deps = OrderedSet(sorted(deps))', 'ddlentry.deps = OrderedSet(deps)', 'C11.R3', 'normalise-deps')
V('C11', 'weak-not-normalised', D, M + 'sdl_to_ddl',
  '        ddlentry.weak_deps = OrderedSet(sorted(weak_deps))\n', '', 'C11.R3', 'normalise-weak_deps')
V('C11', 'cycle-swallowed', D, M + 'sdl_to_ddl',
  '        raise errors.InvalidDefinitionError(msg, span=node.span) from e\n', '        ordered = ()\n', 'C11.R4', 'cycle-reported')
# negative control
V('C11', 'neg-reorder-arms', D, M + 'sdl_to_ddl',
  '''                elif isinstance(decl_ast, qlast.CreateGlobal):
                    ctx.objects[fq_name] = qltracer.Global(fq_name)
                elif isinstance(decl_ast, qlast.CreateIndex):
                    ctx.objects[fq_name] = qltracer.Index(fq_name)
''', '''                elif isinstance(decl_ast, qlast.CreateIndex):
                    ctx.objects[fq_name] = qltracer.Index(fq_name)
                elif isinstance(decl_ast, qlast.CreateGlobal):
                    ctx.objects[fq_name] = qltracer.Global(fq_name)
''', None)

T = 'edb/edgeql/tracer.py'
TM = 'edb.edgeql.tracer.'
V('C11', 'overload-over-parents', D, M + '_register_item',
  'ancestor_bases = ctx.ancestors.get(ctx.depstack[-1][1])', 'ancestor_bases = ctx.parents.get(ctx.depstack[-1][1])',
  'C11.R5', 'overload-bases')
V('C11', 'ancestors-not-transitive', D, M + 'get_ancestors',
  '        result |= get_ancestors(fq_parent, ancestors, parents)\n', '        get_ancestors(fq_parent, ancestors, parents)\n',
  'C11.R5', 'get_ancestors:transitive')
V('C11', 'pointer-deps-over-parents', D, M + '_get_pointer_deps',
  'for tansc in ctx.ancestors.get(', 'for tansc in ctx.parents.get(', 'C11.R5', '_get_pointer_deps')
V('C11', 'with-module-not-default', T, TM + 'alias_context',
  '''            if alias.alias:
                ctx.modaliases[alias.alias] = alias.module
            else:
                # default module
                ctx.module = alias.module
''', '''            ctx.modaliases[alias.alias] = alias.module
''', 'C11.R7', 'alias_context:default-module')
V('C11', 'select-limit-untraced', T, TM + 'trace_Select',
  '''            if node.limit is not None:
                trace(node.limit, ctx=nctx)
''', '', 'C11.R6', 'SelectQuery.limit')
V('C11', 'ifelse-unregistered', T, TM + 'trace_IfElse',
  '@trace.register\ndef trace_IfElse(', 'def trace_IfElse(', 'C11.R6', 'trace:IfElse')
V('C11', 'insert-no-alias-context', T, TM + 'trace_InsertQuery',
  '    with alias_context(ctx, node.aliases) as ctx:', '    if True:', 'C11.R6', 'trace_InsertQuery:alias-context')
V('C11', 'hard-edge-loses-weak-flag', 'edb/common/topological.py', 'edb.common.topological.sort_ex',
  'visit(n, weak_link=weak_link)', 'visit(n)', 'C11.R8', 'hard-recursion-flag')
# negative controls: renaming the local, swapping the branches
V('C11', 'neg-rename-ancestor-local', D, M + '_register_item',
  '''        ancestor_bases = ctx.ancestors.get(ctx.depstack[-1][1])
        if ancestor_bases:
            for ancestor_base in ancestor_bases:''', '''        anc = ctx.ancestors.get(ctx.depstack[-1][1])
        if anc:
            for ancestor_base in anc:''', None)
V('C11', 'neg-alias-branches-swapped', T, TM + 'alias_context',
  '''            if alias.alias:
                ctx.modaliases[alias.alias] = alias.module
            else:
                # default module
                ctx.module = alias.module
''', '''            if not alias.alias:
                ctx.module = alias.module
            else:
                ctx.modaliases[alias.alias] = alias.module
''', None)
V('C11', 'index-except-tested-not-traced', D, M + 'trace_Index',
  'exprs.append(ExprDependency(expr=node.except_expr))', 'exprs.append(ExprDependency(expr=node.expr))', 'C11.R2', 'CreateConcreteIndex.except_expr')
V('C11', 'ancestor-pointer-wrong-module', D, M + '_get_pointer_deps',
  '            module=tansc.module,\n', '            module=pointer.module,\n', 'C11.R9', '_get_pointer_deps:qualname')
V('C11', 'fork-weak-refs-aliased', T, TM + '_fork_context',
  '    nctx.weak_refs = ctx.weak_refs\n', '    nctx.weak_refs = ctx.refs\n', 'C11.R9', '_fork_context:weak_refs')
V('C11', 'fork-drops-path-prefix', T, TM + '_fork_context',
  '        path_prefix=ctx.path_prefix,\n', '        path_prefix=ctx.anchors,\n', 'C11.R9', '_fork_context:path_prefix')
V('C11', 'module-block-resets-documents', 'edb/schema/ddl.py', 'edb.schema.ddl.apply_sdl',
  '            documents.setdefault(new_mod, [])\n', '            documents[new_mod] = []\n', 'C11.R9', 'documents-only-extended')
V('C11', 'lint-fork-copies-wrong-field', T, TM + '_fork_context',
  '        pointers=ctx.pointers,\n', '        pointers=ctx.anchors,\n', 'C11.L', 'slips:like-for-like-copies')
V('C11', 'union-right-operand-not-a-dependency', D, M + '_get_hard_deps',
  '        deps |= _get_hard_deps(expr.right, ctx=ctx)\n', '        deps |= _get_hard_deps(expr.left, ctx=ctx)\n', 'C11.R10', '_get_hard_deps:TypeOp.right')
V('C11', 'lint-duplicated-statement', D, M + '_get_hard_deps',
  '        deps |= _get_hard_deps(expr.right, ctx=ctx)\n', '        deps |= _get_hard_deps(expr.left, ctx=ctx)\n', 'C11.L', 'slips:duplicated-statement')
V('C11', 'subtypes-not-dependencies', D, M + '_get_hard_deps',
  '''            for subtype in expr.subtypes:
                deps |= _get_hard_deps(subtype, ctx=ctx)
''', '''            pass
''', 'C11.R10', '_get_hard_deps:TypeName.subtypes')
V('C11', 'created-modules-preseeded', D, M + 'sdl_to_ddl',
  '    created_modules = set()\n', '    created_modules = set(documents)\n', 'C11.R10', 'created_modules:starts-empty')
V('C11', 'module-prefix-loop-skips-self', D, M + 'sdl_to_ddl',
  "            n = '::'.join(parts[:i + 1])\n", "            n = '::'.join(parts[:i])\n", 'C11.R10', 'enclosing-first')
V('C11', 'name-guess-hard-dependency', T, TM + 'trace_Path',
  '''                        # Do a weak dependency on anything with the same name.
                        ctx.weak_refs.update(ctx.pointers.get(pname, ()))''', '''                        # Do a weak dependency on anything with the same name.
                        ctx.refs.update(ctx.pointers.get(pname, ()))''', 'C11.R10', 'trace_Path:name-guess')
V('C11', 'neg-created-modules-annotated', D, M + 'sdl_to_ddl',
  '    created_modules = set()\n', '    created_modules: set[str] = set()\n', None)

# round 4
T = 'edb/edgeql/tracer.py'
V('C11', 'revert-fix-result-alias-weak-refs', T,
  'edb.edgeql.tracer.result_alias_context',
  '        nctx.weak_refs = ctx.weak_refs\n', '', 'C11.R9',
  'derived-context-shares-weak_refs')
V('C11', 'alias-context-forks-only-with-aliases', T,
  'edb.edgeql.tracer.alias_context',
  '    ctx = _fork_context(ctx)\n',
  '    if aliases:\n        ctx = _fork_context(ctx)\n', 'C11.R9',
  'yields-a-copy')
V('C11', 'short-name-index-one-overload', T,
  'edb.edgeql.tracer.TracerContext.get_ref_name_startswith',
  '''        for objname in self.objects.keys():
            short_name = str(objname).split('@@', 1)[0]
            if short_name in prefixes:
                refs.add(objname)
''', '''        idx = {str(o).split('@@', 1)[0]: o for o in self.objects}
        for prefix in prefixes:
            if prefix in idx:
                refs.add(idx[prefix])
''', 'C11.L', 'lossy-key-maps')
# negative control: an index that keeps every overload
V('C11', 'short-name-index-all-overloads', T,
  'edb.edgeql.tracer.TracerContext.get_ref_name_startswith',
  '''        for objname in self.objects.keys():
            short_name = str(objname).split('@@', 1)[0]
            if short_name in prefixes:
                refs.add(objname)
''', '''        idx = {}
        for o in self.objects:
            idx.setdefault(str(o).split('@@', 1)[0], []).append(o)
        for prefix in prefixes:
            refs.update(idx.get(prefix, ()))
''', None)

# round 5: the stored seeded breaks this property's check reports, replayed as variants
from sa.selftest import VP  # noqa
VP('C11', 'C11-e1', 'C11.R14', 'type-ref-recorded')
VP('C11', 'C11-e2', 'C11.R14', 'every-param-type')
VP('C11', 'C11-e3', 'C11.R13', 'writes-ancestors')
