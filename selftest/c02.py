from sa.selftest import V

P = 'edb/schema/pointers.py'
D = 'edb/schema/delta.py'

V('C02', 'required-not-diffed', P, 'edb.schema.pointers.Pointer',
  '''    required = so.SchemaField(
        bool,
        default=False,
        compcoef=0.909,''', '''    required = so.SchemaField(
        bool,
        default=False,
        compcoef=None,''', 'C02.R1', 'Pointer.required')
V('C02', 'readonly-not-settable', P, 'edb.schema.pointers.Pointer',
  '''    readonly = so.SchemaField(
        bool,
        allow_ddl_set=True,''', '''    readonly = so.SchemaField(
        bool,''', 'C02.R2', 'Pointer.readonly')
V('C02', 'new-undescribable-field', P, 'edb.schema.pointers.Pointer',
  '''    readonly = so.SchemaField(''', '''    audit_tag = so.SchemaField(
        str,
        default=None,
        compcoef=0.9,
    )

    readonly = so.SchemaField(''', 'C02.R2', 'Pointer.audit_tag')
V('C02', 'get-ast-predicate-changed', D, 'edb.schema.delta.AlterObjectProperty._get_ast',
  "            and self.property != 'expr'\n", '', 'C02.R2', 'predicate')
V('C02', 'override-skips-super', 'edb/schema/objtypes.py', 'edb.schema.objtypes.DeleteObjectType._delete_finalize',
  '        return super()._delete_finalize(schema, context)', '        return schema', 'C02.R3', 'DeleteObjectType._delete_finalize')
V('C02', 'template-order-swapped', D, 'edb.schema.delta.DeleteObject.apply',
  '''            schema = self._delete_innards(schema, context)
            schema = self.apply_caused(schema, context)''', '''            schema = self.apply_caused(schema, context)
            schema = self._delete_innards(schema, context)''', 'C02.R3', 'DeleteObject.apply:template-order', count=1)
V('C02', 'super-result-discarded', 'edb/schema/objtypes.py', 'edb.schema.objtypes.DeleteObjectType._delete_finalize',
  '        return super()._delete_finalize(schema, context)', '        super()._delete_finalize(schema, context)\n        return schema', 'C02.R3', 'DeleteObjectType._delete_finalize')
V('C02', 'neg-field-reordered', P, 'edb.schema.pointers.Pointer',
  '''    readonly = so.SchemaField(
        bool,
        allow_ddl_set=True,''', '''    readonly = so.SchemaField(
        bool,
        allow_ddl_set=(True),''', None)
