from sa.selftest import V

P = 'edb/schema/pointers.py'
D = 'edb/schema/delta.py'

V('C02', 'required-not-diffed', P, 'edb.schema.pointers.Pointer',
  '''    required = so.SchemaField(
        bool,
        default=False,
        compcoef=0.909,''', '''    required = so.SchemaField(
        bool,
        default=False,
        compcoef=None,''', 'C02.R1', 'Pointer.required')
V('C02', 'readonly-not-settable', P, 'edb.schema.pointers.Pointer',
  '''    readonly = so.SchemaField(
        bool,
        allow_ddl_set=True,''', '''    readonly = so.SchemaField(
        bool,''', 'C02.R2', 'Pointer.readonly')
V('C02', 'new-undescribable-field', P, 'edb.schema.pointers.Pointer',
  '''    readonly = so.SchemaField(''', '''    audit_tag = so.SchemaField(
        str,
        default=None,
        compcoef=0.9,
    )

    readonly = so.SchemaField(''', 'C02.R2', 'Pointer.audit_tag')
V('C02', 'get-ast-predicate-changed', D, 'edb.schema.delta.AlterObjectProperty._get_ast',
  "            and self.property != 'expr'\n", '', 'C02.R2', 'predicate')
V('C02', 'override-skips-super', 'edb/schema/objtypes.py', 'edb.schema.objtypes.DeleteObjectType._delete_finalize',
  '        return super()._delete_finalize(schema, context)', '        return schema', 'C02.R3', 'DeleteObjectType._delete_finalize')
V('C02', 'template-order-swapped', D, 'edb.schema.delta.DeleteObject.apply',
  '''            schema = self._delete_innards(schema, context)
            schema = self.apply_caused(schema, context)''', '''            schema = self.apply_caused(schema, context)
            schema = self._delete_innards(schema, context)''', 'C02.R3', 'DeleteObject.apply:template-order', count=1)
V('C02', 'super-result-discarded', 'edb/schema/objtypes.py', 'edb.schema.objtypes.DeleteObjectType._delete_finalize',
  '        return super()._delete_finalize(schema, context)', '        super()._delete_finalize(schema, context)\n        return schema', 'C02.R3', 'DeleteObjectType._delete_finalize')
V('C02', 'neg-field-reordered', P, 'edb.schema.pointers.Pointer',
  '''    readonly = so.SchemaField(
        bool,
        allow_ddl_set=True,''', '''    readonly = so.SchemaField(
        bool,
        allow_ddl_set=(True),''', None)

V('C02', 'link-source-delete-undiffed', 'edb/schema/links.py', 'edb.schema.links.Link',
  '''        default=LinkSourceDeleteAction.Allow,
        coerce=True,
        compcoef=0.9,''', '''        default=LinkSourceDeleteAction.Allow,
        coerce=True,''', 'C02.R1', 'Link.on_source_delete')
V('C02', 'rename-compares-short-name', 'edb/schema/delta.py', 'edb.schema.delta.RenameObject._get_ast',
  'if (orig_ref.module, orig_ref.name) != (ref.module, ref.name):', 'if orig_ref.name != ref.name:', 'C02.R4', 'compares-qualified-name')
V('C02', 'diamond-drop-deletes', 'edb/schema/referencing.py', 'edb.schema.referencing.DeleteReferencedInheritingObject._propagate_child_ref_deletion',
  'if child_ref.get_owned(schema) or implicit_bases:', 'if child_ref.get_owned(schema):', 'C02.R4', 'other-parent')
V('C02', 'owned-child-ref-deleted', 'edb/schema/referencing.py', 'edb.schema.referencing.DeleteReferencedInheritingObject._propagate_child_ref_deletion',
  'if child_ref.get_owned(schema) or implicit_bases:', 'if implicit_bases:', 'C02.R4', '_propagate_child_ref_deletion:owned')
V('C02', 'owned-drop-not-rendered', 'edb/schema/referencing.py', 'edb.schema.referencing.DeleteReferencedInheritingObject._get_ast',
  "            and not self.get_orig_attribute_value('owned')\n", '', 'C02.R4', 'owned-rendered')
# negative control: compare whole refs through a helper tuple
V('C02', 'neg-rename-compare-restructured', 'edb/schema/delta.py', 'edb.schema.delta.RenameObject._get_ast',
  '''        if (orig_ref.module, orig_ref.name) != (ref.module, ref.name):
            return astnode(new_name=ref)  # type: ignore
        else:
            return None''', '''        if orig_ref.module == ref.module and orig_ref.name == ref.name:
            return None
        return astnode(new_name=ref)  # type: ignore''', None)

V('C02', 'revert-remove-while-iterating', 'edb/schema/inheriting.py', 'edb.schema.inheriting.RebaseInheritingObject._compute_new_bases',
  '        for b in list(bases):\n            if b.get_name(schema) in removed_bases:', '        for b in bases:\n            if b.get_name(schema) in removed_bases:', 'C02.R5', '_compute_new_bases:for-bases')
V('C02', 'stale-base-index', 'edb/schema/inheriting.py', 'edb.schema.inheriting.RebaseInheritingObject._compute_new_bases',
  '''            ]
            index = {b.get_name(schema): i for i, b in enumerate(bases)}
''', '''            ]
''', 'C02.R5', '_compute_new_bases:index-fresh')
V('C02', 'empty-alter-not-owned', 'edb/schema/referencing.py', 'edb.schema.referencing.AlterReferencedInheritingObject._cmd_tree_from_ast',
  '''            and (
                not cmd.get_subcommands()
                or not all(
                    (
                        isinstance(scmd, sd.AlterObjectProperty)
                        and scmd.new_value is None
                    )
                    for scmd in cmd.get_subcommands()
                )
            )''', '''            and not all(
                (
                    isinstance(scmd, sd.AlterObjectProperty)
                    and scmd.new_value is None
                )
                for scmd in cmd.get_subcommands()
            )''', 'C02.R5', 'empty-alter-owns')
V('C02', 'inherited-status-one-sided', 'edb/schema/objects.py', 'edb.schema.objects.InheritingObject.compare_obj_field_value',
  '        if (fname in our_ifs) != (fname in their_ifs):', '        if fname in their_ifs - our_ifs:', 'C02.R5', 'inherited-status-symmetric')
V('C02', 'owned-merge-guard-by-op-attr', 'edb/schema/ordering.py', 'edb.schema.ordering._trace_op',
  'and not obj.get_owned(new_schema)', "and not op.get_attribute_value('owned')", 'C02.R6', '_trace_op:owned-objects-not-merged')
V('C02', 'renamed-children-keep-module', 'edb/schema/delta.py', 'edb.schema.delta.RenameObject._canonicalize',
  '                    module=self.new_name.module,\n', '                    module=ref_name.module,\n', 'C02.R6', 'children-follow-module')
V('C02', 'unions-refreshed-only-with-pointer-subcommands', 'edb/schema/objtypes.py', 'edb.schema.objtypes.AlterObjectType._alter_finalize',
  '        if not context.canonical:\n', '        if (\n            not context.canonical\n            and self.get_subcommands(metaclass=pointers.Pointer)\n        ):\n', 'C02.R6', 'unions-refreshed')

# round 4
V('C02', 'propagation-stops-at-children', 'edb/schema/referencing.py',
  'edb.schema.referencing.ReferencedInheritingObjectCommand._propagate_ref_op',
  'for descendant in scls.ordered_descendants(schema):',
  'for descendant in scls.children(schema):', 'C02.R7',
  'tagged-propagation-reaches-all-descendants')
V('C02', 'enum-rebase-only-when-label-set-differs', 'edb/schema/scalars.py',
  'edb.schema.scalars.ScalarType.as_alter_delta',
  'if old_enum_values and enum_values:',
  'if old_enum_values and enum_values and set(old_enum_values) != set(enum_values):',
  'C02.R7', 'enum-order-counts')
V('C02', 'excluded-modules-by-string-prefix', 'edb/schema/schema.py',
  'edb.schema.schema.SchemaIterator.__init__',
  'or obj.get_name(schema).get_module_name() not in excmod',
  'or not str(obj.get_name(schema).get_module_name()).startswith(tuple(str(m) for m in excmod))',
  'C02.R7', 'module-filter')

# round 5: the stored seeded breaks this property's check reports, replayed as variants
from sa.selftest import VP  # noqa
VP('C02', 'C02-e3', 'C02.R8', 'context-value')
VP('C02', 'C02-e2', 'C02.R9', 'release-unconditional')
