from sa.selftest import V

F = 'edb/server/connpool/pool.py'
P = 'edb.server.connpool.pool.'

V('C16', 'revert-fix-cancel', F, P + 'Block.try_acquire',
  'except BaseException:', 'except Exception:', 'C16.R1', 'handler-covers-CancelledError')
V('C16', 'revert-fix-transfer', F, P + 'BasePool._transfer',
  '''        try:
            await self._disconnect(from_conn, from_block)
        except Exception:''',
  '''        try:
            await self._disconnect(from_conn, from_block)
        except KeyError:''', 'C16.R4', '_transfer')
V('C16', 'release-no-wakeup', F, P + 'Block.release',
  '        self._wakeup_next_waiter()\n', '', 'C16.R1', 'conn_stack.append')
V('C16', 'handler-no-pass-on', F, P + 'Block.try_acquire',
  '''                    if self.conn_stack and not waiter.cancelled():
                        # We were woken up by release(), but can't take
                        # the call.  Wake up the next in line.
                        self._wakeup_next_waiter()
''', '', 'C16.R1', 'handler-passes-wakeup-on')
V('C16', 'waiters-num-not-finally', F, P + 'Block.try_acquire',
  '''        finally:
            self.conn_waiters_num -= 1''', '''        finally:
            pass''', 'C16.R1', 'conn_waiters_num')
V('C16', 'wakeup-wakes-dead', F, P + 'Block._wakeup_next_waiter',
  '''            if not waiter.done():
                waiter.set_result(None)
                break''', '''            if not waiter.done():
                waiter.set_result(None)
            break''', 'C16.R1', '_wakeup_next_waiter')
V('C16', 'no-abort', F, P + 'BasePool._connect',
  '                block.abort_waiters(e)\n', '                pass\n', 'C16.R2', 'failure-reaches-waiters')
V('C16', 'abort-first-only', F, P + 'Block.abort_waiters',
  '''            if not waiter.done():
                waiter.set_exception(e)''', '''            if not waiter.done():
                waiter.set_exception(e)
                break''', 'C16.R2', 'abort_waiters')
V('C16', 'no-waitlist', F, P + 'Pool._acquire',
  '''            if not self._try_steal_conn(block):
                self._new_blocks_waitlist[block] = True
''', '''            self._try_steal_conn(block)
''', 'C16.R3', '_acquire')
V('C16', 'no-new-conn-for-empty-block', F, P + 'Pool._acquire',
  '''                not block_nconns or
                block_nconns < block.quota or''', '''                block_nconns < block.quota or''', None)  # redundant disjunct: with no connections count_approx_available_conns() is 0
V('C16', 'tick-not-rescheduled', F, P + 'Pool._tick',
  '''        if self._nacquires:
            # Schedule the next tick if we're still in Mode C/D.
            self._maybe_schedule_tick()
''', '', 'C16.R5', '_tick')
V('C16', 'nacquires-leaks', F, P + 'Pool.acquire',
  '''        try:
            conn = await self._acquire(dbname)
        finally:
            self._nacquires -= 1
''', '''        conn = await self._acquire(dbname)
        self._nacquires -= 1
''', 'C16.R5', '_nacquires')
V('C16', 'release-no-tick', F, P + 'Pool.release',
  '        self._maybe_schedule_tick()\n', '', 'C16.R5', 'release')
V('C16', 'connect-pending-leak-on-error', F, P + 'BasePool._connect',
  '''        finally:
            ended_at = time.monotonic()
            self._conntime_avg.add(ended_at - started_at)
            block.pending_conns -= 1
''', '''        ended_at = time.monotonic()
        self._conntime_avg.add(ended_at - started_at)
        block.pending_conns -= 1
''', 'C16.R4', '_connect')
# negative controls
V('C16', 'neg-bare-except', F, P + 'Block.try_acquire',
  'except BaseException:', 'except:', None)
V('C16', 'neg-rename-local', F, P + 'Pool._acquire',
  'room_for_new_conns', 'has_room', None, count=2)

V('C16', 'discard-replaced-only-with-waiters', 'edb/server/connpool/pool.py', 'edb.server.connpool.pool.Pool.release',
  '                self._schedule_discard(block, conn)\n                self._schedule_new_conn(block)\n',
  '                self._schedule_discard(block, conn)\n                if block.count_waiters():\n                    self._schedule_new_conn(block)\n', 'C16.R6', 'discard-is-replaced')
V('C16', 'tick-early-exit-inclusive', 'edb/server/connpool/pool.py', 'edb.server.connpool.pool.Pool._tick',
  '        if total_nwaiters < self._max_capacity:', '        if total_nwaiters <= self._max_capacity:', 'C16.R6', 'early-exit-vs-starving')
V('C16', 'tick-not-armed-for-single-block', F, P + 'Pool._maybe_schedule_tick',
  '        if not self._nacquires or self._htick is not None:\n', '        if not self._nacquires or len(self._blocks) <= 1 or self._htick is not None:\n', 'C16.R5', 'armed-whenever-outstanding')
V('C16', 'unsuppress-moved-to-connect-site', F, P + 'Pool._acquire',
  '        block = self._get_block(dbname)\n        block.suppressed = False\n', '        block = self._get_block(dbname)\n', 'C16.R7', 'unsuppressed-before-wait')
V('C16', 'neg-tick-guard-split', F, P + 'Pool._maybe_schedule_tick',
  '        if not self._nacquires or self._htick is not None:\n            return\n', '        if not self._nacquires:\n            return\n        if self._htick is not None:\n            return\n', None)
V('C16', 'revert-fix-requeue', F, P + 'Pool._maybe_free_into_starving_blocks',
  '            self._new_blocks_waitlist[from_block] = True\n', '            pass\n', 'C16.R8', 'transfer-of-released')
V('C16', 'requeue-only-without-waiters', F, P + 'Pool._maybe_free_into_starving_blocks',
  '        if not from_block.count_conns() and from_block.count_waiters():\n', '        if not from_block.count_conns() and not from_block.count_waiters():\n', 'C16.R8', 'transfer-of-released')

# round 4
PF = 'edb/server/connpool/pool.py'
V('C16', 'no-free-from-block-with-waiters', PF,
  'edb.server.connpool.pool.Pool._should_free_conn',
  'if not self._is_starving and from_block_size <= from_block.quota:',
  'if not self._is_starving and (from_block_size <= from_block.quota or from_block.count_waiters()):',
  'C16.R9', 'over-quota-when-not-starving')
# negative control: the same skip written as two tests
# round 4b: the repaired tick, reverted
V('C16', 'revert-fix-tick-ignores-waitlist', PF, 'edb.server.connpool.pool.Pool._tick',
  '''        while (
            self._new_blocks_waitlist
            and self._cur_capacity < self._max_capacity
        ):
            block, _ = self._new_blocks_waitlist.popitem(last=False)
            if block.count_waiters() and not block.count_conns():
                self._schedule_new_conn(block)
''', '', 'C16.R10', 'free-capacity-serves-the-waitlist')
V('C16', 'revert-fix-steal-only-when-entering-starving', PF,
  'edb.server.connpool.pool.Pool._tick',
  '            if self._new_blocks_waitlist:\n',
  '            if not was_starving and self._new_blocks_waitlist:\n',
  'C16.R10', 'starving-steal-on-every-tick')
# round 5: repair 7d18c99 (a block with a waiter is neither dropped nor suppressed)
V('C16', 'revert-fix-drop-block-with-waiters', F, P + 'Pool._tick',
  'if not block.count_conns() and not nwaiters:', 'if not block.count_conns():',
  'C16.R11', '_tick:never-drops-a-block-with-waiters')
V('C16', 'revert-fix-suppress-block-with-waiters', F,
  P + 'Pool.prune_inactive_connections',
  'if block.count_waiters():', 'if False:',
  'C16.R11', 'prune_inactive_connections:never-suppresses')
# negative control: the same guard spelt through the waiter count only
V('C16', 'nc-drop-guard-by-count-waiters', F, P + 'Pool._tick',
  'if not block.count_conns() and not nwaiters:',
  'if not block.count_conns() and not block.count_waiters():', None)

# round 5: the stored seeded breaks this property's check reports, replayed as variants
from sa.selftest import VP  # noqa
VP('C16', 'C16-e1', 'C16.R1', 'conn_stack.append')
VP('C16', 'C16-e3', 'C16.R10', 'free-capacity-serves-the-waitlist')
