from sa.selftest import V

S = 'edb/schema/schema.py'
D = 'edb/schema/delta.py'
F = 'edb.schema.schema.FlatSchema.'

V('C04', 'inplace-generation', S, F + 'delist',
  '        name_to_id = self._name_to_id.delete(name)\n', '        name_to_id = self._name_to_id.delete(name)\n        self._generation += 1\n',
  'C04.R1', '_generation')
V('C04', 'replace-aliases-self', S, F + '_replace',
  'new = FlatSchema.__new__(FlatSchema)', 'new = self', 'C04.R1', '_replace:fresh-object')
V('C04', 'replace-skips-refs', S, F + '_replace',
  '''        if refs_to is None:
            new._refs_to = self._refs_to
        else:
            new._refs_to = refs_to
''', '''        new._refs_to = self._refs_to
''', 'C04.R1', '_replace:refs_to')
V('C04', 'update-obj-writes-self', S, F + 'update_obj',
  '        id_to_data = self._id_to_data.set(obj_id, tuple(data))\n',
  '        id_to_data = self._id_to_data.set(obj_id, tuple(data))\n        self._id_to_data = id_to_data\n', 'C04.R1', '_id_to_data')
V('C04', 'delete-keeps-refs', S, F + '_delete',
  '            refs_to=refs_to,\n        ))', '        ))', 'C04.R2', '_delete:indexes-passed')
V('C04', 'delete-keeps-type', S, F + '_delete',
  '            id_to_type=self._id_to_type.delete(obj.id),\n', '', 'C04.R2', '_delete:indexes-passed')
V('C04', 'delete-keeps-name', S, F + '_delete',
  '''        name_to_id, shortname_to_id, globalname_to_id = self._update_obj_name(
            obj.id, sclass, name, None)''', '''        name_to_id, shortname_to_id, globalname_to_id = (
            self._name_to_id, self._shortname_to_id, self._globalname_to_id)''', 'C04.R2', '_delete:name_to_id')
V('C04', 'add-no-refs', S, F + 'add_raw',
  'refs_to = self._update_refs_to(id, sclass, None, new_refs)', 'refs_to = None', 'C04.R2', 'add_raw:refs_to')
V('C04', 'set-field-skips-refs', S, F + 'set_obj_field',
  '''        if not is_object_ref:
            refs_to = None
        else:''', '''        if not is_object_ref or fieldname == 'bases':
            refs_to = None
        else:''', 'C04.R2', 'set_obj_field:refs_to')
V('C04', 'unset-name-keeps-index', S, F + 'unset_obj_field',
  "        if fieldname == 'name':\n            name_to_id, shortname_to_id, globalname_to_id = (", "        if fieldname == 'fullname':\n            name_to_id, shortname_to_id, globalname_to_id = (",
  'C04.R2', 'unset_obj_field:name-field')
V('C04', 'foreign-deleter', 'edb/schema/objtypes.py', 'edb.schema.objtypes.DeleteObjectType._delete_finalize',
  '        return super()._delete_finalize(schema, context)', '        return schema.delete(self.scls)', 'C04.R3', 'schema.delete')
V('C04', 'unguarded-delete', D, 'edb.schema.delta.DeleteObject._delete_finalize',
  '''            if ref_strs:
                vn = self.scls.get_verbosename(orig_schema, with_parent=True)''', '''            if False:
                vn = self.scls.get_verbosename(orig_schema, with_parent=True)''', 'C04.R3', 'referrer-check')
V('C04', 'delete-before-check', D, 'edb.schema.delta.DeleteObject._delete_finalize',
  '''        ref_strs = []
''', '''        ref_strs = []
        if context.canonical:
            return schema.delete(self.scls)
''', 'C04.R3', '')
V('C04', 'global-method-cache', S, F + '_get_casts',
  '@lru.lru_method_cache()', '@functools.lru_cache()', 'C04.R4', '_get_casts:cache')
V('C04', 'rename-keeps-name', D, 'edb.schema.delta.RenameObject._alter_begin',
  'value=self.new_name,', 'value=self.classname,', 'C04.R5', 'sets-name')
V('C04', 'rename-children-old-parent', D, 'edb.schema.delta.RenameObject._canonicalize',
  'quals[0] = str(self.new_name)', 'quals[0] = str(self.classname)', 'C04.R5', 'children')
# negative controls
V('C04', 'neg-local-rename', S, F + '_delete',
  'values = self._id_to_data[obj.id]', 'values = data', None)
V('C04', 'neg-reader-local', S, F + 'add_raw',
  "        name_field = sclass.get_schema_field('name')\n        name = data[name_field.index]",
  "        nf = sclass.get_schema_field('name')\n        name_field = nf\n        name = data[nf.index]", None)

O = 'edb/schema/objects.py'
V('C04', 'cached-quals-mutated', 'edb/schema/delta.py', 'edb.schema.delta.RenameObject._canonicalize',
  'quals = list(sn.quals_from_fullname(ref_name))', 'quals = sn.quals_from_fullname(ref_name)', 'C04.R6', 'quals_from_fullname->quals')
V('C04', 'refresh-reuses-keys', O, 'edb.schema.objects.Object.refresh_classref',
  'all_coll = colltype.create(schema, coll.objects(schema))', 'all_coll = colltype.create(schema, coll)', 'C04.R6', 'refresh_classref:recomputes-keys')
V('C04', 'rename-no-refresh', 'edb/schema/referencing.py', 'edb.schema.referencing.RenameReferencedInheritingObject._alter_begin',
  '            schema = referrer.refresh_classref(schema, refdict.attr)\n', '', 'C04.R6', 'refreshes-referrer')
V('C04', 'collection-ids-extended-in-place', O, 'edb.schema.objects.ObjectCollection.create',
  '''        if isinstance(data, ObjectCollection):
            ids.extend(data._ids)''', '''        if isinstance(data, ObjectCollection):
            data._ids = tuple(data._ids)
            ids.extend(data._ids)''', 'C04.R6', 'ObjectCollection.create:data._ids')
V('C04', 'keys-recomputed-in-place', O, 'edb.schema.objects.ObjectIndexBase.keys',
  '        if self._keys is None:\n', '        if self._keys is None or schema is not None:\n', 'C04.R6', 'ObjectIndexBase.keys:self._keys')
V('C04', 'keys-always-rebound', O, 'edb.schema.objects.ObjectIndexBase.keys',
  '''        if self._keys is None:
            _k = type(self)._key
            self._keys = tuple([_k(schema, x) for x in self.objects(schema)])
''', '''        _k = type(self)._key
        self._keys = tuple([_k(schema, x) for x in self.objects(schema)])
''', 'C04.R6', 'ObjectIndexBase.keys:self._keys')
# negative control: a copy under another spelling
V('C04', 'neg-copy-by-slice', 'edb/schema/delta.py', 'edb.schema.delta.RenameObject._canonicalize',
  'quals = list(sn.quals_from_fullname(ref_name))', 'quals = [*sn.quals_from_fullname(ref_name)]', None)

V('C04', 'unset-field-roles-swapped', S, F + 'unset_obj_field',
  'refs_to = self._update_refs_to(obj_id, sclass, orig_refs, None)', 'refs_to = self._update_refs_to(obj_id, sclass, None, orig_refs)', 'C04.R7', 'unset_obj_field:_update_refs_to:roles')
V('C04', 'update-obj-refs-swapped', S, F + 'update_obj',
  'refs_to = self._update_refs_to(obj_id, sclass, orig_refs, new_refs)', 'refs_to = self._update_refs_to(obj_id, sclass, new_refs, orig_refs)', 'C04.R7', 'update_obj:_update_refs_to:roles')
V('C04', 'chained-referrers-one-layer', S, 'edb.schema.schema.ChainedSchema.get_referrers',
  '''            | self._global_schema.get_referrers(  # type: ignore [operator]
                scls,
                scls_type=scls_type,
                field_name=field_name,
            )
''', '', 'C04.R8', 'ChainedSchema.get_referrers:all-layers')
V('C04', 'rename-skips-exists-check', S, F + '_update_obj_name',
  '''                if new_name in name_to_id:
                    other_obj = self.get_by_id(
                        name_to_id[new_name], type=so.Object)
                    vn = other_obj.get_verbosename(self, with_parent=True)
                    raise errors.SchemaError(
                        f'{vn} already exists')
''', '', 'C04.R9', 'name_to_id[new_name]:exists-check')
V('C04', 'lint-old-new-name-swapped', S, F + 'set_obj_field',
  'self._update_obj_name(obj_id, sclass, old_name, value)', 'self._update_obj_name(obj_id, sclass, value, old_name)', 'C04.R7', 'set_obj_field:_update_obj_name:roles')
V('C04', 'diff-applied-to-scratch-schema', 'edb/schema/objtypes.py', 'edb.schema.objtypes.AlterObjectType._alter_finalize',
  '                schema = diff.apply(schema, context)\n', '                schema = diff.apply(nschema, context)\n', 'C04.R10', '_alter_finalize:apply-threads-schema')
V('C04', 'blocking-ref-by-name', 'edb/schema/properties.py', 'edb.schema.properties.Property.is_blocking_ref',
  'return not self.is_endpoint_pointer(schema)', "return self.get_shortname(schema).name not in {'source', 'target'}", 'C04.R10', 'endpoints-by-descent')

# round 4
V('C04', 'short-name-index-read-from-self-again', 'edb/schema/schema.py',
  'edb.schema.schema.FlatSchema._update_obj_name',
  '''                try:
                    ids = shortname_to_id[sn_key]
                except KeyError:
                    ids = frozenset()

                shortname_to_id = shortname_to_id.set(sn_key, ids | {obj_id})
''', '''                ids = self._shortname_to_id.get(sn_key, frozenset())
                shortname_to_id = self._shortname_to_id.set(
                    sn_key, ids | {obj_id})
''', 'C04.R11', '_shortname_to_id-through-working-copy')
# negative control: Map.get on the working copy
V('C04', 'short-name-index-get-on-working-copy', 'edb/schema/schema.py',
  'edb.schema.schema.FlatSchema._update_obj_name',
  '''                try:
                    ids = shortname_to_id[sn_key]
                except KeyError:
                    ids = frozenset()
''', '''                ids = shortname_to_id.get(sn_key, frozenset())
''', None)
V('C04', 'renamed-tuple-named-by-position', 'edb/schema/types.py',
  'edb.schema.types.RenameType._canonicalize',
  '''                        k: st.get_name(schema)
                        for k, st in (
                            ref_type.get_element_types(schema).items(schema)
                        )''', '''                        str(i): st.get_name(schema)
                        for i, st in enumerate(ref_type.get_subtypes(schema))''',
  'C04.R11', 'tuple-name-from-element-names')
V('C04', 'link-target-prop-not-updated-when-inherited', 'edb/schema/links.py',
  'edb.schema.links.SetLinkType._alter_begin',
  '        if not context.canonical:\n',
  "        if not context.canonical and not self.is_attribute_inherited('target'):\n",
  'C04.R11', 'target-prop-follows')

# round 5: the stored seeded breaks this property's check reports, replayed as variants
from sa.selftest import VP  # noqa
VP('C04', 'C04-e3', 'C04.R12', 'delcanon-key')
VP('C04', 'C04-f1', 'C04.R13', 'walks-descendant-closure')
VP('C04', 'C04-f3', 'C04.R14', 'isolated-escape-only')
