from sa.selftest import V

Q = 'edb/edgeql/quote.py'
G = 'edb/edgeql/codegen.py'
PC = 'edb/pgsql/common.py'
PG = 'edb/pgsql/codegen.py'
VC = 'edb.edgeql.codegen.EdgeQLSourceGenerator.visit_Constant'

# reverted fixes
V('C18', 'revert-fix-repr', G, VC,
  'self.write(edgeql_quote.quote_literal(node.value))', 'self.write(repr(node.value))', 'C18.R4', 'visit_Constant:fallback')
V('C18', 'revert-fix-bidi-guard', G, '',
  "    r'[\\u0000-\\u0008\\u000B\\u000C\\u000E-\\u001F\\u007F\\u0080-\\u009F\\n'\n    r'\\u202A-\\u202E\\u2066-\\u2069]')",
  "    r'[\\u0000-\\u0008\\u000B\\u000C\\u000E-\\u001F\\u007F\\u0080-\\u009F\\n]')", 'C18.R2', 'visit_Constant:raw-vs-prohibited')
V('C18', 'revert-fix-escape-bidi', Q, 'edb.edgeql.quote.escape_string',
  '''    result = _re_unprintable.sub(
        lambda m: '\\\\u%04x' % ord(m.group(0)), result)
''', '', 'C18.R2', 'escape_string:raw-vs-prohibited')
V('C18', 'revert-fix-dollar', Q, 'edb.edgeql.quote.dollar_quote_literal',
  'while (text + quote).find(quote) != len(text):', 'while quote in text:', 'C18.R3', 'dollar_quote_literal:marker-search')
V('C18', 'revert-fix-dollar-shortcut', G, VC,
  '''for d in ("'", '"'):''', '''for d in ("'", '"', '$$'):''', 'C18.R3', 'single-char-delimiters')
V('C18', 'revert-fix-bytes-backslash', G, '',
  "_BYTES_ESCAPE_RE = re.compile(b'[\\\\\\\\\\'\\x00-\\x1f\\x7e-\\xff]')", "_BYTES_ESCAPE_RE = re.compile(b'[\\\\\\'\\x00-\\x1f\\x7e-\\xff]')",
  'C18.R2', 'visit_BytesConstant:raw-bytes')
# other breaks
V('C18', 'escape-vertical-tab', Q, 'edb.edgeql.quote.escape_string',
  "    result = result.replace('\\t', '\\\\t')\n", "    result = result.replace('\\t', '\\\\t')\n    result = result.replace('\\v', '\\\\v')\n",
  'C18.R1', 'escape_string:escape=U+000B')
V('C18', 'escape-wrong-letter', Q, 'edb.edgeql.quote.escape_string',
  "result.replace('\\f', '\\\\f')", "result.replace('\\f', '\\\\b')", 'C18.R1', 'escape_string:escape=U+000C')
V('C18', 'backslash-last', Q, 'edb.edgeql.quote.escape_string',
  '''    # escape backslash first
    result = result.replace('\\\\', '\\\\\\\\')

    result = result.replace('\\'', '\\\\\\'')''', '''    result = result.replace('\\'', '\\\\\\'')
    result = result.replace('\\\\', '\\\\\\\\')''', 'C18.R3', 'backslash-first')
V('C18', 'no-quote-escape', Q, 'edb.edgeql.quote.escape_string',
  "    result = result.replace('\\'', '\\\\\\'')\n", '', 'C18.R3', 'escapes-single-quote')
V('C18', 'ident-single-backtick', Q, 'edb.edgeql.quote._quote_ident',
  "string.replace('`', '``')", "string.replace('`', '`')", 'C18.R3', '_quote_ident')
V('C18', 'pg-literal-no-doubling', PC, 'edb.pgsql.common.quote_literal',
  '''string.replace("'", "''")''', 'string', 'C18.R3', 'pgsql.common.quote_literal')
V('C18', 'pg-ident-no-doubling', PC, 'edb.pgsql.common._quote_ident',
  """string.replace('"', '""')""", """string.replace('"', "'")""", 'C18.R3', 'pgsql.common._quote_ident')
V('C18', 'pg-needs-quoting-case', PC, 'edb.pgsql.common.needs_quoting',
  ''' or
        string.lower() != string
    )''', '''
    )''', 'C18.R3', 'pgsql.common.needs_quoting')
V('C18', 'pg-sink-bypass', PG, 'edb.pgsql.codegen.SQLSourceGenerator.visit_StringConstant',
  'self.write(common.quote_literal(node.val))', '''self.write("'" + node.val + "'")''', 'C18.R4', 'visit_StringConstant')
V('C18', 'raw-form-unchecked', G, VC,
  'if d not in node.value:', 'if True:', 'C18.R3', 'delimiter-absent')
V('C18', 'backslash-in-plain-string', G, VC,
  "if '\\\\' in node.value:", "if False and '\\\\' in node.value:", 'C18.R3', 'raw-prefix')
V('C18', 'bytes-named-escape-wrong', G, '',
  "    b'\\t': b'\\\\t',", "    b'\\t': b'\\\\v',", 'C18.R1', '_ESCAPES:byte=09')
V('C18', 'reserved-idents-unquoted', Q, 'edb.edgeql.quote.needs_quoting',
  'or (not allow_reserved and is_reserved)', '', 'C18.R3', 'needs_quoting')
V('C18', 'bytea-raw', PC, 'edb.pgsql.common.quote_bytea_literal',
  "b = binascii.b2a_hex(data).decode('ascii')", "b = data.decode('latin1')", 'C18.R3', 'quote_bytea_literal')
# negative controls
V('C18', 'neg-extra-escape-known', Q, 'edb.edgeql.quote.escape_string',
  "    result = result.replace('\\t', '\\\\t')\n", "    result = result.replace('\\t', '\\\\t')\n    result = result.replace('\"', '\\\\\"')\n", None)
V('C18', 'neg-reorder-after-backslash', Q, 'edb.edgeql.quote.escape_string',
  '''    result = result.replace('\\n', '\\\\n')
    result = result.replace('\\r', '\\\\r')''', '''    result = result.replace('\\r', '\\\\r')
    result = result.replace('\\n', '\\\\n')''', None)
# behaviour-preserving restructure of needs_quoting into early returns
V('C18', 'neg-needs-quoting-early-returns', Q, 'edb.edgeql.quote.needs_quoting',
  '''    r = _re_ident_or_num if allow_num else _re_ident
    isalnum = r.fullmatch(string)

    string = string.lower()

    # Partial reserved keywords (UNION, EXCEPT, INTERSECT) are only
    # accepted bare as pointer names; quote them like the reserved ones.
    is_reserved = (
        string not in {'__type__', '__std__'}
        and (
            string in keywords.by_type[keywords.RESERVED_KEYWORD]
            or string in keywords.by_type[keywords.PARTIAL_RESERVED_KEYWORD]
        )
    )

    return (
        not isalnum
        or (not allow_reserved and is_reserved)
    )''', '''    r = _re_ident_or_num if allow_num else _re_ident
    if not r.fullmatch(string):
        return True
    if allow_reserved:
        return False
    lowered = string.lower()
    return (
        lowered not in {'__type__', '__std__'}
        and (lowered in keywords.by_type[keywords.RESERVED_KEYWORD]
             or lowered in keywords.by_type[
                 keywords.PARTIAL_RESERVED_KEYWORD])
    )''', None)
V('C18', 'neg-pg-needs-quoting-reordered', PC, 'edb.pgsql.common.needs_quoting',
  '''        string
        and not string[0].isdecimal()
        and string.replace('_', 'a').isalnum()''', '''        string
        and string.replace('_', 'a').isalnum()
        and not string[:1].isdigit()''', None)
V('C18', 'ident-to-str-partition', 'edb/edgeql/codegen.py', 'edb.edgeql.codegen.ident_to_str',
  "        for part in ident.split('::')\n", "        for part in ident.rsplit('::', 1)\n", 'C18.R4', 'ident_to_str:every-component')

# round 4: the escape table as a one-pass translate table
V('C18', 'translate-table-with-vertical-tab', 'edb/edgeql/quote.py', None,
  """    result = s

    # escape backslash first
    result = result.replace('\\\\', '\\\\\\\\')

    result = result.replace('\\'', '\\\\\\'')
    result = result.replace('\\b', '\\\\b')
    result = result.replace('\\f', '\\\\f')
    result = result.replace('\\n', '\\\\n')
    result = result.replace('\\r', '\\\\r')
    result = result.replace('\\t', '\\\\t')
""",
  """    result = s.translate(str.maketrans({'\\\\': '\\\\\\\\', '\\'': '\\\\\\'', '\\b': '\\\\b', '\\f': '\\\\f', '\\n': '\\\\n', '\\r': '\\\\r', '\\t': '\\\\t', '\\v': '\\\\v'}))
""", 'C18.R1', 'escape')
V('C18', 'translate-table-same-escapes', 'edb/edgeql/quote.py', None,
  """    result = s

    # escape backslash first
    result = result.replace('\\\\', '\\\\\\\\')

    result = result.replace('\\'', '\\\\\\'')
    result = result.replace('\\b', '\\\\b')
    result = result.replace('\\f', '\\\\f')
    result = result.replace('\\n', '\\\\n')
    result = result.replace('\\r', '\\\\r')
    result = result.replace('\\t', '\\\\t')
""",
  """    result = s.translate(str.maketrans({'\\\\': '\\\\\\\\', '\\'': '\\\\\\'', '\\b': '\\\\b', '\\f': '\\\\f', '\\n': '\\\\n', '\\r': '\\\\r', '\\t': '\\\\t'}))
""", None)
# round 5: repair of the partial-reserved keyword class
V('C18', 'revert-fix-partial-reserved', Q, 'edb.edgeql.quote.needs_quoting',
  "            or string in keywords.by_type[keywords.PARTIAL_RESERVED_KEYWORD]\n", "",
  'C18.R3', 'needs_quoting:keyword-class=PARTIAL_RESERVED_KEYWORD')

# round 5: the stored seeded breaks this property's check reports, replayed as variants
from sa.selftest import VP  # noqa
VP('C18', 'C18-e1', 'C18.R4', 'pgsql.codegen.visit_StringConstant')
VP('C18', 'C18-e2', 'C18.R3', 'never-verbatim-when-quoting-needed')
VP('C18', 'C18-e3', 'C18.R3', 'escapes-single-quote')
VP('C18', 'C18-f2', 'C18.R2', 'raw-only-under-guard')
VP('C18', 'C18-f1', 'C18.L', 'memo-keys')
VP('C18', 'C18-f3', 'C18.R3', 'hex-only')
