from sa.selftest import V

G = 'edb/edgeql/codegen.py'
E = 'edb.edgeql.codegen.EdgeQLSourceGenerator.'
SDL = 'edb/edgeql/parser/grammar/sdl.py'
EXPR = 'edb/edgeql/parser/grammar/expressions.py'

# reverted fixes
V('C01', 'revert-for-optional', G, E + 'visit_ForQuery',
  "        if node.optional:\n            self._write_keywords('OPTIONAL ')\n", '', 'C01.R2', 'ForQuery.optional')
V('C01', 'revert-force', G, E + '_visit_branch_options',
  "        if node.force:\n            self._write_keywords(' FORCE')", '        pass', 'C01.R2', 'DropDatabase.force')
V('C01', 'revert-drop-ext-version', G, E + 'visit_DropExtension',
  '''            if node.version is not None:
                self._write_keywords(' VERSION ')
                self.visit(node.version)''', '            pass', 'C01.R2', 'DropExtension.version')
V('C01', 'revert-explain-visitor', G, E + 'visit_ExplainStmt',
  'def visit_ExplainStmt(', 'def _unused_visit_ExplainStmt(', 'C01.R1', 'class=ExplainStmt')
V('C01', 'revert-sdl-subject', SDL, 'edb.edgeql.parser.grammar.sdl.ConstraintDeclarationShort.reduce_CreateConstraint',
  'subjectexpr=on_expr.val,', 'subject=on_expr.val,', 'C01.R2', 'CreateConstraint.subject')
V('C01', 'revert-group-alias', G, E + 'visit_InternalGroupQuery',
  "        if node.result_alias:\n            self.write(ident_to_str(node.result_alias), ' := ')\n", '',
  'C01.R2', 'InternalGroupQuery.result_alias')
V('C01', 'revert-repr', G, E + 'visit_Constant',
  'self.write(edgeql_quote.quote_literal(node.value))', 'self.write(repr(node.value))', 'C01.R4', 'visit_Constant')
# other breaks
V('C01', 'delete-visit-IfElse', G, E + 'visit_IfElse',
  'def visit_IfElse(', 'def visit_IfElse_disabled(', 'C01.R1', 'class=IfElse')
V('C01', 'drop-offset', G, E + '_visit_offset_limit',
  'node.offset', 'None', 'C01.R2', 'SelectQuery.offset', count=2)
V('C01', 'new-grammar-field', EXPR, 'edb.edgeql.parser.grammar.expressions.SimpleFor.reduce_ForIn',
  'optional=optional.val,', 'optional=optional.val,\n            implicit=bool(optional.val),', 'C01.R2', 'ForQuery.implicit')
V('C01', 'unbalanced-paren', G, E + 'visit_InsertQuery',
  "        if parenthesise:\n            self.write(')')", "        if parenthesise:\n            pass", 'C01.R3', 'visit_InsertQuery')
V('C01', 'unbalanced-in-branch', G, E + 'visit_Placeholder',
  "        self.write(')')", "        self.write(']')", 'C01.R3', 'visit_Placeholder')
V('C01', 'bad-keyword', G, E + 'visit_ForQuery',
  "self._write_keywords('UNION ')", "self._write_keywords('UNIONX ')", 'C01.R5', 'keyword=unionx')
V('C01', 'for-group-drops-filter', G, E + 'visit_InternalGroupQuery',
  '''        if node.where:
            self._write_keywords(' FILTER ')
            self.visit(node.where)
''', '', 'C01.R2', 'InternalGroupQuery.where')
V('C01', 'shape-drops-compexpr', G, E + 'visit_ShapeElement',
  'node.compexpr', 'None', 'C01.R2', 'ShapeElement.compexpr', count=3)
# negative controls
V('C01', 'neg-helper-extracted', G, E + 'visit_ForQuery',
  "        self.write(ident_to_str(node.iterator_alias))", "        alias = node.iterator_alias\n        self.write(ident_to_str(alias))", None)
V('C01', 'neg-extra-parens-balanced', G, E + 'visit_Placeholder',
  "        self.write(node.name)", "        self.write('(')\n        self.write(node.name)\n        self.write(')')", None)

V('C01', 'pointer-decision-before-bases', 'edb/edgeql/codegen.py', 'edb.edgeql.codegen.EdgeQLSourceGenerator.visit_CreateLink',
  '''        node = self._ddl_add_pointer_bases(node)
''', '''        _n_cmds = len(node.commands)
        node = self._ddl_add_pointer_bases(node)
''', 'C01.R7', 'visit_CreateLink:_ddl_add_pointer_bases')
V('C01', 'interp-suffix-unescaped', 'edb/edgeql/codegen.py', 'edb.edgeql.codegen.EdgeQLSourceGenerator.visit_StrInterp',
  '            self.write(edgeql_quote.escape_string(fragment.suffix))', '            self.write(fragment.suffix)', 'C01.R8', 'visit_StrInterp:escaped-between-quotes')
V('C01', 'for-iterator-loses-parens', 'edb/edgeql/codegen.py', 'edb.edgeql.codegen.EdgeQLSourceGenerator._needs_parentheses',
  '                and not parent.has_union\n                and parent.result is node\n', '                and not parent.has_union\n', 'C01.R6', 'ForQuery:names-the-child')
V('C01', 'rewritten-copy-only-handed-on', 'edb/edgeql/codegen.py', 'edb.edgeql.codegen.EdgeQLSourceGenerator.visit_CreateConcretePointer',
  '        node = self._ddl_add_pointer_bases(node)\n', '        _rewritten = self._ddl_add_pointer_bases(node)\n', 'C01.R7', 'visit_CreateConcretePointer:_ddl_add_pointer_bases')
V('C01', 'neg-bytes-escape-inline', 'edb/edgeql/codegen.py', 'edb.edgeql.codegen.EdgeQLSourceGenerator.visit_BytesConstant',
  '''        val = _BYTES_ESCAPE_RE.sub(_bytes_escape, node.value)
        self.write("b'", val.decode('utf-8', 'backslashreplace'), "'")''', '''        self.write("b'")
        self.write(_BYTES_ESCAPE_RE.sub(_bytes_escape, node.value).decode('utf-8', 'backslashreplace'))
        self.write("'")''', None)
V('C01', 'revert-required-cast', 'edb/edgeql/codegen.py', 'edb.edgeql.codegen.EdgeQLSourceGenerator.visit_TypeCast',
  "        elif node.cardinality_mod is qlast.CardinalityModifier.Required:\n            self.write('required ')\n", '', 'C01.R9', 'visit_TypeCast:cardinality_mod')
V('C01', 'revert-left-operand-parens', 'edb/edgeql/codegen.py', 'edb.edgeql.codegen.EdgeQLSourceGenerator.visit_BinOp',
  '        self._visit_left_operand(node.left)\n', '        self.visit(node.left)\n', 'C01.R10', 'visit_BinOp:left-operand')
V('C01', 'revert-database-template', 'edb/edgeql/codegen.py', 'edb.edgeql.codegen.EdgeQLSourceGenerator.visit_CreateDatabase',
  '''            if node.template is not None:

                def after_name() -> None:
                    self._write_keywords(' FROM ')
                    assert node.template
                    self.visit(node.template)
                self._visit_CreateObject(
                    node, 'DATABASE', after_name=after_name)
            else:
                self._visit_CreateObject(node, 'DATABASE')''', '''            self._visit_CreateObject(node, 'DATABASE')''', 'C01.R2', 'CreateDatabase.template@production')
V('C01', 'revert-detached-parens', 'edb/edgeql/codegen.py', 'edb.edgeql.codegen.EdgeQLSourceGenerator.visit_DetachedExpr',
  '''        parenthesize = (
            isinstance(node.expr, qlast.Path) and len(node.expr.steps) > 1
        )
        if parenthesize:
            self.write('(')
        self.visit(node.expr)
        if parenthesize:
            self.write(')')''', '        self.visit(node.expr)', 'C01.R10', 'visit_DetachedExpr:path-operand')
V('C01', 'keyword-prefix-ops-left-bare', 'edb/edgeql/codegen.py', 'edb.edgeql.codegen.EdgeQLSourceGenerator._visit_left_operand',
  '        if isinstance(node, qlast.UnaryOp):', '        if isinstance(node, qlast.UnaryOp) and not str(node.op).isalnum():', 'C01.R10', 'left-operand')
V('C01', 'if-not-exists-before-extending', 'edb/edgeql/codegen.py', 'edb.edgeql.codegen.EdgeQLSourceGenerator._visit_CreateObject',
  '''        if after_name:
            after_name()
        if node.create_if_not_exists and not self.sdlmode:
            self._write_keywords(' IF NOT EXISTS')
''', '''        if node.create_if_not_exists and not self.sdlmode:
            self._write_keywords(' IF NOT EXISTS')
        if after_name:
            after_name()
''', 'C01.R11', 'extending-before-if-not-exists')

# round 4
CG = 'edb/edgeql/codegen.py'
V('C01', 'revert-fix-savepoint-name-raw', CG,
  'edb.edgeql.codegen.EdgeQLSourceGenerator.visit_DeclareSavepoint',
  'self.write(ident_to_str(node.name))', 'self.write(node.name)', 'C01.R12',
  'visit_DeclareSavepoint:name-quoted')
V('C01', 'savepoint-name-through-keyword-writer', CG,
  'edb.edgeql.codegen.EdgeQLSourceGenerator.visit_ReleaseSavepoint',
  "        self._write_keywords('RELEASE SAVEPOINT ')\n        self.write(ident_to_str(node.name))\n",
  "        self._write_keywords('RELEASE SAVEPOINT', ident_to_str(node.name))\n",
  'C01.R5', 'keyword-writer-gets-data')
V('C01', 'revert-fix-reset-schema-formats-object', CG,
  'edb.edgeql.codegen.EdgeQLSourceGenerator.visit_ResetSchema',
  "        self._write_keywords('RESET SCHEMA TO ')\n        self.visit(node.target)\n",
  "        self._write_keywords(f'RESET SCHEMA TO {node.target}')\n",
  'C01.R5', 'keyword-writer-gets-data')
V('C01', 'revert-fix-alter-cast-fused', CG,
  'edb.edgeql.codegen.EdgeQLSourceGenerator.visit_AlterCast',
  "self._write_keywords(' FROM ')", "self._write_keywords('FROM ')",
  'C01.R13', 'visit_AlterCast:separator-after-keywords')
V('C01', 'revert-fix-index-match-fused', CG,
  'edb.edgeql.codegen.EdgeQLSourceGenerator.visit_CreateIndexMatch',
  "            self.write(' ')\n            self.visit(node.valid_type)",
  "            self.visit(node.valid_type)",
  'C01.R13', 'visit_CreateIndexMatch:separator-after-keywords')
# negative control: the separator written through the keyword writer
V('C01', 'nc-index-match-separator-as-keyword-space', CG,
  'edb.edgeql.codegen.EdgeQLSourceGenerator.visit_DropIndexMatch',
  "            self.write(' ')\n            self.visit(node.valid_type)",
  "            self._write_keywords(' ')\n            self.visit(node.valid_type)",
  None)

# round 5: the stored seeded breaks this property's check reports, replayed as variants
from sa.selftest import VP  # noqa
VP('C01', 'C01-e3', 'C01.R12', 'name-quoted')
VP('C01', 'C01-f1', 'C01.R14', 'all-means-every-member')
