from sa.selftest import V

N = 'edb/edgeql/compiler/normalization.py'
E = 'edb/schema/expr.py'
G = 'edb/edgeql/codegen.py'
D = 'edb/schema/ddl.py'
M = 'edb.edgeql.compiler.normalization.'

V('C03', 'skip-where', N, M + 'normalize_SelectQuery',
  "skip=('aliases', 'result'),", "skip=('aliases', 'result', 'where'),", 'C03.R2', 'normalize_SelectQuery')
V('C03', 'for-iterator-skipped-unhandled', N, M + 'normalize_ForQuery',
  "skip=('aliases', 'iterator'),", "skip=('aliases', 'iterator', 'result'),", 'C03.R2', 'normalize_ForQuery')
V('C03', 'generic-ignores-lists', N, M + '_normalize_recursively',
  'elif isinstance(value, (tuple, list)):', 'elif isinstance(value, tuple) and False:', 'C03.R2', '_normalize_recursively')
V('C03', 'generic-skips-half', N, M + 'normalize_generic',
  'if field not in skip:', "if field not in skip and not field.startswith('w'):", 'C03.R2', 'normalize_generic')
V('C03', 'print-before-normalise', E, 'edb.schema.expr.Expression.from_ast',
  '''        if not as_fragment:
            qlcompiler.normalize(
                qltree,
                schema=schema,
                modaliases=modaliases,
                localnames=localnames
            )

        norm_text = qlcodegen.generate_source(qltree, pretty=False)
''', '''        norm_text = qlcodegen.generate_source(qltree, pretty=False)
        if not as_fragment:
            qlcompiler.normalize(
                qltree,
                schema=schema,
                modaliases=modaliases,
                localnames=localnames
            )
''', 'C03.R5', 'normalise-then-print')
V('C03', 'sdl-printer-drops-field', G, 'edb.edgeql.codegen.EdgeQLSourceGenerator._visit_index_def' if False else 'edb.edgeql.codegen.EdgeQLSourceGenerator.visit_CreateAccessPolicy',
  'node.condition', 'None', 'C03.R3sdl', 'CreateAccessPolicy.condition', count=2)
V('C03', 'second-printer', D, 'edb.schema.ddl.sdl_text_from_delta',
  'return text_from_delta(schema_a, schema_b, delta, sdlmode=True)', "return '\\n'.join(str(c) for c in delta.get_subcommands())", 'C03.R4', 'sdl_text_from_delta')
V('C03', 'readonly-not-settable', 'edb/schema/pointers.py', 'edb.schema.pointers.Pointer',
  '''    readonly = so.SchemaField(
        bool,
        allow_ddl_set=True,''', '''    readonly = so.SchemaField(
        bool,''', 'C03.R1', 'Pointer.readonly')
V('C03', 'neg-rename-handler-local', N, M + 'normalize_SelectQuery',
  '    # Process the result expression\n', '    # Process the result expression (may define an alias)\n', None)

N = 'edb/edgeql/compiler/normalization.py'
V('C03', 'alias-visible-in-own-definition', N, 'edb.edgeql.compiler.normalization._normalize_with_block',
  '''            normalize(
                alias.expr,
                schema=schema,
                modaliases=modaliases,
                localnames=localnames,
            )
            newaliases.append(alias)
            localnames = {alias.alias} | localnames
''', '''            localnames = {alias.alias} | localnames
            normalize(
                alias.expr,
                schema=schema,
                modaliases=modaliases,
                localnames=localnames,
            )
            newaliases.append(alias)
''', 'C03.R2', '_normalize_with_block:definition-before-alias')
V('C03', 'pointer-decision-before-bases', 'edb/edgeql/codegen.py', 'edb.edgeql.codegen.EdgeQLSourceGenerator.visit_CreateConcretePointer',
  '''        node = self._ddl_add_pointer_bases(node)

''', '''        _pure = len(node.commands) == 0
        node = self._ddl_add_pointer_bases(node)

''', 'C03.R3ddl', 'visit_CreateConcretePointer:_ddl_add_pointer_bases')
V('C03', 'index-except-dep-from-on-expr', 'edb/edgeql/declarative.py', 'edb.edgeql.declarative.trace_Index',
  'exprs.append(ExprDependency(expr=node.except_expr))', 'exprs.append(ExprDependency(expr=node.expr))', 'C03.R6', 'CreateConcreteIndex.except_expr')
V('C03', 'special-syntax-by-command-class', 'edb/schema/delta.py', 'edb.schema.delta.AlterObjectProperty._get_ast',
  'and isinstance(parent_node, qlast.AlterObject)', 'and isinstance(parent_op, AlterObject)', 'C03.R1', 'AlterObjectProperty._get_ast:predicate')
V('C03', 'lint-localnames-not-forwarded', N, 'edb.edgeql.compiler.normalization._normalize_recursively',
  '''        normalize(
            value,
            schema=schema,
            modaliases=modaliases,
            localnames=localnames,
        )''', '''        normalize(
            value,
            schema=schema,
            modaliases=modaliases,
        )''', 'C03.L', 'slips:option-forwarding')
V('C03', 'constraint-table-never-filled', 'edb/edgeql/declarative.py', 'edb.edgeql.declarative._trace_item_layout',
  '            ctx.constraints[fq_name].add(con_name)\n', '', 'C03.R7', 'DepTraceContext.constraints:filled')
V('C03', 'old-value-defaulted', 'edb/schema/delta.py', 'edb.schema.delta.ObjectCommand._apply_fields_ast',
  '                        fop.old_value != new_value\n', '                        (fop.old_value if fop.old_value is not None else field.get_default()) != new_value\n', 'C03.R7', 'old-value-as-recorded')

# round 4
V('C03', 'union-types-dropped-before-sort', 'edb/schema/ddl.py',
  'edb.schema.ddl.delta_schemas',
  '''    if linearize_delta:
        objects = s_ordering.linearize_delta(
            objects, old_schema=schema_a, new_schema=schema_b)
''', '''    for cmd in list(objects.get_subcommands()):
        if isinstance(cmd, s_objtypes.CreateObjectType):
            if schema_b.get(cmd.classname).is_union_type(schema_b):
                objects.discard(cmd)
    if linearize_delta:
        objects = s_ordering.linearize_delta(
            objects, old_schema=schema_a, new_schema=schema_b)
''', 'C03.R8', 'union-types-dropped-after-sorting')
V('C03', 'array-shell-forgets-element-name', 'edb/schema/utils.py',
  'edb.schema.utils.shell_to_ast',
  '''        result = qlast.TypeName(
            name=_name,
            maintype=qlast.ObjectRef(
                name='array',
            ),''', '''        result = qlast.TypeName(
            maintype=qlast.ObjectRef(
                name='array',
            ),''', 'C03.R8', 'carries-name')
V('C03', 'std-annotation-unqualified', 'edb/schema/annos.py',
  'edb.schema.annos.AnnotationValueCommand._deparse_name',
  '        ref.itemclass = None\n',
  "        ref.itemclass = None\n        if ref.module == 'std':\n            ref.module = None\n",
  'C03.R8', 'keeps-module')
