from sa.selftest import V

R = 'edb/pgsql/compiler/relctx.py'
D = 'edb/pgsql/compiler/dml.py'
E = 'edb/pgsql/compiler/expr.py'
K = 'edb/pgsql/compiler/clauses.py'
G = 'edb/pgsql/codegen.py'

V('C13', 'uuid-alias', R, 'edb.pgsql.compiler.relctx.rvar_for_rel',
  'def rvar_for_rel(', 'def _rand_alias():\n    import uuid\n    return str(uuid.uuid4())\n\n\ndef rvar_for_rel(', 'C13.R1', 'uuid')
V('C13', 'time-in-compiler', K, 'edb.pgsql.compiler.clauses.populate_argmap',
  '    physical_index = 1\n', '    physical_index = 1\n    import time\n    _t = time.time()\n', 'C13.R1', 'time.time')
V('C13', 'revert-fix-set-rewrites', D, 'edb.pgsql.compiler.dml.process_insert_rewrites',
  '''    not_rewritten = [
        (e, ptrref) for e, ptrref in elements
        if ptrref.shortname.name not in handled
    ]''', '''    not_rewritten = {
        (e, ptrref) for e, ptrref in elements
        if ptrref.shortname.name not in handled
    }''', 'C13.R2', 'process_insert_rewrites:iter=not_rewritten')
V('C13', 'dictview-algebra-loop', R, 'edb.pgsql.compiler.relctx.update_scope_masks',
  'def update_scope_masks(', 'def _emit_common(a, b, out):\n    for p in a.keys() & b.keys():\n        out.append(p)\n\n\ndef update_scope_masks(',
  'C13.R2', '_emit_common')
V('C13', 'set-of-names-loop', D, 'edb.pgsql.compiler.dml.process_insert_rewrites',
  '    for e, ptrref in not_rewritten:', '    names = set(p.shortname.name for _, p in not_rewritten)\n    for _nm in names:\n        pass\n    for e, ptrref in not_rewritten:',
  'C13.R2', 'iter=names')
V('C13', 'paramref-from-len', E, 'edb.pgsql.compiler.expr.compile_Parameter',
  'index = ctx.argmap[expr.name].index', 'index = len(ctx.argmap)', 'C13.R3', 'compile_Parameter:ParamRef')
V('C13', 'argmap-index-constant', K, 'edb.pgsql.compiler.clauses.populate_argmap',
  '''        ctx.argmap[param.name] = pgast.Param(
            index=physical_index,
            required=param.required,
            logical_index=-1,''', '''        ctx.argmap[param.name] = pgast.Param(
            index=len(ctx.argmap),
            required=param.required,
            logical_index=-1,''', 'C13.R3', 'populate_argmap:index')
V('C13', 'counter-skips', K, 'edb.pgsql.compiler.clauses.populate_argmap',
  '    physical_index = 1\n', '    physical_index = 0\n', 'C13.R3', 'populate_argmap:counter')
V('C13', 'foreign-argmap-writer', E, 'edb.pgsql.compiler.expr.compile_Parameter',
  'index = ctx.argmap[expr.name].index', 'ctx.argmap[expr.name] = ctx.argmap[expr.name]\n        index = ctx.argmap[expr.name].index', 'C13.R3', 'argmap-writer')
V('C13', 'alias-from-id', 'edb/common/compiler.py', 'edb.common.compiler.AliasGenerator.get',
  'idx = self.nextval(hint)', 'idx = id(self) % 1000', 'C13.R4', 'AliasGenerator.get')
V('C13', 'printer-drops-where', G, 'edb.pgsql.codegen.SQLSourceGenerator.visit_DeleteStmt',
  'node.where_clause', 'None', 'C13.R5', 'DeleteStmt.where_clause', count=2)
V('C13', 'neg-sorted-set-loop', D, 'edb.pgsql.compiler.dml.process_insert_rewrites',
  '    for e, ptrref in not_rewritten:', '    names = set(p.shortname.name for _, p in not_rewritten)\n    for _nm in sorted(names):\n        pass\n    for e, ptrref in not_rewritten:', None)

V('C13', 'type-ctes-before-ptr-ctes', 'edb/pgsql/compiler/clauses.py', 'edb.pgsql.compiler.clauses.insert_ctes',
  '        *ctx.ptr_inheritance_ctes.values(),\n        *ctx.ordered_type_ctes,\n', '        *ctx.ordered_type_ctes,\n        *ctx.ptr_inheritance_ctes.values(),\n',
  'C13.R6', 'ptr_inheritance_ctes<ordered_type_ctes')
V('C13', 'rewrite-cte-listed-before-body', 'edb/pgsql/compiler/relctx.py', 'edb.pgsql.compiler.relctx.range_for_material_objtype',
  '''                    ctx.type_rewrite_ctes[key] = type_cte
                    ctx.ordered_type_ctes.append(type_cte)
''', '''                    ctx.type_rewrite_ctes[key] = type_cte
''', 'C13.R6', 'type_rewrite_ctes-listed')
V('C13', 'grouping-atoms-plain-set', 'edb/edgeql/desugar_group.py', 'edb.edgeql.desugar_group.collect_grouping_atoms',
  'atoms: ordered.OrderedSet[str] = ordered.OrderedSet()', 'atoms: set[str] = set()', 'C13.R2', '_compile_grouping_value:iter=used_args')
# negative control: params first or last does not matter for scope
V('C13', 'neg-param-ctes-after-ptr', 'edb/pgsql/compiler/clauses.py', 'edb.pgsql.compiler.clauses.insert_ctes',
  '        *ctx.param_ctes.values(),\n        *ctx.ptr_inheritance_ctes.values(),\n', '        *ctx.ptr_inheritance_ctes.values(),\n        *ctx.param_ctes.values(),\n', None)

V('C13', 'overlay-stack-not-lateral', 'edb/pgsql/compiler/relctx.py', 'edb.pgsql.compiler.relctx.range_for_material_objtype',
  '''            typeref.name_hint,
            lateral=lateral,
            path_id=path_id,
            typeref=typeref,
            tag='overlay-stack',''', '''            typeref.name_hint,
            path_id=path_id,
            typeref=typeref,
            tag='overlay-stack',''', 'C13.R7', 'range_for_material_objtype->range_from_queryset:lateral')
V('C13', 'detached-params-without-globals', 'edb/pgsql/compiler/__init__.py', 'edb.pgsql.compiler.compile_ir_to_sql_tree',
  '                for param in ctx.env.query_params\n', '                for param in query_params\n', 'C13.R7', 'detached-params-cover-argmap')
V('C13', 'overlay-merge-through-set', 'edb/pgsql/compiler/dml.py', 'edb.pgsql.compiler.dml.merge_overlays_globally',
  '''            n_els = (
                type_overlay.get(k, ()) + tuple(e for e in v if e not in els)
            )''', '''            n_els = type_overlay.get(k, ()) + tuple(set(v) - els)''', 'C13.R2', 'merge_overlays_globally:iter=set(v) - els')
V('C13', 'setop-cleanup-unmapped-key', 'edb/pgsql/compiler/pathctx.py', 'edb.pgsql.compiler.pathctx._get_path_var_in_setop',
  '''            new_path_id = map_path_id(path_id, subrel.view_path_id_map)
            del subrel.path_outputs[new_path_id, aspect]''', '''            subrel.path_outputs.pop((path_id, aspect), None)''', 'C13.R8', '_get_path_var_in_setop:arm-key')
V('C13', 'unused-params-skip-components', 'edb/pgsql/compiler/clauses.py', 'edb.pgsql.compiler.clauses.fini_toplevel',
  'if pgparam.index in used or param.sub_params:', 'if pgparam.index in used or param.is_sub_param:', 'C13.R8', 'fini_toplevel:unused-params-skip')
V('C13', 'packed-rvar-map-shared-default', 'edb/pgsql/ast.py', None,
  '''    path_packed_rvar_map: typing.Optional[typing.Dict[
        typing.Tuple[irast.PathId, PathAspect],
        PathRangeVar,
    ]] = None
''', '''    path_packed_rvar_map: typing.Dict[
        typing.Tuple[irast.PathId, PathAspect], PathRangeVar
    ] = {}
''', 'C13.R8', 'tree-nodes:no-shared-mutable-default')
V('C13', 'neg-copy-option-default-never-mutated', 'edb/pgsql/ast.py', None,
  '    encoding: typing.Optional[str] = None\n', '    encoding: typing.Optional[str] = None\n    extra_names: typing.List[str] = []\n', None)

# round 4
V('C13', 'revert-fix-path-bonds-plain-set', 'edb/pgsql/ast.py', None,
  '''    path_bonds: ordered.OrderedSet[tuple[irast.PathId, bool]] = ast.field(
        factory=ordered.OrderedSet)''',
  '''    path_bonds: typing.Set[tuple[irast.PathId, bool]] = ast.field(factory=set)''',
  'C13.R2', 'path_bonds')
V('C13', 'unqualified-join-as-second-from-item', 'edb/pgsql/compiler/relctx.py',
  'edb.pgsql.compiler.relctx._plain_join',
  '''    else:
        larg = query.from_clause[0]
        rarg = right_rvar
''', '''    elif condition is None:
        query.from_clause.append(right_rvar)
    else:
        larg = query.from_clause[0]
        rarg = right_rvar
''', 'C13.R9', 'single-join-tree')
V('C13', 'newrel-inherits-path-scope', 'edb/pgsql/compiler/context.py',
  'edb.pgsql.compiler.context.CompilerContextLevel.__init__',
  '                self.path_scope = collections.ChainMap()\n                self.rel_hierarchy = {}\n                self.scope_tree = prevlevel.scope_tree.root',
  '                self.path_scope = prevlevel.path_scope.new_child()\n                self.rel_hierarchy = {}\n                self.scope_tree = prevlevel.scope_tree.root',
  'C13.R9', 'newrel-empty-path-scope')

# round 5: the stored seeded breaks this property's check reports, replayed as variants
from sa.selftest import VP  # noqa
VP('C13', 'C13-e3', 'C13.R10', 'oparams-index')
