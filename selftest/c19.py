from sa.selftest import V

O = 'edb/server/config/ops.py'
I = 'edb/server/config/__init__.py'
P = 'edb/pgsql/compiler/config.py'
S = 'edb/ir/staeval.py'
OP = 'edb.server.config.ops.'

V('C19', 'write-before-validate', O, OP + 'Operation.apply',
  '''        if self.scope != qltypes.ConfigScope.GLOBAL:
            setting = self.get_setting(spec)
            value = self.coerce_value(
                spec, setting, allow_missing=allow_missing)
        else:
            setting = None
            value = self.coerce_global_value(allow_missing=allow_missing)

        if self.opcode is OpCode.CONFIG_SET:''',
  '''        if self.opcode is OpCode.CONFIG_RESET:
            try:
                storage = storage.delete(self.setting_name)
            except KeyError:
                pass

        if self.scope != qltypes.ConfigScope.GLOBAL:
            setting = self.get_setting(spec)
            value = self.coerce_value(
                spec, setting, allow_missing=allow_missing)
        else:
            setting = None
            value = self.coerce_global_value(allow_missing=allow_missing)

        if self.opcode is OpCode.CONFIG_SET:''', 'C19.R1', 'write@')
V('C19', 'rem-arm-deleted', O, OP + 'Operation.apply',
  'elif self.opcode is OpCode.CONFIG_REM:', 'elif False:', 'C19.R2', 'opcode=CONFIG_REM')
V('C19', 'lookup-reversed', I, 'edb.server.config.lookup',
  'for c in configs:', 'for c in reversed(configs):', 'C19.R3', 'iterates-in-given-order')
V('C19', 'lookup-last-wins', I, 'edb.server.config.lookup',
  '''        else:
            return setting_value.value
    else:
        return setting.default''', '''        else:
            found = setting_value.value
    else:
        return setting.default''', 'C19.R3', 'first-hit-wins')
V('C19', 'compiler-lookup-order', 'edb/server/compiler/compiler.py', 'edb.server.compiler.compiler._get_config_val',
  '''        current_tx.get_session_config(),
        current_tx.get_database_config(),''', '''        current_tx.get_database_config(),
        current_tx.get_session_config(),''', 'C19.R3', 'most-specific-first')
V('C19', 'json-key-renamed', O, OP + 'to_json_obj',
  "'value': val,", "'val': val,", 'C19.R4', 'keys')
V('C19', 'row-order-swapped', P, 'edb.pgsql.compiler.config.compile_ConfigSet',
  '''    elif op.scope is qltypes.ConfigScope.INSTANCE:
        result_row = pgast.RowExpr(
            args=[
                pgast.StringConstant(val='SET'),
                pgast.StringConstant(val=str(op.scope)),
                pgast.StringConstant(val=op.name),''',
  '''    elif op.scope is qltypes.ConfigScope.INSTANCE:
        result_row = pgast.RowExpr(
            args=[
                pgast.StringConstant(val='SET'),
                pgast.StringConstant(val=op.name),
                pgast.StringConstant(val=str(op.scope)),''', 'C19.R4', 'compile_ConfigSet:row')
V('C19', 'reset-emits-add', P, 'edb.pgsql.compiler.config.compile_ConfigReset',
  "pgast.StringConstant(val='REM'),", "pgast.StringConstant(val='ADD'),", 'C19.R4', 'compile_ConfigReset:row')
V('C19', 'memory-case-dropped', O, OP + 'value_from_json_value',
  '''        elif _issubclass(setting.type, statypes.ConfigMemory):
            return statypes.ConfigMemory(value)
''', '', 'C19.R5', 'value_from_json_value:kind=ConfigMemory')
V('C19', 'add-without-uniqueness', O, OP + 'Operation.apply',
  '''            new_value = _check_object_set_uniqueness(
                setting, list(exist_value) + [value])''', '''            new_value = frozenset(list(exist_value) + [value])''',
  'C19.R6', 'Operation.apply:ADD')
V('C19', 'rem-adds', O, OP + 'Operation.apply',
  'new_value = exist_value - {value}', 'new_value = exist_value | {value}', 'C19.R6', 'Operation.apply:REM')
V('C19', 'reset-sets-default', O, OP + 'Operation.apply',
  '''            try:
                storage = storage.delete(self.setting_name)
            except KeyError:
                pass
''', '''            storage = self._set_value(storage, None, source=source)
''', 'C19.R6', 'Operation.apply:RESET')
V('C19', 'set-allows-missing', O, OP + 'Operation.apply',
  '''            self.opcode is OpCode.CONFIG_REM
            or self.opcode is OpCode.CONFIG_RESET''', '''            self.opcode is OpCode.CONFIG_REM
            or self.opcode is OpCode.CONFIG_RESET
            or self.opcode is OpCode.CONFIG_SET''', 'C19.R6', 'allow_missing')
V('C19', 'staeval-reset-as-set', S, 'edb.ir.staeval.evaluate_config_reset',
  'opcode=config.OpCode.CONFIG_RESET,', 'opcode=config.OpCode.CONFIG_SET,', 'C19.R7', 'ConfigReset')
V('C19', 'staeval-filtered-reset-ok', S, 'edb.ir.staeval.evaluate_config_reset',
  'if ir.selector is not None:', 'if False:', 'C19.R7', 'filtered-raises')
V('C19', 'set-value-other-name', O, OP + 'Operation._set_value',
  '            self.setting_name,\n', '            source,\n', 'C19.R2', 'stores-own-setting')
# negative controls
V('C19', 'neg-local-rename', I, 'edb.server.config.lookup',
  'setting_value', 'sv', None, count=2)
V('C19', 'neg-json-extra-key', O, OP + 'to_json_obj',
  "'name': name,", "'name': name,\n                    'version': 1,", None)

V('C19', 'size-limit-only-on-set', 'edb/server/config/ops.py', 'edb.server.config.ops._check_object_set_uniqueness',
  '''    if len(new_values) > MAX_CONFIG_SET_SIZE:
        raise errors.ConfigurationError(
            f'invalid value for the '
            f'{setting.name!r} setting: set is too large')

''', '', 'C19.R8', '_check_object_set_uniqueness:size-limit')
V('C19', 'fields-before-tname', 'edb/server/config/types.py', 'edb.server.config.types.CompositeConfigType.from_pyvalue',
  '''        data = dict(data)
        tname = data.pop('_tname', None)
        if tname is not None:
            tspec = spec.get_type_by_name(tname)
        assert tspec

        fields = tspec.fields
''', '''        assert tspec
        fields = tspec.fields

        data = dict(data)
        tname = data.pop('_tname', None)
        if tname is not None:
            tspec = spec.get_type_by_name(tname)
''', 'C19.R8', 'tspec-after-_tname')
V('C19', 'falsy-config-fields-dropped', 'edb/schema/utils.py', 'edb.schema.utils.const_ast_from_python',
  '                if not (typ.secret and not with_secrets) and not typ.protected\n', '                if not (typ.secret and not with_secrets) and not typ.protected\n                if getattr(val, ptr)\n', 'C19.R8', 'composite-fields-kept')
V('C19', 'neg-none-fields-skipped', 'edb/schema/utils.py', 'edb.schema.utils.const_ast_from_python',
  '                if not (typ.secret and not with_secrets) and not typ.protected\n', '                if not (typ.secret and not with_secrets) and not typ.protected\n                if getattr(val, ptr) is not None or True\n', None)
V('C19', 'multi-setting-falsy-element-dropped', 'edb/ir/staeval.py', 'edb.ir.staeval.evaluate_config_set',
  '        if value is None:\n', '        if not value:\n', 'C19.R9', 'evaluate_config_set:empty-only-for-None')
V('C19', 'chained-spec-type-by-setting-membership', 'edb/server/config/spec.py', 'edb.server.config.spec.ChainedSpec.get_type_by_name',
  '''        try:
            return self._top.get_type_by_name(name)
        except KeyError:
            return self._base.get_type_by_name(name)''', '''        if name in self._top:
            return self._top.get_type_by_name(name)
        else:
            return self._base.get_type_by_name(name)''', 'C19.R9', 'ChainedSpec.get_type_by_name:routes-by-type-table')
V('C19', 'iso-fraction-sign-from-int-seconds', 'edb/ir/statypes.py', 'edb.ir.statypes.Duration._parse_iso8601',
  '            value += int(ms) * secsign\n', "            value += int(ms) if int(m['seconds'] or 0) * secsign >= 0 else -int(ms)\n", 'C19.R9', 'fraction-sign-from-text')

# round 4
V('C19', 'from-json-drops-defaults', 'edb/server/config/ops.py',
  'edb.server.config.ops.from_json',
  '''            mm[key] = SettingValue(''',
  '''            if value['value'] == setting.default:
                continue
            mm[key] = SettingValue(''', 'C19.R10', 'every-known-entry-installed')
V('C19', 'config-object-eq-by-spec-identity', 'edb/server/config/types.py',
  'edb.server.config.types.CompositeConfigType.__eq__',
  'self._tspec != rhs._tspec', 'self._tspec is not rhs._tspec', 'C19.R10',
  '__eq__:by-value')
V('C19', 'revert-fix-memory-not-rendered', 'edb/schema/utils.py',
  'edb.schema.utils.const_ast_from_python',
  '    elif isinstance(val, statypes.ConfigMemory):', '    elif False:', 'C19.R5',
  'const_ast_from_python:kind=ConfigMemory')

# round 5: the stored seeded breaks this property's check reports, replayed as variants
from sa.selftest import VP  # noqa
VP('C19', 'C19-e2', 'C19.L', 'cache-key-equality')
VP('C19', 'C19-e3', 'C19.R11', 'unit=EiB')
VP('C19', 'C19-f1', 'C19.R12', 'source-describes-the-operation')
VP('C19', 'C19-f2', 'C19.R13', 'later-scope-wins')
VP('C19', 'C19-f3', 'C19.R14', 'payload-not-consumed')
