from sa.selftest import V

F = 'edb/server/connpool/pool.py'
P = 'edb.server.connpool.pool.'

# the two repaired defects, reverted
V('C15', 'revert-fix-transfer', F, P + 'BasePool._transfer',
  '''        try:
            await self._disconnect(from_conn, from_block)
        except Exception:''',
  '''        try:
            await self._disconnect(from_conn, from_block)
        except KeyError:''', 'C15.R1', '_transfer')
V('C15', 'connect-handler-keeps-slot', F, P + 'BasePool._connect',
  '            self._cur_capacity -= 1\n', '            pass\n', 'C15.R1', '_connect')
V('C15', 'disconnect-no-finally', F, P + 'BasePool._disconnect',
  '''        else:
            self._successful_disconnects += 1
        finally:
            self._cur_capacity -= 1''',
  '''        else:
            self._successful_disconnects += 1
            self._cur_capacity -= 1''', 'C15.R1', '_disconnect')
V('C15', 'connect-pending-not-finally', F, P + 'BasePool._connect',
  '''        finally:
            ended_at = time.monotonic()
            self._conntime_avg.add(ended_at - started_at)
            block.pending_conns -= 1
''', '''        ended_at = time.monotonic()
        self._conntime_avg.add(ended_at - started_at)
        block.pending_conns -= 1
''', 'C15.R1', '_connect')
V('C15', 'transfer-forgets-cap', F, P + 'BasePool._transfer',
  '        self._cur_capacity += 1\n', '', 'C15.R1', '')
V('C15', 'schedule-transfer-no-pending', F, P + 'BasePool._schedule_transfer',
  '        to_block.pending_conns += 1\n', '', 'C15.R1', '')
V('C15', 'discard-without-disconnect', F, P + 'BasePool._discard_conn',
  '        await self._disconnect(conn, block)\n', '', 'C15.R4', 'conns.pop->disconnect')
V('C15', 'rebalance-unguarded', F, P + 'Pool._maybe_rebalance',
  '''                    block.count_conns() < quota and
                    self._cur_capacity < self._max_capacity
''', '''                    block.count_conns() < quota
''', 'C15.R2', '_maybe_rebalance')
V('C15', 'acquire-stale-room', F, P + 'Pool._acquire',
  '''        if not block_nconns:
            # This is a block without any connections.
            # Request one of the next released connections to be
            # reallocated for this block.
            if not self._try_steal_conn(block):
                self._new_blocks_waitlist[block] = True
''', '''        if not block_nconns:
            self._schedule_new_conn(block)
''', 'C15.R2', '_acquire')
V('C15', 'release-discard-without-discard', F, P + 'Pool.release',
  '''                self._schedule_discard(block, conn)
                self._schedule_new_conn(block)''',
  '''                self._schedule_new_conn(block)
                self._release_unused(block, conn)''', 'C15.R2', 'release')
V('C15', 'foreign-writer', F, P + 'Pool._try_steal_conn',
  "                self._log_to_snapshot(\n                    dbname=block.dbname, event='conn-stolen')",
  "                for_block.pending_conns += 0", 'C15.R3', 'pending_conns')
V('C15', 'release-sets-in-use', F, P + 'Block.release',
  '        self.conns[conn].in_stack_since = time.monotonic()',
  '        self.conns[conn].in_stack_since = time.monotonic()\n        self.conns[conn].in_use = True',
  'C15.R3', 'in_use')
V('C15', 'prune-all-keeps-stack', F, P + 'Pool.prune_all_connections',
  '            block.conn_stack.clear()\n', '', 'C15.R4', 'conns.clear')
V('C15', 'release-unused-while-lent', F, P + 'Pool.release',
  '''        conn_state.in_use = False
        conn_state.in_use_since = 0
''', '''        conn_state.in_use_since = 0
''', 'C15.R4', 'release')
V('C15', 'acquire-wrong-block', F, P + 'Pool._acquire',
  'block = self._get_block(dbname)', 'block = self._get_block(next(iter(self._blocks), dbname))',
  'C15.R5', 'block-of-dbname')
V('C15', 'connect-wrong-db', F, P + 'BasePool._connect',
  'conn = await self._connect_cb(block.dbname)', 'conn = await self._connect_cb(event)',
  'C15.R5', 'connects-to-block-db')
V('C15', 'transfer-discards-stack-conn', F, P + 'Pool._try_shrink_block',
  'if (conn := block.try_steal()) is not None:', 'if (conn := next(iter(block.conns), None)) is not None:',
  'C15.R4', 'conns.pop')
# negative controls
V('C15', 'neg-reorder-stats', F, P + 'BasePool._connect',
  '''            self._failed_connects += 1
            self._cur_capacity -= 1
''', '''            self._cur_capacity -= 1
            self._failed_connects += 1
''', None)
V('C15', 'neg-extract-local', F, P + 'Pool._maybe_rebalance',
  '            nconns = block.count_conns()\n            quota = block.quota\n',
  '            quota = block.quota\n            nconns = block.count_conns()\n', None)
V('C15', 'prune-all-keeps-conns-registered', F, P + 'Pool.prune_all_connections',
  '''            for conn in block.conns:
                coros.append(self._disconnect(conn, block))
            block.conns.clear()
''', '''            coros.extend(self._disconnect(conn, block) for conn in block.conns)
''', 'C15.R4', 'prune_all_connections:disconnect-of-unregistered')
V('C15', 'discard-closes-before-unregistering', F, P + 'BasePool._discard_conn',
  '''        block.conns.pop(conn)
        self._log_to_snapshot(
            dbname=block.dbname, event='disconnect', value=block.count_conns())
        await self._disconnect(conn, block)
''', '''        self._log_to_snapshot(
            dbname=block.dbname, event='disconnect', value=block.count_conns())
        await self._disconnect(conn, block)
        block.conns.pop(conn)
''', 'C15.R4', '_discard_conn:disconnect-of-unregistered')

# round 4
V('C15', 'retry-deferred-by-timer', 'edb/server/connpool/pool.py',
  'edb.server.connpool.pool.BasePool._connect',
  '                self._schedule_new_conn(block, event)\n',
  '                self._get_loop().call_later(0.05, self._schedule_new_conn, block, event)\n',
  'C15.R2', 'deferred=_schedule_new_conn')
V('C15', 'replacement-even-when-handed-over', 'edb/server/connpool/pool.py',
  'edb.server.connpool.pool.Pool.release',
  '''        if not (
            self._should_free_conn(block)
            and self._maybe_free_into_starving_blocks(block, conn)
        ):
            if discard:
                # Concurrent `acquire()` may be waiting to reuse the released
                # connection here - as we should discard this one, let's just
                # schedule a new one in the same block.
                self._schedule_discard(block, conn)
                self._schedule_new_conn(block)
            else:
                self._release_unused(block, conn)
''', '''        freed = (
            self._should_free_conn(block)
            and self._maybe_free_into_starving_blocks(block, conn)
        )
        if discard:
            if not freed:
                self._schedule_discard(block, conn)
            self._schedule_new_conn(block)
        elif not freed:
            self._release_unused(block, conn)
''', 'C15.R2', 'Pool.release:call=_schedule_new_conn')
# negative control: same decision with a local for the hand-over result
V('C15', 'release-with-local-flag', 'edb/server/connpool/pool.py',
  'edb.server.connpool.pool.Pool.release',
  '''        if not (
            self._should_free_conn(block)
            and self._maybe_free_into_starving_blocks(block, conn)
        ):
            if discard:''', '''        handed_over = (
            self._should_free_conn(block)
            and self._maybe_free_into_starving_blocks(block, conn)
        )
        if not handed_over:
            if discard:''', None)
# round 5: a `range` loop bounded by a fresh read of the free room is a
# capacity guard (negative control; the stale variant is seed C15-b1)
V('C15', 'nc-rebalance-range-loop-fresh-room', F, P + 'Pool._maybe_rebalance',
  '''                while (
                    block.count_conns() < quota and
                    self._cur_capacity < self._max_capacity
                ):
                    self._schedule_new_conn(block)
''', '''                room = self._max_capacity - self._cur_capacity
                for _ in range(min(quota - nconns, room)):
                    self._schedule_new_conn(block)
''', None)

# round 5: the stored seeded breaks this property's check reports, replayed as variants
from sa.selftest import VP  # noqa
VP('C15', 'C15-e1', 'C15.R2', 'call=_schedule_new_conn@0')
VP('C15', 'C15-e2', 'C15.R2', 'call=_schedule_new_conn@0')
VP('C15', 'C15-e3', 'C15.R1', 'ledger')
VP('C15', 'C15-f2', 'C15.R12', 'is-the-ledger')
