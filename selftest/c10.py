from sa.selftest import V

M = 'edb/schema/migrations.py'
CM = 'edb.schema.migrations.CreateMigration._cmd_from_ast'

V('C10', 'parent-looked-up-from-onto', M, CM,
  '        parent_migration = schema.get_last_migration()\n',
  '''        if astnode.parent is not None:
            parent_migration = schema.get_global(Migration, astnode.parent.name, None)
        else:
            parent_migration = schema.get_last_migration()
''', 'C10.R1', 'parent-is-last-migration')
V('C10', 'onto-mismatch-accepted', M, CM,
  '                if astnode_parent.name != actual_parent_name:',
  '                if False:', 'C10.R1', 'onto-mismatch-rejected')
V('C10', 'name-ignores-parent', M, CM,
  'hasher = ql_parser.Hasher.start_migration(parent_name)',
  "hasher = ql_parser.Hasher.start_migration('initial')", 'C10.R1',
  'name-covers-parent-and-script')
V('C10', 'parents-not-recorded', M, CM,
  "            cmd.set_attribute_value('parents', [parent])",
  "            pass", 'C10.R1', 'records-that-parent')
# negative control: the comparison written the other way round
V('C10', 'onto-comparison-flipped', M, CM,
  '                if astnode_parent.name != actual_parent_name:',
  '                if actual_parent_name != astnode_parent.name:', None)
V('C10', 'deleted-parameter-keeps-its-type', 'edb/schema/functions.py',
  'edb.schema.functions.DeleteParameter._delete_begin',
  '''            if op := typ.as_type_delete_if_unused(schema):
                self.add_caused(op)
''', '''            pass
''', 'C10.R2', 'Parameter.type:released')
V('C10', 'set-type-keeps-old-collection', 'edb/schema/pointers.py',
  'edb.schema.pointers.SetPointerType._alter_begin',
  'if cleanup_op := orig_target.as_type_delete_if_unused(schema):',
  'if cleanup_op := None:', 'C10.R2', 'old-target-released')
V('C10', 'array-of-non-scalar-never-cleaned-up', 'edb/schema/types.py',
  'edb.schema.types.DeleteArray._has_outside_references',
  '''        if el_type.is_scalar() and not context.is_deleting(el_type):
            return True

        return False
''', '''        return not context.is_deleting(el_type)
''', 'C10.R3', 'kept-only-for-outside-references')
# negative control: same decision as one expression
V('C10', 'array-veto-as-one-expression', 'edb/schema/types.py',
  'edb.schema.types.DeleteArray._has_outside_references',
  '''        if el_type.is_scalar() and not context.is_deleting(el_type):
            return True

        return False
''', '''        return el_type.is_scalar() and not context.is_deleting(el_type)
''', None)
V('C10', 'propagation-stops-at-children', 'edb/schema/referencing.py',
  'edb.schema.referencing.ReferencedInheritingObjectCommand._propagate_ref_op',
  'for descendant in scls.ordered_descendants(schema):',
  'for descendant in scls.children(schema):', 'C10.R4',
  'tagged-propagation-reaches-all-descendants')

# round 5: the stored seeded breaks this property's check reports, replayed as variants
from sa.selftest import VP  # noqa
VP('C10', 'C10-e1', 'C10.R5', 'other-parent')
VP('C10', 'C10-e2', 'C10.R6', 'index-fresh')
