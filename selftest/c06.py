from sa.selftest import V

C = 'edb/server/compiler/compiler.py'
E = 'edb/server/compiler/enums.py'
K = 'edb/edgeql/compiler/inference/cardinality.py'
M = 'edb/edgeql/compiler/inference/multiplicity.py'
KM = 'edb.edgeql.compiler.inference.cardinality.'
MM = 'edb.edgeql.compiler.inference.multiplicity.'

V('C06', 'reported-constant', C, 'edb.server.compiler.compiler._compile_ql_query',
  'result_cardinality = enums.cardinality_from_ir_value(ir.cardinality)', 'result_cardinality = enums.Cardinality.MANY',
  'C06.R1', 'result_cardinality')
V('C06', 'query-card-other', C, 'edb.server.compiler.compiler._compile_ql_query',
  'cardinality=result_cardinality,', 'cardinality=enums.Cardinality.MANY,', 'C06.R1', 'Query.cardinality')
V('C06', 'mapping-swapped', E, 'edb.server.compiler.enums.cardinality_from_ir_value',
  '''    if card is ir.Cardinality.AT_MOST_ONE:
        return Cardinality.AT_MOST_ONE
    elif card is ir.Cardinality.ONE:
        return Cardinality.ONE''', '''    if card is ir.Cardinality.AT_MOST_ONE:
        return Cardinality.ONE
    elif card is ir.Cardinality.ONE:
        return Cardinality.AT_MOST_ONE''', 'C06.R2', 'cardinality_from_ir_value:ONE')
V('C06', 'ptr-card-ignores-required', 'edb/server/compiler/sertypes.py', 'edb.server.compiler.sertypes.cardinality_from_ptr',
  'required = ptr.get_required(schema)', 'required = True', 'C06.R1', 'cardinality_from_ptr')
V('C06', 'delete-slice-handler', K, KM + '__infer_slice',
  '@_infer_cardinality.register\ndef __infer_slice(', 'def __infer_slice(', 'C06.R3', 'cardinality:class=SliceIndirection')
V('C06', 'delete-mult-array-handler', M, MM + '__infer_array',
  '@_infer_multiplicity.register\ndef __infer_array(', 'def __infer_array(', 'C06.R3', 'multiplicity:class=Array')
V('C06', 'no-upper-check', K, KM + '_infer_pointer_cardinality',
  'if inf_upper_bound > spec_upper_bound:', 'if False and inf_upper_bound > spec_upper_bound:', 'C06.R4', 'upper-bound')
V('C06', 'upper-check-reversed', K, KM + '_infer_pointer_cardinality',
  'if inf_upper_bound > spec_upper_bound:', 'if inf_upper_bound < spec_upper_bound:', 'C06.R4', 'upper-bound')
V('C06', 'required-not-enforced', K, KM + '_infer_pointer_cardinality',
  '''                    desc = f"computed {ptrcls.get_verbosename(env.schema)}"
                    raise errors.QueryError(
                        f"possibly an empty set returned by an "
                        f"expression for a {desc} declared as 'required'",
                        span=source_ctx,
                    )''', '''                    lower_bound = spec_lower_bound''', 'C06.R4', 'lower-bound')
V('C06', 'global-single-not-enforced', K, KM + '__infer_config_set',
  'if ir.cardinality.is_single() and not card.is_single():', 'if False:', 'C06.R4', 'global-bounds')
V('C06', 'except-keeps-lower', K, KM + '__infer_oper_call',
  '''        _lower, upper = _card_to_bounds(cards[0])
        return _bounds_to_card(CB_ZERO, upper)''', '''        _lower, upper = _card_to_bounds(cards[0])
        return _bounds_to_card(_lower, upper)''', 'C06.R5', 'std::EXCEPT')
V('C06', 'union-takes-max', K, KM + '_union_cardinality',
  'sum(lower, start=CB_ZERO), sum(upper, start=CB_ZERO))', 'max(lower), max(upper))', 'C06.R5', 'std::UNION')
V('C06', 'emptyset-one', K, KM + '__infer_empty_set',
  'return AT_MOST_ONE', 'return ONE', 'C06.R5', 'EmptySet')
V('C06', 'mult-fallthrough-unique', M, MM + '__infer_oper_call',
  '''    else:
        # Everything else.
        return DUPLICATE''', '''    else:
        # Everything else.
        return UNIQUE''', 'C06.R5', 'fall-through')
V('C06', 'distinct-passes-through', M, MM + '__infer_oper_call',
  '''        if mult[0] == EMPTY:
            return EMPTY
        else:
            return UNIQUE''', '''        return mult[0]''', 'C06.R5', 'std::DISTINCT')
# negative control
V('C06', 'neg-rename-local', K, KM + '__infer_oper_call',
  '_lower, upper = _card_to_bounds(min_cardinality(cards))', '_l, upper = _card_to_bounds(min_cardinality(cards))', None)
