from sa.selftest import V

C = 'edb/server/compiler/compiler.py'
E = 'edb/server/compiler/enums.py'
K = 'edb/edgeql/compiler/inference/cardinality.py'
M = 'edb/edgeql/compiler/inference/multiplicity.py'
KM = 'edb.edgeql.compiler.inference.cardinality.'
MM = 'edb.edgeql.compiler.inference.multiplicity.'

V('C06', 'reported-constant', C, 'edb.server.compiler.compiler._compile_ql_query',
  'result_cardinality = enums.cardinality_from_ir_value(ir.cardinality)', 'result_cardinality = enums.Cardinality.MANY',
  'C06.R1', 'result_cardinality')
V('C06', 'query-card-other', C, 'edb.server.compiler.compiler._compile_ql_query',
  'cardinality=result_cardinality,', 'cardinality=enums.Cardinality.MANY,', 'C06.R1', 'Query.cardinality')
V('C06', 'mapping-swapped', E, 'edb.server.compiler.enums.cardinality_from_ir_value',
  '''    if card is ir.Cardinality.AT_MOST_ONE:
        return Cardinality.AT_MOST_ONE
    elif card is ir.Cardinality.ONE:
        return Cardinality.ONE''', '''    if card is ir.Cardinality.AT_MOST_ONE:
        return Cardinality.ONE
    elif card is ir.Cardinality.ONE:
        return Cardinality.AT_MOST_ONE''', 'C06.R2', 'cardinality_from_ir_value:ONE')
V('C06', 'ptr-card-ignores-required', 'edb/server/compiler/sertypes.py', 'edb.server.compiler.sertypes.cardinality_from_ptr',
  'required = ptr.get_required(schema)', 'required = True', 'C06.R1', 'cardinality_from_ptr')
V('C06', 'delete-slice-handler', K, KM + '__infer_slice',
  '@_infer_cardinality.register\ndef __infer_slice(', 'def __infer_slice(', 'C06.R3', 'cardinality:class=SliceIndirection')
V('C06', 'delete-mult-array-handler', M, MM + '__infer_array',
  '@_infer_multiplicity.register\ndef __infer_array(', 'def __infer_array(', 'C06.R3', 'multiplicity:class=Array')
V('C06', 'no-upper-check', K, KM + '_infer_pointer_cardinality',
  'if inf_upper_bound > spec_upper_bound:', 'if False and inf_upper_bound > spec_upper_bound:', 'C06.R4', 'upper-bound')
V('C06', 'upper-check-reversed', K, KM + '_infer_pointer_cardinality',
  'if inf_upper_bound > spec_upper_bound:', 'if inf_upper_bound < spec_upper_bound:', 'C06.R4', 'upper-bound')
V('C06', 'required-not-enforced', K, KM + '_infer_pointer_cardinality',
  '''                    desc = f"computed {ptrcls.get_verbosename(env.schema)}"
                    raise errors.QueryError(
                        f"possibly an empty set returned by an "
                        f"expression for a {desc} declared as 'required'",
                        span=source_ctx,
                    )''', '''                    lower_bound = spec_lower_bound''', 'C06.R4', 'lower-bound')
V('C06', 'global-single-not-enforced', K, KM + '__infer_config_set',
  'if ir.cardinality.is_single() and not card.is_single():', 'if False:', 'C06.R4', 'global-bounds')
V('C06', 'except-keeps-lower', K, KM + '__infer_oper_call',
  '''        _lower, upper = _card_to_bounds(cards[0])
        return _bounds_to_card(CB_ZERO, upper)''', '''        _lower, upper = _card_to_bounds(cards[0])
        return _bounds_to_card(_lower, upper)''', 'C06.R5', 'std::EXCEPT')
V('C06', 'union-takes-max', K, KM + '_union_cardinality',
  'sum(lower, start=CB_ZERO), sum(upper, start=CB_ZERO))', 'max(lower), max(upper))', 'C06.R5', 'std::UNION')
V('C06', 'emptyset-one', K, KM + '__infer_empty_set',
  'return AT_MOST_ONE', 'return ONE', 'C06.R5', 'EmptySet')
V('C06', 'mult-fallthrough-unique', M, MM + '__infer_oper_call',
  '''    else:
        # Everything else.
        return DUPLICATE''', '''    else:
        # Everything else.
        return UNIQUE''', 'C06.R5', 'fall-through')
V('C06', 'distinct-passes-through', M, MM + '__infer_oper_call',
  '''        if mult[0] == EMPTY:
            return EMPTY
        else:
            return UNIQUE''', '''        return mult[0]''', 'C06.R5', 'std::DISTINCT')
# negative control
V('C06', 'neg-rename-local', K, KM + '__infer_oper_call',
  '_lower, upper = _card_to_bounds(min_cardinality(cards))', '_l, upper = _card_to_bounds(min_cardinality(cards))', None)

# ---- R6 bound facts under assumptions --------------------------------------
V('C06', 'offset-keeps-lower', K, KM + '__infer_select_stmt',
  '''    if ir.offset is not None:
        stmt_card = _bounds_to_card(
            CB_ZERO, _card_to_bounds(stmt_card).upper)''', '''    if ir.offset is not None:
        stmt_card = _bounds_to_card(
            _card_to_bounds(stmt_card).lower, _card_to_bounds(stmt_card).upper)''',
  'C06.R6', 'select:offset')
V('C06', 'limit-nonconst-keeps-lower', K, KM + '__infer_select_stmt',
  '''            not isinstance(ir.limit.expr, irast.IntegerConstant)
            or ir.limit.expr.value == '0\'''', '''            isinstance(ir.limit.expr, irast.IntegerConstant)
            and ir.limit.expr.value == '0\'''', 'C06.R6', 'select:limit-not-constant')
V('C06', 'for-iterator-ignored', K, KM + '__infer_select_stmt',
  '''    if ir.iterator_stmt:
        stmt_card = cartesian_cardinality((stmt_card, iter_card))
''', '', 'C06.R6', 'select:iterator')
V('C06', 'filter-keeps-lower', K, KM + '_infer_stmt_cardinality',
  'result_card = cartesian_cardinality([result_card, AT_MOST_ONE])', 'pass', 'C06.R6', 'stmt:filter')
V('C06', 'filter-narrows-bags', K, KM + '_infer_stmt_cardinality',
  'if result_mult.is_unique():', 'if result_mult is not None:', 'C06.R6', 'filter-narrowing-needs-unique')
V('C06', 'insert-unless-conflict-one', K, KM + '__infer_insert_stmt',
  '    if not ir.on_conflict:\n        return ONE', '    if not ir.on_conflict or not ir.on_conflict.else_ir:\n        return ONE',
  'C06.R6', 'insert:unless-conflict')
V('C06', 'on-conflict-base-one', K, KM + '_infer_on_conflict_cardinality',
  '    card = AT_MOST_ONE\n', '    card = ONE\n', 'C06.R6', 'on-conflict:base')
V('C06', 'json-null-ignored', K, KM + '__infer_typecast',
  'typeutils.is_json(ir.from_type)\n        and not', 'typeutils.is_json(ir.to_type)\n        and not', 'C06.R6', 'typecast:json-null', count=1)
V('C06', 'optional-param-one', K, KM + '__infer_param',
  'return ONE if ir.required else AT_MOST_ONE', 'return ONE', 'C06.R6', 'param:optional')
V('C06', 'const-set-one', K, KM + '__infer_const_set',
  'return ONE if len(ir.elements) == 1 else AT_LEAST_ONE', 'return ONE if len(ir.elements) == 1 else ONE', 'C06.R6', 'const-set:several')
V('C06', 'setof-function-optional', K, KM + '_typemod_to_card',
  '''        MANY if typemod is qltypes.TypeModifier.SetOfType else
        AT_MOST_ONE if typemod is qltypes.TypeModifier.OptionalType else''', '''        AT_MOST_ONE if typemod is qltypes.TypeModifier.SetOfType else
        MANY if typemod is qltypes.TypeModifier.OptionalType else''', 'C06.R6', 'typemod:set-of')
V('C06', 'group-at-least-one', K, KM + '__infer_group_stmt',
  '    return MANY', '    return AT_LEAST_ONE', 'C06.R6', '__infer_group_stmt:group')
V('C06', 'filter-clause-always-narrows', K, KM + '_analyse_filter_clause',
  '    else:\n        return result_card', '    else:\n        return AT_MOST_ONE', 'C06.R6', 'filter-clause:needs-exclusive')
V('C06', 'func-lower-one', K, KM + '__infer_func_call',
  "            CB_ONE if ir.func_shortname == sn.QualName('std', 'assert_exists')\n            else ret_lower_bound",
  "            CB_ONE if ir.func_shortname != sn.QualName('std', 'assert_exists')\n            else ret_lower_bound", 'C06.R6', 'func:declared-lower')
V('C06', 'func-force-multi-dropped', K, KM + '__infer_func_call',
  'upper = (CB_MANY if force_multi\n                 else max(arg_upper)', 'upper = (CB_ONE if force_multi\n                 else max(arg_upper)', 'C06.R6', 'func:force-multi')
V('C06', 'eq-multi-operands-narrow', K, KM + 'extract_filters',
  '            if op_card.is_multi():\n                pass\n\n            elif (', '            if (', 'C06.R6', 'filters:multi-operands')
V('C06', 'rhs-multi-narrows', K, KM + 'extract_filters',
  '''                if infer_cardinality(
                    right, scope_tree=scope_tree, ctx=ctx,
                ).is_single():''', '''                if infer_cardinality(
                    right, scope_tree=scope_tree, ctx=ctx,
                ) is not None:''', 'C06.R6', 'filters:single-rhs')
V('C06', 'non-exclusive-ptr-narrows', K, KM + 'extract_exclusive_filters',
  '            if _all_have_exclusive([ptr], ctx):', '            if _all_have_exclusive(ptrs[1:], ctx):', 'C06.R6', 'exclusive:ptr-needs-constraint')
V('C06', 'except-constraint-counts', K, KM + 'get_object_exclusive_constraints',
  '            and not constr.get_except_expr(schema)\n', '', 'C06.R6', 'exclusive:except-constraints-ignored')
V('C06', 'partial-compound-constraint', K, KM + 'get_object_exclusive_constraints',
  'if pointer_refs.issubset(ptr_set):', 'if pointer_refs & ptr_set:', 'C06.R6', 'exclusive:all-pointers-filtered')
V('C06', 'setfunc-unique', M, MM + '__infer_func_call',
  '''        # and the maximum multiplicity cannot be inferred.
        return DUPLICATE''', '''        # and the maximum multiplicity cannot be inferred.
        return _max_multiplicity(args_mult)''', 'C06.R6', 'M:func:set-returning')
V('C06', 'if-multi-cond', M, MM + '__infer_oper_call',
  '        if cards[1].is_single():', '        if cards[0].is_single():', 'C06.R6', 'M:oper:if-multi-condition')
V('C06', 'plus-two-multi-unique', M, MM + '__infer_oper_call',
  'if len([card for card in cards if card.is_multi()]) > 1:', 'if len([card for card in cards if card.is_multi()]) > 2:', 'C06.R6', 'M:oper:plus-two-multi')
V('C06', 'plain-property-unique', M, MM + '_infer_set_inner',
  '''                    path_mult = UNIQUE
                else:
                    path_mult = DUPLICATE''', '''                    path_mult = UNIQUE
                else:
                    path_mult = UNIQUE''', 'C06.R6', 'M:set:plain-property')
V('C06', 'const-set-repeat-unique', M, MM + '__infer_const_set',
  '    if len(ir.elements) == len(els):\n        return UNIQUE\n    else:\n        return DUPLICATE', '    if len(ir.elements) == len(els):\n        return UNIQUE\n    else:\n        return UNIQUE', 'C06.R6', 'M:const-set')
V('C06', 'for-duplicate-iter', M, MM + '_infer_for_multiplicity',
  '    elif itmult.is_duplicate():\n        return DUPLICATE\n', '    elif itmult.is_duplicate() and not result_mult.disjoint_union:\n        return DUPLICATE\n', 'C06.R6', 'M:for:duplicate-iterator')
# ---- R7 ---------------------------------------------------------------------
V('C06', 'coalesce-eq-as-eq', K, KM + 'extract_filters',
  "if str(expr.func_shortname) == 'std::=':", "if str(expr.func_shortname) in ('std::=', 'std::?='):", 'C06.R7', 'key-equality-operators')
V('C06', 'or-as-and', K, KM + 'extract_filters',
  "elif str(expr.func_shortname) == 'std::AND':", "elif str(expr.func_shortname) in ('std::AND', 'std::OR'):", 'C06.R7', 'conjunction-operators')
V('C06', 'union-children-only', M, MM + '__infer_oper_call',
  '(t,) + tuple(t.descendants(ctx.env.schema))', '(t,) + tuple(t.children(ctx.env.schema))', 'C06.R7', 'lineage-is-transitive')
V('C06', 'union-scalars-disjoint', M, MM + '__infer_oper_call',
  '        else:\n            types_disjoint = False', '        else:\n            types_disjoint = True', 'C06.R7', 'scalars-not-disjoint')
# negative controls: equivalent restructurings
V('C06', 'neg-limit-restructured', K, KM + '__infer_select_stmt',
  '''    if ir.limit is not None:
        if (
            isinstance(ir.limit.expr, irast.IntegerConstant)
            and ir.limit.expr.value == '1'
        ):
            # Explicit LIMIT 1 clause.
            stmt_card = _bounds_to_card(
                _card_to_bounds(stmt_card).lower, CB_ONE)
        elif (
            not isinstance(ir.limit.expr, irast.IntegerConstant)
            or ir.limit.expr.value == '0'
        ):
            # LIMIT 0 or a non-static LIMIT that could be 0
            stmt_card = _bounds_to_card(
                CB_ZERO, _card_to_bounds(stmt_card).upper)
''', '''    limit = ir.limit
    if limit is not None:
        static = isinstance(limit.expr, irast.IntegerConstant)
        if not static:
            stmt_card = _bounds_to_card(
                CB_ZERO, _card_to_bounds(stmt_card).upper)
        elif limit.expr.value == '1':
            stmt_card = _bounds_to_card(
                _card_to_bounds(stmt_card).lower, CB_ONE)
        elif limit.expr.value == '0':
            stmt_card = _bounds_to_card(
                CB_ZERO, _card_to_bounds(stmt_card).upper)
''', None)
V('C06', 'neg-insert-branches-swapped', K, KM + '__infer_insert_stmt',
  '''    if not ir.on_conflict:
        return ONE
    # ... except if UNLESS CONFLICT is used
    else:
        return _infer_on_conflict_cardinality(
            ir.on_conflict,
            type_has_rewrites=bool(ir.write_policies),
            scope_tree=scope_tree,
            ctx=ctx,
        )''', '''    if ir.on_conflict:
        return _infer_on_conflict_cardinality(
            ir.on_conflict,
            type_has_rewrites=bool(ir.write_policies),
            scope_tree=scope_tree,
            ctx=ctx,
        )
    return ONE''', None)
V('C06', 'neg-rhs-single-early-exit', K, KM + 'extract_filters',
  '''                if infer_cardinality(
                    right, scope_tree=scope_tree, ctx=ctx,
                ).is_single():''', '''                rc = infer_cardinality(
                    right, scope_tree=scope_tree, ctx=ctx,
                )
                if not rc.is_single():
                    return []
                if True:''', None)
V('C06', 'revert-elementwise-multi-arg', M, MM + '__infer_func_call',
  '''    elif any(
        arg.param_typemod is not qltypes.TypeModifier.SetOfType
        and cardinality.infer_cardinality(
            arg.expr, scope_tree=scope_tree, ctx=ctx).is_multi()
        for arg in ir.args.values()
    ):
        # The call is applied element-wise over its non-SET OF
        # arguments, so a multi argument repeats the results.
        return DUPLICATE
''', '', 'C06.R7', 'elementwise-multi-argument')
V('C06', 'except-bounded-by-all-operands', K, KM + '__infer_oper_call',
  '        _lower, upper = _card_to_bounds(cards[0])\n', '        _lower, upper = _card_to_bounds(min_cardinality(cards))\n', 'C06.R5', 'std::EXCEPT:upper-of-first-operand')
V('C06', 'elementwise-guard-singleton-only', M, MM + '__infer_func_call',
  '        arg.param_typemod is not qltypes.TypeModifier.SetOfType\n', '        arg.param_typemod is qltypes.TypeModifier.SingletonType\n', 'C06.R7', 'elementwise-guard-covers')
V('C06', 'neg-elementwise-guard-membership', M, MM + '__infer_func_call',
  '        arg.param_typemod is not qltypes.TypeModifier.SetOfType\n', '        arg.param_typemod in (qltypes.TypeModifier.SingletonType, qltypes.TypeModifier.OptionalType)\n', None)

# round 4
V('C06', 'if-else-max-of-branches', 'edb/edgeql/compiler/inference/cardinality.py',
  None,
  "    elif str(ir.func_shortname) in ('std::DISTINCT', 'std::IF'):\n        return cartesian_cardinality(cards)\n",
  "    elif str(ir.func_shortname) == 'std::DISTINCT':\n        return cartesian_cardinality(cards)\n    elif str(ir.func_shortname) == 'std::IF':\n        return cartesian_cardinality((cards[1], max_cardinality((cards[0], cards[2]))))\n",
  'C06.R8', 'std::IF:lower-bound')
V('C06', 'const-set-params-by-name', 'edb/edgeql/compiler/inference/multiplicity.py',
  None,
  "        if isinstance(el, irast.BaseConstant):\n            els.add(el.value)\n",
  "        if isinstance(el, irast.BaseConstant):\n            els.add(el.value)\n        elif isinstance(el, irast.Parameter):\n            els.add(el.name)\n",
  'C06.R8', 'const-set:only-known-values')
V('C06', 'is-exclusive-reimplemented-without-delegated', 'edb/schema/pointers.py',
  'edb.schema.pointers.Pointer.is_exclusive',
  'return bool(self.get_exclusive_constraints(schema))',
  '''exclusive = schema.get('std::exclusive', type=constraints.Constraint)
        ptr = self.get_nearest_non_derived_parent(schema)
        return any(c.issubclass(schema, exclusive) and not c.get_subjectexpr(schema)
                   for c in ptr.get_constraints(schema).objects(schema))''',
  'C06.R8', 'is_exclusive:same-exclusions')
# negative control: a faithful fast path
V('C06', 'is-exclusive-faithful-fast-path', 'edb/schema/pointers.py',
  'edb.schema.pointers.Pointer.is_exclusive',
  'return bool(self.get_exclusive_constraints(schema))',
  '''exclusive = schema.get('std::exclusive', type=constraints.Constraint)
        ptr = self.get_nearest_non_derived_parent(schema)
        return any(c.issubclass(schema, exclusive) and not c.get_subjectexpr(schema)
                   and not c.get_delegated(schema)
                   for c in ptr.get_constraints(schema).objects(schema))''',
  None)

# round 5: the stored seeded breaks this property's check reports, replayed as variants
from sa.selftest import VP  # noqa
VP('C06', 'C06-e1', 'C06.R9', 'trailing-hops')
