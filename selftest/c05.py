from sa.selftest import V

C = 'edb/pgsql/common.py'
D = 'edb/pgsql/delta.py'

V('C05', 'name-reaches-table-name', C, 'edb.pgsql.common.get_backend_name@512',
  '''        return get_objtype_backend_name(
            obj.id, name.module, catenate=catenate,''', '''        return get_objtype_backend_name(
            name.name, name.module, catenate=catenate,''', 'C05.R1', 'get_backend_name:get_objtype_backend_name')
V('C05', 'pointer-named-by-shortname', C, 'edb.pgsql.common.get_pointer_backend_name',
  'name = s_name.QualName(module=module_name, name=str(id))', 'name = s_name.QualName(module=module_name, name=str(aspect) + str(id)[:8])',
  'C05.R1', 'get_pointer_backend_name:name-from-id')
V('C05', 'objtype-drop-missing', D, 'edb.pgsql.delta.DeleteObjectType.apply',
  'self.pgops.add(dbops.DropTable(', 'self.pgops.add(dbops.Comment(', 'C05.R2', 'ObjectType:CreateTable->DropTable')
V('C05', 'scalar-sequence-leak', D, 'edb.pgsql.delta.DeleteScalarType.apply',
  'dbops.DropSequence(', 'dbops.Comment(', 'C05.R2', 'ScalarType:CreateSequence->DropSequence')
V('C05', 'card-arm-no-drop-column', D, 'edb.pgsql.delta.PointerMetaCommand._alter_pointer_cardinality',
  '            alter_table.add_operation(dbops.AlterTableDropColumn(col))\n', '', 'C05.R5', 'single->multi')
V('C05', 'card-drop-before-copy', D, 'edb.pgsql.delta.PointerMetaCommand._alter_pointer_cardinality',
  '''            # A link might still own a table if it has properties.
            if not types.has_table(ptr, schema):''', '''            # A link might still own a table if it has properties.
            if True:''', 'C05.R5', 'drop-guarded-by-has_table')
V('C05', 'adapter-removed', D, 'edb.pgsql.delta.RenameIndex',
  'adapts=s_indexes.RenameIndex', 'metaclass=type', 'C05.R4', 'RenameIndex')
V('C05', 'neg-comment', C, 'edb.pgsql.common.get_pointer_backend_name',
  "    if aspect is None:\n        aspect = 'table'", "    if aspect is None:\n        # default aspect\n        aspect = 'table'", None)

T = 'edb/pgsql/types.py'
V('C05', 'ir-side-keeps-source-target-names', T, 'edb.pgsql.types._get_ptrref_storage_info',
  "            if ptrname.startswith('__') or ptrname == 'id':", "            if ptrname.startswith('__') or ptrname in ('id', 'source', 'target'):", 'C05.R6', 'column-name:ObjectType')
V('C05', 'schema-side-lprop-by-id-only', T, 'edb.pgsql.types.get_pointer_storage_info',
  "        if pointer.get_shortname(schema).name == 'source':", "        if pointer.get_shortname(schema).name == 'src':", 'C05.R6', 'column-name:link')
V('C05', 'link-table-target-renamed', T, 'edb.pgsql.types._pointer_table_info',
  "    col_name = 'target'", "    col_name = 'tgt'", 'C05.R6', 'link-table-target')
V('C05', 'ir-multi-lprops-disagree', T, 'edb.pgsql.types._ptrref_storable_in_pointer',
  '''            ptrref.out_cardinality.is_multi()
            or ptrref.has_properties''', '''            ptrref.out_cardinality.is_multi()''', 'C05.R6', 'storable:_pointer_storable_in_pointer')
V('C05', 'delete-prop-asks-old-schema', 'edb/pgsql/delta.py', 'edb.pgsql.delta.PropertyMetaCommand._delete_property',
  '        if types.has_table(source, schema):', '        if types.has_table(source, orig_schema):', 'C05.R7', '_delete_property:has_table(source)')
# negative control: the IR side moves its rule into a helper, unchanged
V('C05', 'neg-ir-naming-through-helper', T, 'edb.pgsql.types._get_ptrref_storage_info',
  '''            ptrname = ptrref.shortname.name
            if ptrname.startswith('__') or ptrname == 'id':
                col_name = ptrname
            else:
                col_name = str(ptrref.id)
            table_type = 'ObjectType\'''', '''            table_type = 'ObjectType'
            nm = ptrref.shortname.name
            if nm == 'id' or nm.startswith('__'):
                col_name = nm
            else:
                col_name = str(ptrref.id)''', None)

V('C05', 'create-link-schemas-swapped', 'edb/pgsql/delta.py', 'edb.pgsql.delta.AlterLink._alter_innards',
  'self._create_link(link, schema, orig_schema, context)', 'self._create_link(link, orig_schema, schema, context)', 'C05.R8', 'argument-alignment')
V('C05', 'delete-link-guard-by-stack', 'edb/pgsql/delta.py', 'edb.pgsql.delta.LinkMetaCommand._delete_link',
  'if (not isinstance(objtype.op, s_objtypes.DeleteObjectType)', 'if (not context.in_deletion(offset=1)', 'C05.R8', 'column-dropped-unless-type-dropped')
V('C05', 'objtype-prop-named-source-skipped', 'edb/pgsql/delta.py', 'edb.pgsql.delta.PropertyMetaCommand._create_property',
  '''                if (
                    not isinstance(src.scls, s_links.Link)
                    or propname not in {'source', 'target'}
                ):''', '''                if propname not in {'source', 'target'}:''', 'C05.R8', 'objtype-property-named-source')
V('C05', 'delete-prop-skipped-on-type-drop', 'edb/pgsql/delta.py', 'edb.pgsql.delta.DeleteProperty._delete_innards',
  '        if source and not prop.is_pure_computable(schema):', '        if (\n            source\n            and not prop.is_pure_computable(schema)\n            and not isinstance(source_op, s_objtypes.DeleteObjectType)\n        ):', 'C05.R9', 'DeleteProperty:storage-always-released')
V('C05', 'dunder-names-need-suffix', T, 'edb.pgsql.types._source_table_info',
  "    if ptr_name.startswith('__') or ptr_name == 'id':", "    if (ptr_name.startswith('__') and ptr_name.endswith('__')) or ptr_name == 'id':", 'C05.R6', 'column-name:ObjectType')
V('C05', 'inheritance-view-no-link-bias', 'edb/pgsql/inheritance.py', 'edb.pgsql.inheritance._get_select_from',
  '                    ptr,\n                    link_bias=isinstance(obj, s_links.Link),\n', '                    ptr,\n', 'C05.R9', '_get_select_from:link_bias')

# round 4
V('C05', 'abstract-link-table-not-dropped', 'edb/pgsql/delta.py',
  'edb.pgsql.delta.LinkMetaCommand._delete_link',
  '''            self.attach_alter_table(context)

        if types.has_table(link, orig_schema):
            condition = dbops.TableExists(name=old_table_name)
            self.pgops.add(
                dbops.DropTable(name=old_table_name, conditions=[condition]))
''', '''            self.attach_alter_table(context)

            if types.has_table(link, orig_schema):
                condition = dbops.TableExists(name=old_table_name)
                self.pgops.add(
                    dbops.DropTable(name=old_table_name, conditions=[condition]))
''', 'C05.R10', 'own-table-dropped')
V('C05', 'caused-commands-not-collected', 'edb/pgsql/delta.py',
  'edb.pgsql.delta.MetaCommand.apply_caused',
  'for op in self.get_caused():',
  'for op in self.get_subcommands(include_prerequisites=False, include_caused=False):',
  'C05.R10', 'collects-get_caused')

# round 5: the stored seeded breaks this property's check reports, replayed as variants
from sa.selftest import VP  # noqa
VP('C05', 'C05-e2', 'C05.L', 'loop-invariant-filter')
VP('C05', 'C05-e1', 'C05.R10', 'own-table-dropped')
