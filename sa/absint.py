"""Three-valued evaluation of branch conditions under a set of assumed
facts, and path queries restricted to the branches those facts leave open.

A *fact* is a normalised source text of a boolean atom (as produced by
model.norm, with single-assignment locals optionally inlined) mapped to True
or False.  Conditions built from atoms with and/or/not are evaluated with
Kleene logic; an atom without a fact is unknown and keeps both branches.

This is not execution: no value is ever computed, the result only selects
which CFG edges a path under the stated assumption may take.
"""
from __future__ import annotations

import ast
from typing import Dict, Iterable, List, Optional, Set, Tuple

from .cfg import CFG
from .model import inline_locals, norm


def _strip(t: str) -> str:
    while t.startswith('(') and t.endswith(')'):
        # only strip a pair that encloses the whole text
        d = 0
        for i, ch in enumerate(t):
            d += ch == '('
            d -= ch == ')'
            if d == 0 and i < len(t) - 1:
                return t
        t = t[1:-1]
    return t


class Facts:
    def __init__(self, facts: Dict[str, bool], fn_node: Optional[ast.AST]
                 = None, consts: Optional[Dict[str, str]] = None):
        self.f = {_strip(k): v for k, v in facts.items()
                  if isinstance(v, bool)}
        # expression text -> the string constant it is assumed to equal
        self.c = dict(consts or {})
        self.c.update({_strip(k): v for k, v in facts.items()
                       if isinstance(v, str)})
        self.fn = fn_node
        self.used: Set[str] = set()
        # variable text -> set of simple class names the value is an
        # instance of (its class and every ancestor)
        self.inst: Dict[str, Set[str]] = {}

    def atom(self, e: ast.expr) -> Optional[bool]:
        cands = [_strip(norm(e))]
        if self.fn is not None:
            try:
                cands.append(_strip(inline_locals(self.fn, e)))
            except Exception:
                pass
        for t in cands:
            if t in self.f:
                self.used.add(t)
                return self.f[t]
        # comparisons of an expression with an assumed constant value
        if isinstance(e, ast.Compare) and len(e.ops) == 1 and self.c:
            lt = _strip(norm(e.left))
            lts = [lt] + ([_strip(inline_locals(self.fn, e.left))]
                          if self.fn is not None else [])
            for lt in lts:
                if lt not in self.c:
                    continue
                val = self.c[lt]
                op, r = e.ops[0], e.comparators[0]
                if isinstance(op, (ast.Eq, ast.NotEq)) and isinstance(
                        r, ast.Constant):
                    self.used.add(lt)
                    return (r.value == val) == isinstance(op, ast.Eq)
                if isinstance(op, (ast.In, ast.NotIn)) and isinstance(
                        r, (ast.Tuple, ast.List, ast.Set)) and all(
                            isinstance(x, ast.Constant) for x in r.elts):
                    self.used.add(lt)
                    return (val in [x.value for x in r.elts]) == \
                        isinstance(op, ast.In)
        # X is None / X is not None / X == c / X != c negations
        if isinstance(e, ast.Compare) and len(e.ops) == 1:
            op = e.ops[0]
            flip = {ast.Is: ast.IsNot, ast.IsNot: ast.Is, ast.Eq: ast.NotEq,
                    ast.NotEq: ast.Eq, ast.In: ast.NotIn, ast.NotIn: ast.In}
            for a, b in flip.items():
                if isinstance(op, a):
                    e2 = ast.Compare(left=e.left, ops=[b()],
                                     comparators=e.comparators)
                    for t in [_strip(norm(e2))] + (
                            [_strip(inline_locals(self.fn, e2))]
                            if self.fn is not None else []):
                        if t in self.f:
                            self.used.add(t)
                            return not self.f[t]
        return None

    def eval(self, e: ast.expr) -> Optional[bool]:
        if isinstance(e, ast.BoolOp):
            vals = [self.eval(v) for v in e.values]
            if isinstance(e.op, ast.And):
                if any(v is False for v in vals):
                    return False
                return True if all(v is True for v in vals) else None
            if any(v is True for v in vals):
                return True
            return False if all(v is False for v in vals) else None
        if isinstance(e, ast.UnaryOp) and isinstance(e.op, ast.Not):
            v = self.eval(e.operand)
            return None if v is None else not v
        if isinstance(e, ast.NamedExpr):
            return self.eval(e.value)
        if isinstance(e, ast.Constant):
            return bool(e.value)
        if isinstance(e, ast.Call) and norm(e.func) == 'isinstance' and \
                len(e.args) == 2 and norm(e.args[0]) in self.inst:
            isa = self.inst[norm(e.args[0])]
            t = e.args[1]
            elts = t.elts if isinstance(t, (ast.Tuple, ast.List)) else [t]
            self.used.add('isinstance:' + norm(e.args[0]))
            return any(norm(x).split('.')[-1] in isa for x in elts)
        v = self.atom(e)
        if v is None and isinstance(e, ast.Call) and norm(e.func) == 'bool' \
                and len(e.args) == 1:
            return self.eval(e.args[0])
        return v

    def leaves(self, e: ast.expr) -> List[ast.expr]:
        """Alternatives a conditional expression can yield under the facts."""
        if isinstance(e, ast.IfExp):
            v = self.eval(e.test)
            out = []
            if v is not False:
                out += self.leaves(e.body)
            if v is not True:
                out += self.leaves(e.orelse)
            return out
        return [e]


def _test_of(n) -> Optional[ast.expr]:
    a = n.ast
    if n.kind == 'test':
        return a.test if hasattr(a, 'test') else a
    return None


def closed_edges(g: CFG, facts: Facts) -> Set[Tuple[int, str]]:
    out: Set[Tuple[int, str]] = set()
    for n in g.nodes:
        t = _test_of(n)
        if t is None:
            continue
        v = facts.eval(t)
        if v is True:
            out.add((n.id, 'F'))
        elif v is False:
            out.add((n.id, 'T'))
    return out


def open_nodes(g: CFG, facts: Facts) -> Set[int]:
    """Nodes reachable from entry along edges the facts leave open."""
    return g.reachable([g.entry], avoid_edges=closed_edges(g, facts)) | {
        g.entry}


def must_pass(g: CFG, facts: Facts, targets: Iterable[int],
              exits: Optional[Iterable[int]] = None) -> bool:
    """Every path entry -> normal exit that the facts leave open passes a
    target node."""
    targets = set(targets)
    ex = set(exits) if exits is not None else {g.exit}
    seen = g.reachable([g.entry], avoid=targets,
                       avoid_edges=closed_edges(g, facts))
    return not (seen & ex)


def open_returns(g: CFG, facts: Facts) -> List[ast.Return]:
    on = open_nodes(g, facts)
    return [g.nodes[i].ast for i in sorted(on)
            if g.nodes[i].kind == 'stmt'
            and isinstance(g.nodes[i].ast, ast.Return)]
