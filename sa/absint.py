"""Three-valued evaluation of branch conditions under a set of assumed
facts, and path queries restricted to the branches those facts leave open.

A *fact* is a normalised source text of a boolean atom (as produced by
model.norm, with single-assignment locals optionally inlined) mapped to True
or False.  Conditions built from atoms with and/or/not are evaluated with
Kleene logic; an atom without a fact is unknown and keeps both branches.

This is not execution: no value is ever computed, the result only selects
which CFG edges a path under the stated assumption may take.
"""
from __future__ import annotations

import ast
from typing import Dict, Iterable, List, Optional, Set, Tuple

from .cfg import CFG
from .model import inline_locals, norm


def _strip(t: str) -> str:
    while t.startswith('(') and t.endswith(')'):
        # only strip a pair that encloses the whole text
        d = 0
        for i, ch in enumerate(t):
            d += ch == '('
            d -= ch == ')'
            if d == 0 and i < len(t) - 1:
                return t
        t = t[1:-1]
    return t


class Facts:
    def __init__(self, facts: Dict[str, bool], fn_node: Optional[ast.AST]
                 = None, consts: Optional[Dict[str, str]] = None):
        self.f = {_strip(k): v for k, v in facts.items()
                  if isinstance(v, bool)}
        # expression text -> the string constant it is assumed to equal
        self.c = dict(consts or {})
        self.c.update({_strip(k): v for k, v in facts.items()
                       if isinstance(v, str)})
        self.fn = fn_node
        self.used: Set[str] = set()
        # variable text -> set of simple class names the value is an
        # instance of (its class and every ancestor)
        self.inst: Dict[str, Set[str]] = {}
        self.undecided: List[str] = []
        # local name -> value expressions of its definitions that the facts
        # leave reachable (None: some definition is not a plain assignment)
        self.defs: Dict[str, Optional[List[ast.expr]]] = {}
        self._depth = 0

    def atom(self, e: ast.expr) -> Optional[bool]:
        cands = [_strip(norm(e))]
        if self.fn is not None:
            try:
                cands.append(_strip(inline_locals(self.fn, e)))
            except Exception:
                pass
        for t in cands:
            if t in self.f:
                self.used.add(t)
                return self.f[t]
        # comparisons of an expression with an assumed constant value
        if isinstance(e, ast.Compare) and len(e.ops) == 1 and self.c:
            lt = _strip(norm(e.left))
            lts = [lt] + ([_strip(inline_locals(self.fn, e.left))]
                          if self.fn is not None else [])
            for lt in lts:
                if lt not in self.c:
                    continue
                val = self.c[lt]
                op, r = e.ops[0], e.comparators[0]
                if isinstance(op, (ast.Eq, ast.NotEq)) and isinstance(
                        r, ast.Constant):
                    self.used.add(lt)
                    return (r.value == val) == isinstance(op, ast.Eq)
                if isinstance(op, (ast.In, ast.NotIn)) and isinstance(
                        r, (ast.Tuple, ast.List, ast.Set)) and all(
                            isinstance(x, ast.Constant) for x in r.elts):
                    self.used.add(lt)
                    return (val in [x.value for x in r.elts]) == \
                        isinstance(op, ast.In)
        # a local all of whose reachable definitions decide the test the
        # same way (constants compared directly, other values through the
        # facts)
        v = self._via_defs(e)
        if v is not None:
            return v
        # mirrored forms: a < b is b > a, a == b is b == a
        if isinstance(e, ast.Compare) and len(e.ops) == 1:
            mir = {ast.Lt: ast.Gt, ast.Gt: ast.Lt, ast.LtE: ast.GtE,
                   ast.GtE: ast.LtE, ast.Eq: ast.Eq, ast.NotEq: ast.NotEq,
                   ast.Is: ast.Is, ast.IsNot: ast.IsNot}
            neg = {ast.Lt: ast.GtE, ast.GtE: ast.Lt, ast.Gt: ast.LtE,
                   ast.LtE: ast.Gt}
            op = type(e.ops[0])
            forms = []          # (expression, polarity)
            if op in mir:
                forms.append((ast.Compare(left=e.comparators[0],
                                          ops=[mir[op]()],
                                          comparators=[e.left]), True))
            if op in neg:
                forms.append((ast.Compare(left=e.left, ops=[neg[op]()],
                                          comparators=e.comparators), False))
                forms.append((ast.Compare(left=e.comparators[0],
                                          ops=[mir[neg[op]]()],
                                          comparators=[e.left]), False))
            # a < b (true) settles a <= b, a > b, a >= b, a == b, a != b
            imp = {(ast.Lt, True): {ast.LtE: True, ast.Gt: False,
                                    ast.GtE: False, ast.Eq: False,
                                    ast.NotEq: True},
                   (ast.Gt, True): {ast.GtE: True, ast.Lt: False,
                                    ast.LtE: False, ast.Eq: False,
                                    ast.NotEq: True},
                   (ast.LtE, False): {ast.Gt: True, ast.GtE: True,
                                      ast.Eq: False, ast.NotEq: True},
                   (ast.GtE, False): {ast.Lt: True, ast.LtE: True,
                                      ast.Eq: False, ast.NotEq: True},
                   (ast.Eq, True): {ast.LtE: True, ast.GtE: True,
                                    ast.Lt: False, ast.Gt: False}}
            for (fop, fval), table in imp.items():
                if op not in table:
                    continue
                for left, right, o2 in (
                        (e.left, e.comparators[0], fop),
                        (e.comparators[0], e.left, mir.get(fop, fop))):
                    e2 = ast.Compare(left=left, ops=[o2()],
                                     comparators=[right])
                    for t in [_strip(norm(e2))] + (
                            [_strip(inline_locals(self.fn, e2))]
                            if self.fn is not None else []):
                        if self.f.get(t) is fval:
                            # the mirrored spelling keeps the operator of
                            # the query as written
                            self.used.add(t)
                            qop = op if left is e.left else mir.get(op, op)
                            if qop in table:
                                return table[qop]
            for e2, pol in forms:
                for t in [_strip(norm(e2))] + (
                        [_strip(inline_locals(self.fn, e2))]
                        if self.fn is not None else []):
                    if t in self.f:
                        self.used.add(t)
                        return self.f[t] == pol
        # X is None / X is not None / X == c / X != c negations
        if isinstance(e, ast.Compare) and len(e.ops) == 1:
            op = e.ops[0]
            flip = {ast.Is: ast.IsNot, ast.IsNot: ast.Is, ast.Eq: ast.NotEq,
                    ast.NotEq: ast.Eq, ast.In: ast.NotIn, ast.NotIn: ast.In}
            for a, b in flip.items():
                if isinstance(op, a):
                    e2 = ast.Compare(left=e.left, ops=[b()],
                                     comparators=e.comparators)
                    for t in [_strip(norm(e2))] + (
                            [_strip(inline_locals(self.fn, e2))]
                            if self.fn is not None else []):
                        if t in self.f:
                            self.used.add(t)
                            return not self.f[t]
        return None

    def _via_defs(self, e: ast.expr) -> Optional[bool]:
        if not self.defs or self._depth > 2:
            return None
        name = None
        if isinstance(e, ast.Name):
            name = e.id
        elif isinstance(e, ast.Compare) and len(e.ops) == 1 and \
                isinstance(e.left, ast.Name):
            name = e.left.id
        if name is None or not self.defs.get(name):
            return None
        import copy
        res = set()
        self._depth += 1
        try:
            for val in self.defs[name]:
                if isinstance(e, ast.Name):
                    r = bool(val.value) if isinstance(val, ast.Constant) \
                        else self.eval(val)
                else:
                    op, cmpv = e.ops[0], e.comparators[0]
                    r = None
                    if isinstance(val, ast.Constant) and isinstance(
                            cmpv, ast.Constant):
                        a, b = val.value, cmpv.value
                        if isinstance(op, (ast.Eq, ast.Is)):
                            r = a == b and type(a) is type(b)
                        elif isinstance(op, (ast.NotEq, ast.IsNot)):
                            r = not (a == b and type(a) is type(b))
                    elif isinstance(val, ast.Constant) and isinstance(
                            cmpv, (ast.Tuple, ast.List, ast.Set)) and all(
                            isinstance(x, ast.Constant) for x in cmpv.elts) \
                            and isinstance(op, (ast.In, ast.NotIn)):
                        r = (val.value in [x.value for x in cmpv.elts]) == \
                            isinstance(op, ast.In)
                    elif not isinstance(val, ast.Constant):
                        e2 = ast.Compare(left=copy.deepcopy(val), ops=[op],
                                         comparators=e.comparators)
                        r = self.eval(e2)
                if r is None:
                    return None
                res.add(r)
        finally:
            self._depth -= 1
        if len(res) == 1:
            self.used.add('defs:' + name)
            return res.pop()
        return None

    def eval(self, e: ast.expr) -> Optional[bool]:
        if isinstance(e, ast.BoolOp):
            vals = [self.eval(v) for v in e.values]
            if isinstance(e.op, ast.And):
                if any(v is False for v in vals):
                    return False
                return True if all(v is True for v in vals) else None
            if any(v is True for v in vals):
                return True
            return False if all(v is False for v in vals) else None
        if isinstance(e, ast.UnaryOp) and isinstance(e.op, ast.Not):
            v = self.eval(e.operand)
            return None if v is None else not v
        if isinstance(e, ast.NamedExpr):
            return self.eval(e.value)
        if isinstance(e, ast.Constant):
            return bool(e.value)
        if isinstance(e, ast.BinOp) and isinstance(e.op, ast.Add):
            # a sum of counts (assumed non-negative) is non-zero as soon as
            # one term is, zero when every term is
            l, r = self.eval(e.left), self.eval(e.right)
            if l is True or r is True:
                return True
            if l is False and r is False:
                return False
            return None
        if isinstance(e, ast.Name) and self.fn is not None:
            try:
                t = _strip(inline_locals(self.fn, e))
            except Exception:
                t = e.id
            if t != e.id:
                try:
                    v = self.eval(ast.parse(t, mode='eval').body)
                except SyntaxError:
                    v = None
                if v is not None:
                    return v
        if isinstance(e, ast.Call) and norm(e.func) == 'isinstance' and \
                len(e.args) == 2 and norm(e.args[0]) in self.inst:
            isa = self.inst[norm(e.args[0])]
            t = e.args[1]
            elts = t.elts if isinstance(t, (ast.Tuple, ast.List)) else [t]
            self.used.add('isinstance:' + norm(e.args[0]))
            return any(norm(x).split('.')[-1] in isa for x in elts)
        v = self.atom(e)
        if v is None and isinstance(e, ast.Call) and norm(e.func) == 'bool' \
                and len(e.args) == 1:
            return self.eval(e.args[0])
        return v

    def leaves(self, e: ast.expr) -> List[ast.expr]:
        """Alternatives a conditional expression can yield under the facts."""
        if isinstance(e, ast.IfExp):
            v = self.eval(e.test)
            out = []
            if v is not False:
                out += self.leaves(e.body)
            if v is not True:
                out += self.leaves(e.orelse)
            return out
        return [e]


def _test_of(n) -> Optional[ast.expr]:
    a = n.ast
    if n.kind == 'test':
        return a.test if hasattr(a, 'test') else a
    return None


# the Facts object of the most recent path query: an obligation that fails
# right after a query whose open region still holds *undecided tests about
# the very quantities the facts speak of* is not a violation -- the function
# now decides the matter in terms the fact does not name, so the fact cannot
# be decided (report.Ctx.ob turns it into an undecided obligation).
PENDING: Optional['Facts'] = None


def _scope_names(fn: Optional[ast.AST]) -> Set[str]:
    """parameters and locals of fn (and of the functions nested in it)"""
    out: Set[str] = set()
    if fn is None:
        return out
    for x in ast.walk(fn):
        if isinstance(x, ast.arg):
            out.add(x.arg)
        elif isinstance(x, ast.Name) and isinstance(x.ctx, ast.Store):
            out.add(x.id)
    return out


_BUILTIN_FUNCS = {'isinstance', 'len', 'str', 'bool', 'int', 'type', 'any',
                  'all', 'set', 'list', 'tuple', 'sorted', 'min', 'max',
                  'frozenset', 'dict', 'getattr', 'hasattr', 'iter', 'next',
                  'sum', 'abs', 'repr', 'id', 'callable'}


def _path_of(e: ast.AST, scope: Set[str]) -> Optional[Tuple[str, ...]]:
    """access path of an expression rooted in a local / parameter:
    name, .attr and [constant] steps"""
    parts: List[str] = []
    while True:
        if isinstance(e, ast.Attribute):
            parts.append(e.attr)
            e = e.value
        elif isinstance(e, ast.Subscript) and isinstance(
                e.slice, ast.Constant):
            parts.append(f'[{e.slice.value!r}]')
            e = e.value
        elif isinstance(e, ast.Name):
            if e.id not in scope:
                return None
            parts.append(e.id)
            return tuple(reversed(parts))
        else:
            return None


def _paths(e: ast.AST, scope: Set[str]) -> Set[Tuple[str, ...]]:
    """the quantities an expression speaks about: maximal access paths;
    a call on a quantity (`x.f(a)`) is the quantity `x.f` and its arguments
    are not looked at; a call of anything else speaks about its arguments"""
    out: Set[Tuple[str, ...]] = set()

    def rec(n):
        if isinstance(n, ast.Call):
            p = _path_of(n.func, scope)
            if p is not None and len(p) > 1:
                out.add(p)
                return
            if not isinstance(n.func, (ast.Name, ast.Attribute)):
                rec(n.func)
            elif isinstance(n.func, ast.Attribute) and p is None:
                # method of a computed value: look inside the receiver
                inner = n.func.value
                while isinstance(inner, ast.Attribute):
                    inner = inner.value
                if not isinstance(inner, ast.Name):
                    rec(inner)
            args = list(n.args) + [k.value for k in n.keywords]
            if isinstance(n.func, ast.Name) and n.func.id == 'isinstance':
                args = args[:1]
            for a in args:
                rec(a)
            return
        p = _path_of(n, scope)
        if p is not None:
            out.add(p)
            return
        for ch in ast.iter_child_nodes(n):
            rec(ch)
    rec(e)
    return out


def _fact_subjects(facts: Facts) -> Set[Tuple[str, ...]]:
    scope = _scope_names(facts.fn)
    out: Set[Tuple[str, ...]] = set()
    for k in list(facts.f) + list(facts.c):
        try:
            e = ast.parse(k, mode='eval').body
        except SyntaxError:
            continue
        out |= _paths(e, scope)
    return out


def _related(t: ast.expr, facts: Facts, subjects, depth: int = 3,
             exact: bool = False) -> bool:
    """the atom speaks about a quantity the facts speak about: the same
    access path or a coarser one (a prefix), directly or through a local
    whose definition does"""
    scope = _scope_names(facts.fn)
    ps = _paths(t, scope)
    for a in ps:
        for s_ in subjects:
            if a == s_ or (not exact and len(a) < len(s_)
                           and s_[:len(a)] == a):
                return True
    if depth and facts.fn is not None:
        roots = {a[0] for a in ps}
        params = {x.arg for x in ast.walk(facts.fn)
                  if isinstance(x, ast.arg)}
        roots -= params
        if roots:
            for x in ast.walk(facts.fn):
                if isinstance(x, ast.Assign) and any(
                        isinstance(tt, ast.Name) and tt.id in roots
                        for tg in x.targets
                        for tt in ([tg] if isinstance(tg, ast.Name) else (
                            tg.elts if isinstance(tg, (ast.Tuple, ast.List))
                            else []))):
                    # through a local only the very same quantity counts
                    if _related(x.value, facts, subjects, depth - 1, True):
                        return True
    return False


def _undecided_atoms(facts: Facts, e: ast.expr) -> List[ast.expr]:
    if isinstance(e, ast.BoolOp):
        out = []
        for v in e.values:
            if facts.eval(v) is None:
                out += _undecided_atoms(facts, v)
        return out
    if isinstance(e, ast.UnaryOp) and isinstance(e.op, ast.Not):
        return _undecided_atoms(facts, e.operand)
    if isinstance(e, ast.NamedExpr):
        return _undecided_atoms(facts, e.value)
    return [e] if facts.eval(e) is None else []


def _open_defs(g: CFG, facts: Facts, closed) -> Dict[str, Optional[list]]:
    on = g.reachable([g.entry], avoid_edges=closed) | {g.entry}
    params: Set[str] = set()
    if facts.fn is not None and hasattr(facts.fn, 'args'):
        a = facts.fn.args
        params = {x.arg for x in a.posonlyargs + a.args + a.kwonlyargs}
        if a.vararg:
            params.add(a.vararg.arg)
        if a.kwarg:
            params.add(a.kwarg.arg)
    defs: Dict[str, Optional[list]] = {p: None for p in params}
    for n in g.nodes:
        a = n.ast
        if a is None:
            continue
        if n.kind == 'stmt' and isinstance(a, ast.Assign) and \
                len(a.targets) == 1 and isinstance(a.targets[0], ast.Name):
            nm = a.targets[0].id
            if n.id in on and defs.get(nm, []) is not None:
                defs.setdefault(nm, []).append(a.value)
            continue
        if n.kind == 'stmt' and isinstance(a, ast.AnnAssign) and \
                isinstance(a.target, ast.Name) and a.value is not None:
            nm = a.target.id
            if n.id in on and defs.get(nm, []) is not None:
                defs.setdefault(nm, []).append(a.value)
            continue
        # any other binding form makes the name opaque
        root = a.test if (n.kind == 'test' and hasattr(a, 'test')) else a
        if isinstance(root, (ast.For, ast.AsyncFor)):
            scan = [root.target]
        elif isinstance(root, (ast.With, ast.AsyncWith)):
            scan = [it.optional_vars for it in root.items
                    if it.optional_vars is not None]
        elif isinstance(root, (ast.FunctionDef, ast.AsyncFunctionDef,
                               ast.ClassDef)):
            defs[root.name] = None
            scan = []
        else:
            scan = [root]
        for sc in scan:
            for x in ast.walk(sc):
                if isinstance(x, ast.Name) and isinstance(
                        x.ctx, (ast.Store, ast.Del)):
                    defs[x.id] = None
                elif isinstance(x, (ast.Lambda, ast.FunctionDef,
                                    ast.AsyncFunctionDef)):
                    break
    # names rebound inside nested functions (nonlocal) stay opaque
    if facts.fn is not None:
        for x in ast.walk(facts.fn):
            if isinstance(x, ast.Nonlocal):
                for nm in x.names:
                    defs[nm] = None
    return defs


def closed_edges(g: CFG, facts: Facts) -> Set[Tuple[int, str]]:
    global PENDING
    out: Set[Tuple[int, str]] = set()
    undec = []
    facts.defs = {}
    for _round in range(4):
        prev = set(out)
        out = set()
        undec = []
        for n in g.nodes:
            t = _test_of(n)
            if t is None:
                continue
            v = facts.eval(t)
            if v is True:
                out.add((n.id, 'F'))
            elif v is False:
                out.add((n.id, 'T'))
            else:
                undec.append((n.id, t))
        if _round and out == prev:
            break
        try:
            facts.defs = _open_defs(g, facts, out)
        except Exception:
            facts.defs = {}
            break
    facts.undecided = []
    new = None
    if undec and (facts.f or facts.c):
        from . import alpha
        new = alpha.new_tests(facts.fn)
    if new:
        from .alpha import canon_test
        undec = [(nid, t) for nid, t in undec if canon_test(t) in new]
        subjects = _fact_subjects(facts)
        if undec and subjects:
            on = g.reachable([g.entry], avoid_edges=out) | {g.entry}
            for nid, t in undec:
                if nid not in on:
                    continue
                for at in _undecided_atoms(facts, t):
                    ind = getattr(facts, 'independent', None)
                    if ind is not None and ind(at):
                        # the rule argued that no outcome of this kind of
                        # atom can refute its assumption
                        continue
                    if _related(at, facts, subjects):
                        facts.undecided.append(norm(at))
    PENDING = facts
    return out


def open_nodes(g: CFG, facts: Facts) -> Set[int]:
    """Nodes reachable from entry along edges the facts leave open."""
    return g.reachable([g.entry], avoid_edges=closed_edges(g, facts)) | {
        g.entry}


def must_pass(g: CFG, facts: Facts, targets: Iterable[int],
              exits: Optional[Iterable[int]] = None) -> bool:
    """Every path entry -> normal exit that the facts leave open passes a
    target node."""
    targets = set(targets)
    ex = set(exits) if exits is not None else {g.exit}
    seen = g.reachable([g.entry], avoid=targets,
                       avoid_edges=closed_edges(g, facts))
    return not (seen & ex)


def open_returns(g: CFG, facts: Facts) -> List[ast.Return]:
    on = open_nodes(g, facts)
    return [g.nodes[i].ast for i in sorted(on)
            if g.nodes[i].kind == 'stmt'
            and isinstance(g.nodes[i].ast, ast.Return)]
