"""Counting effect system for edb/server/connpool/pool.py  (C15.R1, C16.R4).

Ghost quantity  D = cap - (live + pend + closing)  where
  cap      BasePool._cur_capacity
  pend     sum of Block.pending_conns
  live     sum of len(Block.conns)
  closing  connections removed from `conns` whose disconnect callback has not
           returned yet (ghost counter: +1 at `conns.pop`, -1 when the await
           of the disconnect callback completes, normally or not)

"usage reported == open + being opened + being closed" is D == 0.  Statement
effects on D are read from the source; calls to pool functions contribute the
callee's summary; coroutines that are spawned / gathered / awaited contribute
their summary on completion (normal or exceptional).  Summaries are sets of
possible totals computed by a fixpoint over the module's call graph.

Exception model (DESIGN C16.R1): only `await`s and explicit `raise` raise;
`except Exception` catches everything that arrives in tasks the pool spawns.
"""
from __future__ import annotations

import ast
from typing import Dict, List, Optional, Set, Tuple

from .cfg import CFG, has_await
from .model import AnalysisError, FuncInfo, Repo, dotted, norm

POOL_MOD = 'edb.server.connpool.pool'
BOUND = 4


class Atom:
    __slots__ = ('kind', 'delta', 'callee', 'node', 'what')

    def __init__(self, kind, delta=0, callee=None, node=None, what=''):
        self.kind = kind      # 'eff' | 'call' | 'await' | 'co' | 'extawait' | 'raise'
        self.delta = delta
        self.callee = callee
        self.node = node
        self.what = what


class PoolModel:
    def __init__(self, repo: Repo):
        self.repo = repo
        self.mod = repo.module(POOL_MOD)
        self.block = repo.cls(f'{POOL_MOD}.Block')
        self.base = repo.cls(f'{POOL_MOD}.BasePool')
        self.pool = repo.cls(f'{POOL_MOD}.Pool')
        self.funcs: List[FuncInfo] = []
        for c in (self.block, self.base, self.pool):
            self.funcs.extend(c.methods.values())
        self.cfgs: Dict[str, CFG] = {}
        self.atoms_cache: Dict[Tuple[str, int], List[Atom]] = {}
        self.summary: Dict[str, Tuple[Set[int], Set[int]]] = {}
        self.unbounded: Dict[str, str] = {}
        self.witness: Dict[str, dict] = {}
        # role lookups (anchors by role, not by position)
        self.disconnect_fn = self._fn_awaiting('_disconnect_cb')
        self.connect_fn = self._fn_awaiting('_connect_cb')

    # -- resolution ----------------------------------------------------
    def _fn_awaiting(self, cbname: str) -> FuncInfo:
        for f in self.funcs:
            for n in ast.walk(f.node):
                if isinstance(n, ast.Await) and isinstance(n.value, ast.Call):
                    d = dotted(n.value.func)
                    if d == f'self.{cbname}':
                        return f
        raise AnalysisError(f'no pool function awaits self.{cbname}')

    def recv_class(self, fn: FuncInfo, recv: ast.AST):
        if isinstance(recv, ast.Name):
            if recv.id == 'self':
                if fn.cls is self.block:
                    return self.block
                return self.pool   # most derived: finds overrides
            if 'block' in recv.id.lower():
                return self.block
        if isinstance(recv, ast.Call) and isinstance(recv.func, ast.Name) \
                and recv.func.id == 'super':
            return self.base
        return None

    def resolve(self, fn: FuncInfo, call: ast.Call) -> Optional[FuncInfo]:
        f = call.func
        if not isinstance(f, ast.Attribute):
            return None
        cls = self.recv_class(fn, f.value)
        if cls is None:
            return None
        return self.repo.find_method(cls.qualname, f.attr)

    def is_async(self, f: FuncInfo) -> bool:
        return isinstance(f.node, ast.AsyncFunctionDef)

    # -- atoms ----------------------------------------------------------
    def raise_pred(self, fn: FuncInfo):
        def pred(e: ast.AST) -> bool:
            if has_await(e):
                return True
            for c in ast.walk(e):
                if isinstance(c, ast.Call):
                    tgt = self.resolve(fn, c)
                    if tgt is not None and not self.is_async(tgt):
                        s = self.summary.get(tgt.qualname)
                        if s is None or s[1]:
                            # unknown yet or has exceptional exits
                            if self._has_raise_exit(tgt):
                                return True
            return False
        return pred

    def _has_raise_exit(self, f: FuncInfo, _seen=None) -> bool:
        """Sync callee can raise under the model: contains an explicit
        `raise` or calls a sync pool function that can."""
        _seen = _seen or set()
        if f.qualname in _seen:
            return False
        _seen.add(f.qualname)
        for n in ast.walk(f.node):
            if isinstance(n, ast.Raise):
                return True
            if isinstance(n, ast.Call):
                t = self.resolve(f, n)
                if t is not None and not self.is_async(t) \
                        and self._has_raise_exit(t, _seen):
                    return True
        return False

    def cfg(self, f: FuncInfo) -> CFG:
        g = self.cfgs.get(f.qualname)
        if g is None:
            g = CFG(f.node, catch_all=('Exception', 'BaseException'),
                    raise_pred=self.raise_pred(f), assert_raises=False)
            self.cfgs[f.qualname] = g
        return g

    def atoms(self, fn: FuncInfo, g: CFG, nid: int) -> List[Atom]:
        key = (fn.qualname, nid)
        if key in self.atoms_cache:
            return self.atoms_cache[key]
        n = g.nodes[nid]
        out: List[Atom] = []
        if n.kind == 'stmt' and isinstance(n.ast, ast.Raise):
            for e in g.node_exprs(n):
                self._expr_atoms(fn, e, out, awaited=False)
            out.append(Atom('raise', node=n.ast))
        elif n.kind == 'stmt' and isinstance(n.ast, ast.AugAssign):
            self._expr_atoms(fn, n.ast.value, out, False)
            t = n.ast.target
            k = None
            if isinstance(n.ast.value, ast.Constant) and isinstance(
                    n.ast.value.value, int):
                k = n.ast.value.value
                if isinstance(n.ast.op, ast.Sub):
                    k = -k
                elif not isinstance(n.ast.op, ast.Add):
                    k = None
            if isinstance(t, ast.Attribute):
                if t.attr == '_cur_capacity':
                    if k is None:
                        raise AnalysisError(
                            f'{fn.qualname}: non-constant update of '
                            f'_cur_capacity: {norm(n.ast)}')
                    out.append(Atom('eff', k, node=n.ast, what=f'cap{k:+d}'))
                elif t.attr == 'pending_conns':
                    if k is None:
                        raise AnalysisError(
                            f'{fn.qualname}: non-constant update of '
                            f'pending_conns: {norm(n.ast)}')
                    out.append(Atom('eff', -k, node=n.ast,
                                    what=f'pend{k:+d}'))
        elif n.kind == 'stmt' and isinstance(n.ast, (ast.Assign,
                                                     ast.AnnAssign)):
            val = n.ast.value
            if val is not None:
                self._expr_atoms(fn, val, out, False)
            tgts = n.ast.targets if isinstance(n.ast, ast.Assign) \
                else [n.ast.target]
            for t in tgts:
                if isinstance(t, ast.Subscript) and isinstance(
                        t.value, ast.Attribute) and t.value.attr == 'conns':
                    out.append(Atom('eff', -1, node=n.ast, what='live+1'))
                if isinstance(t, ast.Attribute) and t.attr in (
                        '_cur_capacity', 'pending_conns'):
                    # plain assignment: only the initialisers may do that
                    if fn.name != '__init__':
                        raise AnalysisError(
                            f'{fn.qualname}: plain assignment to {t.attr}')
        else:
            for e in g.node_exprs(n):
                self._expr_atoms(fn, e, out, False)
        self.atoms_cache[key] = out
        return out

    def _expr_atoms(self, fn, e, out: List[Atom], awaited: bool) -> None:
        """Effects of evaluating expression e, in evaluation order
        (approximate: children left-to-right, call after its arguments)."""
        if e is None or isinstance(e, (ast.Lambda, ast.FunctionDef,
                                       ast.AsyncFunctionDef)):
            return
        if isinstance(e, ast.Await):
            v = e.value
            if isinstance(v, ast.Call):
                tgt = self.resolve(fn, v)
                for a in list(v.args) + [k.value for k in v.keywords]:
                    self._expr_atoms(fn, a, out, False)
                if tgt is not None and self.is_async(tgt):
                    out.append(Atom('await', callee=tgt, node=e))
                    return
                d = dotted(v.func) or ''
                if d == 'self._disconnect_cb':
                    out.append(Atom('extawait', delta=+1, node=e,
                                    what='closing-1'))
                else:
                    out.append(Atom('extawait', node=e, what=f'await {d}'))
                return
            self._expr_atoms(fn, v, out, False)
            out.append(Atom('extawait', node=e, what='await'))
            return
        if isinstance(e, ast.Call):
            tgt = self.resolve(fn, e)
            if isinstance(e.func, ast.Attribute):
                self._expr_atoms(fn, e.func.value, out, False)
            for a in list(e.args) + [k.value for k in e.keywords]:
                self._expr_atoms(fn, a, out, False)
            if tgt is not None:
                if self.is_async(tgt):
                    out.append(Atom('co', callee=tgt, node=e))
                else:
                    out.append(Atom('call', callee=tgt, node=e))
                return
            f = e.func
            if isinstance(f, ast.Attribute) and isinstance(
                    f.value, ast.Attribute) and f.value.attr == 'conns':
                if f.attr == 'pop':
                    out.append(Atom('eff', 0, node=e,
                                    what='live-1,closing+1'))
                elif f.attr == 'clear':
                    out.append(Atom('eff', 0, node=e,
                                    what='live-N,closing+N'))
                elif f.attr in ('update', 'setdefault', 'popitem',
                                '__setitem__', '__delitem__'):
                    raise AnalysisError(
                        f'{fn.qualname}: unmodelled write to conns: '
                        f'{norm(e)}')
            return
        if isinstance(e, (ast.GeneratorExp, ast.ListComp, ast.SetComp,
                          ast.DictComp)):
            # effects inside a comprehension happen 0..N times: they must be
            # D-neutral; collected as 'loop' atoms
            inner: List[Atom] = []
            elts = [e.elt] if not isinstance(e, ast.DictComp) \
                else [e.key, e.value]
            for x in elts:
                self._expr_atoms(fn, x, inner, False)
            for a in inner:
                a.what = (a.what or '') + ' (xN)'
                out.append(Atom('loop:' + a.kind, a.delta, a.callee, a.node,
                                a.what))
            for gen in e.generators:
                self._expr_atoms(fn, gen.iter, out, False)
            return
        if isinstance(e, ast.BoolOp):
            # short circuit: later operands may not run
            self._expr_atoms(fn, e.values[0], out, False)
            for v in e.values[1:]:
                sub: List[Atom] = []
                self._expr_atoms(fn, v, sub, False)
                for a in sub:
                    out.append(Atom('opt:' + a.kind, a.delta, a.callee,
                                    a.node, a.what))
            return
        if isinstance(e, ast.IfExp):
            self._expr_atoms(fn, e.test, out, False)
            for v in (e.body, e.orelse):
                sub = []
                self._expr_atoms(fn, v, sub, False)
                for a in sub:
                    out.append(Atom('opt:' + a.kind, a.delta, a.callee,
                                    a.node, a.what))
            return
        for c in ast.iter_child_nodes(e):
            if isinstance(c, ast.expr):
                self._expr_atoms(fn, c, out, False)
            elif isinstance(c, (ast.keyword,)):
                self._expr_atoms(fn, c.value, out, False)
            elif isinstance(c, ast.stmt):
                pass

    # -- summaries --------------------------------------------------------
    def _atom_vals(self, a: Atom) -> Tuple[Set[int], Set[int]]:
        """(values contributed when the atom completes normally,
            values contributed on the exceptional edge out of it)."""
        kind = a.kind
        opt = False
        loop = False
        while ':' in kind:
            pre, kind = kind.split(':', 1)
            opt = opt or pre == 'opt'
            loop = loop or pre == 'loop'
        if kind == 'eff':
            nv, ev = {a.delta}, set()
        elif kind == 'extawait':
            nv, ev = {a.delta}, {a.delta}
        elif kind == 'raise':
            nv, ev = set(), {0}
        elif kind == 'call':
            s = self.summary.get(a.callee.qualname, (set(), set()))
            nv, ev = set(s[0]), set(s[1])
        elif kind == 'await':
            s = self.summary.get(a.callee.qualname, (set(), set()))
            nv, ev = set(s[0]), set(s[1])
        elif kind == 'co':
            s = self.summary.get(a.callee.qualname, (set(), set()))
            nv, ev = set(s[0]) | set(s[1]), set()
        else:
            raise AssertionError(kind)
        if loop:
            # executed 0..N times: only neutral effects have a bounded sum
            bad = {v for v in nv | ev if v != 0}
            if bad:
                nv = {v * k for v in nv for k in (0, 1, BOUND + 1)}
            else:
                nv = {0} if (nv or not ev) else set()
                if not nv and kind in ('call', 'await', 'co'):
                    nv = set()   # callee summary still bottom
            ev = set()
        if opt:
            nv = nv | {0}
        return nv, ev

    def analyse(self, fn: FuncInfo) -> Tuple[Set[int], Set[int], dict]:
        g = self.cfg(fn)
        state: Dict[int, Set[int]] = {g.entry: {0}}
        prev: Dict[Tuple[int, int], Tuple[int, int, str]] = {}
        work = [g.entry]
        over = None
        while work:
            nid = work.pop()
            vals = state.get(nid, set())
            if not vals:
                continue
            atoms = self.atoms(fn, g, nid)
            # normal completion: fold all atoms
            cur = {(v, v) for v in vals}  # (origin value, current value)
            exc_out: Set[Tuple[int, int]] = set()
            for a in atoms:
                nv, ev = self._atom_vals(a)
                for o, c in cur:
                    for d in ev:
                        exc_out.add((o, c + d))
                cur = {(o, c + d) for o, c in cur for d in nv}
            for b, lab in g.nodes[nid].succ:
                outs = exc_out if lab == 'exc' else cur
                tgt = state.setdefault(b, set())
                changed = False
                for o, c in outs:
                    if abs(c) > BOUND:
                        over = (nid, b, c)
                        continue
                    if c not in tgt:
                        tgt.add(c)
                        prev[(b, c)] = (nid, o, lab)
                        changed = True
                if changed:
                    work.append(b)
        normal = set(state.get(g.exit, set()))
        exc = set(state.get(g.raise_, set()))
        info = {'state': state, 'prev': prev, 'over': over, 'g': g}
        return normal, exc, info

    def compute(self) -> None:
        for f in self.funcs:
            self.summary[f.qualname] = (set(), set())
        for _round in range(12):
            changed = False
            self.cfgs.clear()        # raise_pred depends on summaries
            self.atoms_cache.clear()
            for f in self.funcs:
                n, e, info = self.analyse(f)
                if info['over'] is not None:
                    nid, b, c = info['over']
                    self.unbounded[f.qualname] = (
                        f'D drifts beyond ±{BOUND} at '
                        f'L{info["g"].nodes[nid].lineno}')
                if (n, e) != self.summary[f.qualname]:
                    self.summary[f.qualname] = (n, e)
                    changed = True
                self.witness[f.qualname] = info
            if not changed:
                return
        raise AnalysisError('ledger summaries did not converge in 12 rounds')

    def path_to(self, fn: FuncInfo, exit_kind: str, value: int) -> List[str]:
        info = self.witness[fn.qualname]
        g: CFG = info['g']
        prev = info['prev']
        node = g.exit if exit_kind == 'normal' else g.raise_
        out = []
        cur = (node, value)
        guard = 0
        while cur in prev and guard < 400:
            guard += 1
            p, pv, lab = prev[cur]
            n = g.nodes[cur[0]]
            out.append(f'-{lab}-> L{n.lineno}:{n.kind}'
                       f'{" " + norm(n.ast).splitlines()[0][:70] if n.ast is not None else ""} [D={cur[1]:+d}]')
            cur = (p, pv)
        out.reverse()
        return out

    def entries(self) -> List[FuncInfo]:
        """Public API methods + timer callbacks (run as their own turn)."""
        out = []
        timer = set()
        for f in self.funcs:
            for n in ast.walk(f.node):
                if isinstance(n, ast.Call) and isinstance(
                        n.func, ast.Attribute) and n.func.attr in (
                            'call_later', 'call_soon', 'call_at'):
                    for a in n.args:
                        d = dotted(a)
                        if d and d.startswith('self.'):
                            timer.add(d[5:])
        for c in (self.base, self.pool):
            for name, f in c.methods.items():
                final = self.repo.find_method(self.pool.qualname, name)
                if final is not f:
                    continue   # overridden
                if name in timer or (not name.startswith('_')):
                    out.append(f)
        return out
