"""Small rename-tolerant shape queries used by rules instead of matching
source text: they key on API names (callee / attribute names, which are the
repository's own vocabulary) and on parameters by *position*, never on the
names of locals."""
from __future__ import annotations

import ast
from typing import Iterable, List, Optional, Sequence, Set, Tuple

from .model import call_name, dotted, norm, walk_no_nested


def param(fn_node, i: int, skip_self: bool = True) -> Optional[str]:
    a = fn_node.args
    ps = [x.arg for x in a.posonlyargs + a.args]
    if skip_self and ps and ps[0] in ('self', 'cls'):
        ps = ps[1:]
    return ps[i] if i < len(ps) else None


def last(name: Optional[str]) -> str:
    return (name or '').split('.')[-1]


def isinstance_arms(root: ast.AST, var: str
                    ) -> List[Tuple[Set[str], ast.If]]:
    """if/elif arms testing isinstance(var, C | (C1, C2)) -> ({names}, If)"""
    out = []
    for n in ast.walk(root):
        if not isinstance(n, ast.If):
            continue
        cands = [n.test]
        if isinstance(n.test, ast.BoolOp) and isinstance(n.test.op, ast.Or):
            cands = list(n.test.values)
        for c in cands:
            if isinstance(c, ast.Call) and dotted(c.func) == 'isinstance' \
                    and len(c.args) == 2 and norm(c.args[0]) == var:
                t = c.args[1]
                elts = t.elts if isinstance(t, (ast.Tuple, ast.List)) else [t]
                out.append(({last(dotted(e)) for e in elts}, n))
    return out


def calls_in(stmts: Iterable[ast.AST], name: str) -> List[ast.Call]:
    out = []
    for s in stmts:
        for c in ast.walk(s):
            if isinstance(c, ast.Call) and last(call_name(c)) == name:
                out.append(c)
    return out


def loops_over(stmts: Iterable[ast.AST], var: str) -> List[ast.For]:
    return [n for s in stmts for n in ast.walk(s)
            if isinstance(n, ast.For) and norm(n.iter) == var]


def assigns_attr(root: ast.AST, attr: str, recv: Optional[str] = None
                 ) -> List[ast.Assign]:
    """recv.attr = value   (recv None: any receiver)"""
    out = []
    for n in ast.walk(root):
        if isinstance(n, ast.Assign):
            for t in n.targets:
                if isinstance(t, ast.Attribute) and t.attr == attr and (
                        recv is None or norm(t.value) == recv):
                    out.append(n)
    return out


def subscript_stores(root: ast.AST, container_suffix: str
                     ) -> List[ast.Assign]:
    """X<container_suffix>[k] = v"""
    out = []
    for n in ast.walk(root):
        if isinstance(n, ast.Assign):
            for t in n.targets:
                if isinstance(t, ast.Subscript) and norm(t.value).endswith(
                        container_suffix):
                    out.append(n)
    return out


def raises(stmts: Iterable[ast.AST], exc_suffix: Optional[str] = None
           ) -> bool:
    for s in stmts:
        for r in ast.walk(s):
            if isinstance(r, ast.Raise):
                if exc_suffix is None or (r.exc is not None and exc_suffix
                                          in norm(r.exc)):
                    return True
    return False
