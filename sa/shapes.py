"""Small rename-tolerant shape queries used by rules instead of matching
source text: they key on API names (callee / attribute names, which are the
repository's own vocabulary) and on parameters by *position*, never on the
names of locals."""
from __future__ import annotations

import ast
from typing import Iterable, List, Optional, Sequence, Set, Tuple

from .model import call_name, dotted, norm, walk_no_nested


def param(fn_node, i: int, skip_self: bool = True) -> Optional[str]:
    a = fn_node.args
    ps = [x.arg for x in a.posonlyargs + a.args]
    if skip_self and ps and ps[0] in ('self', 'cls'):
        ps = ps[1:]
    return ps[i] if i < len(ps) else None


def last(name: Optional[str]) -> str:
    return (name or '').split('.')[-1]


def isinstance_arms(root: ast.AST, var: str
                    ) -> List[Tuple[Set[str], ast.If]]:
    """if/elif arms testing isinstance(var, C | (C1, C2)) -> ({names}, If)"""
    out = []
    for n in ast.walk(root):
        if not isinstance(n, ast.If):
            continue
        cands = [n.test]
        if isinstance(n.test, ast.BoolOp) and isinstance(n.test.op, ast.Or):
            cands = list(n.test.values)
        for c in cands:
            if isinstance(c, ast.Call) and dotted(c.func) == 'isinstance' \
                    and len(c.args) == 2 and norm(c.args[0]) == var:
                t = c.args[1]
                elts = t.elts if isinstance(t, (ast.Tuple, ast.List)) else [t]
                out.append(({last(dotted(e)) for e in elts}, n))
    return out


def calls_in(stmts: Iterable[ast.AST], name: str) -> List[ast.Call]:
    out = []
    for s in stmts:
        for c in ast.walk(s):
            if isinstance(c, ast.Call) and last(call_name(c)) == name:
                out.append(c)
    return out


def loops_over(stmts: Iterable[ast.AST], var: str) -> List[ast.For]:
    return [n for s in stmts for n in ast.walk(s)
            if isinstance(n, ast.For) and norm(n.iter) == var]


def assigns_attr(root: ast.AST, attr: str, recv: Optional[str] = None
                 ) -> List[ast.Assign]:
    """recv.attr = value   (recv None: any receiver)"""
    out = []
    for n in ast.walk(root):
        if isinstance(n, ast.Assign):
            for t in n.targets:
                if isinstance(t, ast.Attribute) and t.attr == attr and (
                        recv is None or norm(t.value) == recv):
                    out.append(n)
    return out


def subscript_stores(root: ast.AST, container_suffix: str
                     ) -> List[ast.Assign]:
    """X<container_suffix>[k] = v"""
    out = []
    for n in ast.walk(root):
        if isinstance(n, ast.Assign):
            for t in n.targets:
                if isinstance(t, ast.Subscript) and norm(t.value).endswith(
                        container_suffix):
                    out.append(n)
    return out


def raises(stmts: Iterable[ast.AST], exc_suffix: Optional[str] = None
           ) -> bool:
    for s in stmts:
        for r in ast.walk(s):
            if isinstance(r, ast.Raise):
                if exc_suffix is None or (r.exc is not None and exc_suffix
                                          in norm(r.exc)):
                    return True
    return False


def reach(repo, fn, depth: int = 2) -> List[ast.AST]:
    """The function together with what it hands work to inside its own
    module: same-module functions / same-class methods it calls (to `depth`)
    and the values of module-level tables it names.  Exhaustiveness rules
    ("every member has an arm") look here instead of in the function's own
    text, so that an arm moved into a helper or a dispatch table is still
    an arm."""
    seen: Set[int] = set()
    out: List[ast.AST] = []
    m = fn.module
    todo = [(fn.node, fn.cls, depth)]
    while todo:
        node, cls, d = todo.pop()
        if id(node) in seen:
            continue
        seen.add(id(node))
        out.append(node)
        if d <= 0:
            continue
        for x in ast.walk(node):
            if isinstance(x, ast.Name) and isinstance(x.ctx, ast.Load):
                if x.id in m.functions:
                    f2 = m.functions[x.id]
                    todo.append((f2.node, None, d - 1))
                elif x.id in m.assigns:
                    v = m.assigns[x.id]
                    if id(v) not in seen:
                        seen.add(id(v))
                        out.append(v)
            elif isinstance(x, ast.Attribute) and isinstance(
                    x.value, ast.Name) and x.value.id in ('self', 'cls') \
                    and cls is not None:
                f2 = repo.find_method(cls.qualname, x.attr)
                if f2 is not None and f2.module is m:
                    todo.append((f2.node, f2.cls, d - 1))
    return out


def mentions_member(nodes: Iterable[ast.AST], enum_simple: str,
                    member: str) -> bool:
    """some node contains `<...>.enum_simple.member`"""
    for n in nodes:
        for x in ast.walk(n):
            if isinstance(x, ast.Attribute) and x.attr == member:
                d = dotted(x.value) or ''
                if d.split('.')[-1] == enum_simple:
                    return True
    return False


def derives_from(fn_node: ast.AST, names: Iterable[str], source: str,
                 depth: int = 8) -> bool:
    """Some name in `names` is `source` or is bound (assignment, loop,
    with, unpacking, through containers: `x = c.pop()`, `c = [(a, b)]`,
    `c.append(y)` / `c.extend(..)`) from an expression that, transitively,
    mentions `source`.  Flow-insensitive: used to recognise a quantity that
    travels through locals (a work-list entry, an unpacked pair)."""
    feeds = {}

    def add(tgt, value):
        for t in ast.walk(tgt):
            if isinstance(t, ast.Name):
                feeds.setdefault(t.id, set()).update(
                    x.id for x in ast.walk(value) if isinstance(x, ast.Name))
    for n in ast.walk(fn_node):
        if isinstance(n, ast.Assign):
            for t in n.targets:
                add(t, n.value)
        elif isinstance(n, (ast.AnnAssign, ast.AugAssign)) and \
                n.value is not None:
            add(n.target, n.value)
        elif isinstance(n, (ast.For, ast.AsyncFor)):
            add(n.target, n.iter)
        elif isinstance(n, ast.comprehension):
            add(n.target, n.iter)
        elif isinstance(n, ast.NamedExpr):
            add(n.target, n.value)
        elif isinstance(n, (ast.With, ast.AsyncWith)):
            for it in n.items:
                if it.optional_vars is not None:
                    add(it.optional_vars, it.context_expr)
        elif isinstance(n, ast.Call) and isinstance(n.func, ast.Attribute) \
                and n.func.attr in ('append', 'extend', 'add', 'insert',
                                    'appendleft', 'update', 'push') \
                and isinstance(n.func.value, ast.Name):
            for a in n.args:
                feeds.setdefault(n.func.value.id, set()).update(
                    x.id for x in ast.walk(a) if isinstance(x, ast.Name))
    seen = set()
    todo = [(x, 0) for x in names]
    while todo:
        x, d = todo.pop()
        if x == source:
            return True
        if x in seen or d >= depth:
            continue
        seen.add(x)
        todo.extend((y, d + 1) for y in feeds.get(x, ()))
    return False
