"""Regular languages over field widths, for writer/reader wire-shape agreement
(C14.R1).  Regexes are tuples:
   ('eps',) ('sym', s) ('seq', r1, r2, ...) ('alt', r1, ...) ('star', r)
Symbols are strings: '1','2','4','8','16','V' (variable bytes), 'T:<TAG>'.
"""
from __future__ import annotations

import ast
import struct
from collections import deque
from typing import Dict, FrozenSet, List, Optional, Set, Tuple

EPS = ('eps',)
EMPTY = ('empty',)       # the empty language (no live path)


def sym(s): return ('sym', s)


def seq(*rs):
    out = []
    if any(r == EMPTY for r in rs):
        return EMPTY
    for r in rs:
        if r == EPS:
            continue
        if r[0] == 'seq':
            out.extend(r[1:])
        else:
            out.append(r)
    if not out:
        return EPS
    if len(out) == 1:
        return out[0]
    return ('seq',) + tuple(out)


def alt(*rs):
    out = []
    for r in rs:
        if r == EMPTY:
            continue
        if r[0] == 'alt':
            for x in r[1:]:
                if x not in out:
                    out.append(x)
        elif r not in out:
            out.append(r)
    if not out:
        return EMPTY
    if len(out) == 1:
        return out[0]
    return ('alt',) + tuple(out)


def star(r):
    if r == EPS or r == EMPTY:
        return EPS
    if r[0] == 'star':
        return r
    return ('star', r)


def show(r) -> str:
    k = r[0]
    if k == 'eps':
        return 'ε'
    if k == 'empty':
        return '∅'
    if k == 'sym':
        return r[1]
    if k == 'seq':
        return ' '.join(show(x) if x[0] != 'alt' else f'({show(x)})'
                        for x in r[1:])
    if k == 'alt':
        return ' | '.join(show(x) for x in r[1:])
    if k == 'star':
        return f'({show(r[1])})*'
    return '?'


class NFA:
    def __init__(self):
        self.n = 0
        self.eps: Dict[int, Set[int]] = {}
        self.tr: Dict[Tuple[int, str], Set[int]] = {}

    def new(self):
        self.n += 1
        return self.n - 1

    def build(self, r) -> Tuple[int, int]:
        k = r[0]
        s, e = self.new(), self.new()
        if k == 'eps':
            self.eps.setdefault(s, set()).add(e)
        elif k == 'empty':
            pass
        elif k == 'sym':
            self.tr.setdefault((s, r[1]), set()).add(e)
        elif k == 'seq':
            cur = s
            for x in r[1:]:
                a, b = self.build(x)
                self.eps.setdefault(cur, set()).add(a)
                cur = b
            self.eps.setdefault(cur, set()).add(e)
        elif k == 'alt':
            for x in r[1:]:
                a, b = self.build(x)
                self.eps.setdefault(s, set()).add(a)
                self.eps.setdefault(b, set()).add(e)
        elif k == 'star':
            a, b = self.build(r[1])
            self.eps.setdefault(s, set()).update({a, e})
            self.eps.setdefault(b, set()).update({a, e})
        return s, e

    def closure(self, states) -> FrozenSet[int]:
        seen = set(states)
        st = list(states)
        while st:
            x = st.pop()
            for y in self.eps.get(x, ()):
                if y not in seen:
                    seen.add(y)
                    st.append(y)
        return frozenset(seen)

    def step(self, S, a) -> FrozenSet[int]:
        out = set()
        for x in S:
            out |= self.tr.get((x, a), set())
        return self.closure(out)


def alphabet(r, out=None) -> Set[str]:
    out = set() if out is None else out
    if r[0] == 'sym':
        out.add(r[1])
    else:
        for x in r[1:]:
            if isinstance(x, tuple):
                alphabet(x, out)
    return out


def included(a, b) -> Optional[List[str]]:
    """None if L(a) ⊆ L(b), else a shortest word in L(a) \\ L(b)."""
    na, nb = NFA(), NFA()
    sa, ea = na.build(a)
    sb, eb = nb.build(b)
    sigma = sorted(alphabet(a) | alphabet(b))
    A0, B0 = na.closure([sa]), nb.closure([sb])
    q = deque([(A0, B0, [])])
    seen = {(A0, B0)}
    while q:
        A, B, w = q.popleft()
        if ea in A and eb not in B:
            return w
        for s in sigma:
            A2 = na.step(A, s)
            if not A2:
                continue
            B2 = nb.step(B, s)
            if (A2, B2) not in seen:
                seen.add((A2, B2))
                q.append((A2, B2, w + [s]))
    return None


# ----------------------------------------------------------------------
# abstract interpretation of writer / reader functions

class Unsupported(Exception):
    pass


def _d(node):
    parts = []
    while isinstance(node, ast.Attribute):
        parts.append(node.attr)
        node = node.value
    if isinstance(node, ast.Name):
        parts.append(node.id)
        return '.'.join(reversed(parts))
    return None


class WireModel:
    """Extracts width regexes from one module (sertypes)."""

    READS = {'read_ui8': '1', 'read_i8': '1', 'read_ui16': '2',
             'read_i16': '2', 'read_ui32': '4', 'read_i32': '4',
             'read_ui64': '8', 'read_i64': '8'}

    def __init__(self, module, gen: Tuple[int, int]):
        self.m = module
        self.gen = gen
        self.fn: Dict[str, ast.FunctionDef] = {}
        for n in module.tree.body:
            if isinstance(n, (ast.FunctionDef, ast.AsyncFunctionDef)):
                self.fn[n.name] = n      # last def wins (after overloads)
        self.struct_packers: Dict[str, str] = {}
        for name, val in module.assigns.items():
            # X = cast(..., struct.Struct('!H').pack)  /  struct.Struct(..)
            for c in ast.walk(val):
                if isinstance(c, ast.Call) and _d(c.func) == 'struct.Struct' \
                        and c.args and isinstance(c.args[0], ast.Constant):
                    w = struct.calcsize(c.args[0].value)
                    self.struct_packers[name] = str(w)
        self._w_memo: Dict[str, tuple] = {}
        self._r_memo: Dict[str, tuple] = {}

    # -- protocol generation tests ---------------------------------------
    def gen_test(self, test: ast.AST) -> Optional[bool]:
        """Evaluate `<x>.protocol_version >= (2, 0)` style tests."""
        if isinstance(test, ast.Compare) and len(test.ops) == 1:
            l = _d(test.left) or ''
            r = test.comparators[0]
            if l.endswith('protocol_version') and isinstance(r, ast.Tuple) \
                    and all(isinstance(e, ast.Constant) for e in r.elts):
                v = tuple(e.value for e in r.elts)
                op = test.ops[0]
                g = self.gen
                if isinstance(op, ast.GtE):
                    return g >= v
                if isinstance(op, ast.Gt):
                    return g > v
                if isinstance(op, ast.Lt):
                    return g < v
                if isinstance(op, ast.LtE):
                    return g <= v
                if isinstance(op, ast.Eq):
                    return g == v
        if isinstance(test, ast.BoolOp):
            vals = [self.gen_test(v) for v in test.values]
            if isinstance(test.op, ast.And):
                if any(v is False for v in vals):
                    return False
                if all(v is True for v in vals):
                    return True
            else:
                if any(v is True for v in vals):
                    return True
                if all(v is False for v in vals):
                    return False
        if isinstance(test, ast.UnaryOp) and isinstance(test.op, ast.Not):
            v = self.gen_test(test.operand)
            return None if v is None else (not v)
        return None

    # -- writer side ----------------------------------------------------------
    def bytes_expr(self, e: ast.AST, store: dict) -> tuple:
        """Regex of the bytes value of expression e."""
        if isinstance(e, ast.Constant) and isinstance(e.value, bytes):
            return seq(*[sym('1')] * len(e.value)) if e.value else EPS
        if isinstance(e, ast.BinOp) and isinstance(e.op, ast.Add):
            return seq(self.bytes_expr(e.left, store),
                       self.bytes_expr(e.right, store))
        if isinstance(e, ast.IfExp):
            return alt(self.bytes_expr(e.body, store),
                       self.bytes_expr(e.orelse, store))
        if isinstance(e, ast.Attribute):
            if e.attr == '_value_':
                d = _d(e.value) or ''
                if d.startswith('DescriptorTag.'):
                    return sym('T:' + d.split('.')[1])
                if isinstance(e.value, ast.Name) and e.value.id in store \
                        and isinstance(store[e.value.id], tuple) \
                        and store[e.value.id][0] == 'tag':
                    return sym('T:' + store[e.value.id][1])
                raise Unsupported(f'tag value {ast.unparse(e)}')
            if e.attr == 'bytes':
                return sym('16')
        if isinstance(e, ast.Name):
            v = store.get(e.id)
            if isinstance(v, tuple) and v and v[0] == 'bytes':
                return v[1]
            if isinstance(v, tuple) and v and v[0] in (
                    'eps', 'sym', 'seq', 'alt', 'star'):
                return v
            raise Unsupported(f'bytes of name {e.id}')
        if isinstance(e, ast.Call):
            d = _d(e.func)
            if d in self.struct_packers:
                return sym(self.struct_packers[d])
            if d in self.fn:
                return self.writer_fn(d)
            if d and d.endswith('.encode'):
                return sym('V')
            if d == 'cast' and len(e.args) == 2:
                return self.bytes_expr(e.args[1], store)
            # b''.join(f(x) for x in xs): any number of f's bytes
            if isinstance(e.func, ast.Attribute) and e.func.attr == 'join' \
                    and isinstance(e.func.value, ast.Constant) and \
                    e.func.value.value == b'' and len(e.args) == 1:
                a = e.args[0]
                if isinstance(a, (ast.GeneratorExp, ast.ListComp)):
                    return star(self.bytes_expr(a.elt, store))
                if isinstance(a, (ast.List, ast.Tuple)):
                    return seq(*[self.bytes_expr(x, store) for x in a.elts])
                if isinstance(a, ast.Name):
                    v = store.get(a.id)
                    if isinstance(v, tuple) and v and v[0] == 'list':
                        return v[1]
        raise Unsupported(f'bytes expression {ast.unparse(e)[:60]}')

    def writer_fn(self, name: str) -> tuple:
        """Regex of the bytes a helper returns (packers)."""
        if name in self._w_memo:
            return self._w_memo[name]
        self._w_memo[name] = EPS
        fn = self.fn[name]
        outs = self.run_writer(fn.body, {}, want_return=True)
        rs = [o['__ret__'] for o in outs if '__ret__' in o]
        if not rs:
            raise Unsupported(f'{name}: no return value')
        r = alt(*rs)
        self._w_memo[name] = r
        return r

    def run_writer(self, stmts, store: dict, want_return=False,
                   finish: str = '_finish_typedesc') -> List[dict]:
        """Execute statements abstractly; returns final stores.  A store
        that reached `finish(id, X, ...)` has '__done__' = regex of X; a
        store that returned a bytes value has '__ret__'."""
        states = [dict(store)]
        for st in stmts:
            nxt = []
            for s in states:
                if '__done__' in s or '__ret__' in s or s.get('__dead__'):
                    nxt.append(s)
                    continue
                nxt.extend(self._w_stmt(st, s, want_return, finish))
            states = nxt
        return states

    def _acc(self, s: dict, name: str) -> tuple:
        v = s.get(name)
        if isinstance(v, tuple) and v and v[0] in ('eps', 'sym', 'seq',
                                                   'alt', 'star'):
            return v
        return None

    def _list_expr(self, e: ast.AST, s: dict) -> tuple:
        if isinstance(e, (ast.List, ast.Tuple)):
            parts = []
            for x in e.elts:
                if isinstance(x, ast.Starred):
                    a = self._acc(s, _d(x.value) or '')
                    if a is None:
                        raise Unsupported(f'splat {ast.unparse(x)}')
                    parts.append(a)
                else:
                    parts.append(self.bytes_expr(x, s))
            return seq(*parts)
        raise Unsupported(f'list expr {ast.unparse(e)[:50]}')

    def _w_stmt(self, st, s: dict, want_return, finish) -> List[dict]:
        if isinstance(st, ast.Assign) and len(st.targets) == 1 and \
                isinstance(st.targets[0], ast.Name):
            name = st.targets[0].id
            v = st.value
            s = dict(s)
            if isinstance(v, (ast.List,)):
                try:
                    s[name] = self._list_expr(v, s)
                except Unsupported:
                    s.pop(name, None)
                return [s]
            d = _d(v) or ''
            if d.startswith('DescriptorTag.'):
                s[name] = ('tag', d.split('.')[1])
                return [s]
            if isinstance(v, ast.Constant) and v.value is None:
                s[name] = ('none',)
                return [s]
            # bytes accumulator (helpers): result = _uint16_packer(..)
            try:
                r = self.bytes_expr(v, s)
                s[name] = ('bytes', r)
                return [s]
            except Unsupported:
                pass
            if isinstance(v, ast.Call) and _d(v.func) == finish:
                return self._finish(v, s)
            s[name] = ('notnone',) if not isinstance(v, ast.Name) else \
                s.get(v.id, ('unknown',))
            return [s]
        if isinstance(st, ast.AugAssign) and isinstance(st.target, ast.Name) \
                and isinstance(st.op, ast.Add):
            name = st.target.id
            cur = s.get(name)
            if isinstance(cur, tuple) and cur[0] == 'bytes':
                s = dict(s)
                s[name] = ('bytes', seq(cur[1], self.bytes_expr(st.value, s)))
                return [s]
            return [s]
        if isinstance(st, ast.Expr) and isinstance(st.value, ast.Call):
            c = st.value
            f = c.func
            if isinstance(f, ast.Attribute) and isinstance(f.value, ast.Name):
                acc = self._acc(s, f.value.id)
                if acc is not None and f.attr in ('append', 'extend'):
                    s = dict(s)
                    try:
                        if f.attr == 'append':
                            add = self.bytes_expr(c.args[0], s)
                        else:
                            add = self._list_expr(c.args[0], s)
                        s[f.value.id] = seq(acc, add)
                    except Unsupported:
                        # not a byte buffer (a list of types, names, ...)
                        s[f.value.id] = ('unknown',)
                    return [s]
            if _d(f) == finish:
                return self._finish(c, s)
            return [s]
        if isinstance(st, ast.Return):
            if st.value is not None and isinstance(st.value, ast.Call) and \
                    _d(st.value.func) == finish:
                return self._finish(st.value, s)
            s = dict(s)
            if want_return and st.value is not None:
                try:
                    s['__ret__'] = self.bytes_expr(st.value, s)
                    return [s]
                except Unsupported:
                    pass
            s['__dead__'] = True      # early-out without emitting
            return [s]
        if isinstance(st, ast.Raise):
            s = dict(s)
            s['__dead__'] = True
            return [s]
        if isinstance(st, ast.If):
            g = self.gen_test(st.test)
            if g is True:
                return self.run_writer(st.body, s, want_return, finish)
            if g is False:
                return self.run_writer(st.orelse, s, want_return, finish)
            # nullness facts on a local
            t = st.test
            known = None
            if isinstance(t, ast.Compare) and len(t.ops) == 1 and isinstance(
                    t.left, ast.Name) and isinstance(
                        t.comparators[0], ast.Constant) and \
                    t.comparators[0].value is None:
                v = s.get(t.left.id)
                if isinstance(v, tuple) and v[0] in ('none', 'notnone'):
                    isnone = v[0] == 'none'
                    known = isnone if isinstance(t.ops[0], ast.Is) else \
                        (not isnone)
            if known is True:
                return self.run_writer(st.body, s, want_return, finish)
            if known is False:
                return self.run_writer(st.orelse, s, want_return, finish)
            return self.run_writer(st.body, s, want_return, finish) + \
                self.run_writer(st.orelse, s, want_return, finish)
        if isinstance(st, (ast.For, ast.While)):
            accs = [k for k, v in s.items() if self._acc(s, k) is not None
                    or (isinstance(v, tuple) and v and v[0] == 'bytes')]
            base = dict(s)
            for k in accs:
                base[k] = EPS if self._acc(s, k) is not None else \
                    ('bytes', EPS)
            outs = self.run_writer(st.body, base, want_return, finish)
            s2 = dict(s)
            for k in accs:
                deltas = []
                for o in outs:
                    if o.get('__dead__'):
                        continue
                    v = o.get(k)
                    if isinstance(v, tuple) and v and v[0] == 'bytes':
                        v = v[1]
                    if v is None:
                        continue
                    deltas.append(v)
                if not deltas:
                    continue
                d = star(alt(*deltas))
                if self._acc(s, k) is not None:
                    s2[k] = seq(s[k], d)
                else:
                    s2[k] = ('bytes', seq(s[k][1], d))
            return [s2]
        if isinstance(st, (ast.With,)):
            return self.run_writer(st.body, s, want_return, finish)
        if isinstance(st, ast.Try):
            return self.run_writer(st.body, s, want_return, finish)
        return [s]

    def _finish(self, call: ast.Call, s: dict) -> List[dict]:
        s = dict(s)
        acc = self._acc(s, _d(call.args[1]) or '')
        if acc is None:
            raise Unsupported(f'finish with {ast.unparse(call.args[1])}')
        s['__done__'] = acc
        return [s]

    def writer_language(self, fn: ast.FunctionDef) -> Optional[tuple]:
        outs = self.run_writer(fn.body, {})
        rs = [o['__done__'] for o in outs if '__done__' in o]
        if not rs:
            return None
        return alt(*rs)

    # -- reader side ----------------------------------------------------------
    def reader_fn(self, name: str, param: str = 'desc') -> tuple:
        if name in self._r_memo:
            return self._r_memo[name]
        self._r_memo[name] = EPS
        fn = self.fn[name]
        pnames = [a.arg for a in fn.args.args]
        # the BinWrapper parameter: annotated binwrapper.BinWrapper or 'desc'
        p = None
        for a in fn.args.args:
            if a.annotation is not None and 'BinWrapper' in ast.unparse(
                    a.annotation):
                p = a.arg
        if p is None:
            p = 'desc' if 'desc' in pnames else None
        if p is None:
            raise Unsupported(f'{name}: no stream parameter')
        r = self.run_reader(fn.body, p)
        self._r_memo[name] = r
        return r

    def expr_reads(self, e: ast.AST, p: str) -> tuple:
        """Regex of stream reads while evaluating expression e."""
        if e is None:
            return EPS
        if isinstance(e, ast.Call):
            parts = []
            f = e.func
            if isinstance(f, ast.Attribute):
                parts.append(self.expr_reads(f.value, p))
            for a in e.args:
                parts.append(self.expr_reads(a, p))
            for k in e.keywords:
                parts.append(self.expr_reads(k.value, p))
            if isinstance(f, ast.Attribute) and isinstance(
                    f.value, ast.Name) and f.value.id == p:
                if f.attr in self.READS:
                    parts.append(sym(self.READS[f.attr]))
                elif f.attr == 'read_bytes':
                    a = e.args[0]
                    if isinstance(a, ast.Constant) and isinstance(
                            a.value, int):
                        parts.append(sym(str(a.value)) if a.value in (
                            1, 2, 4, 8, 16) else seq(*[sym('1')] * a.value))
                    else:
                        parts.append(sym('V'))
                elif f.attr == 'read_len32_prefixed_bytes':
                    parts.append(seq(sym('4'), sym('V')))
                elif f.attr in ('tell',):
                    pass
                else:
                    raise Unsupported(f'stream method {f.attr}')
            else:
                d = _d(f)
                passes = any(isinstance(a, ast.Name) and a.id == p
                             for a in e.args)
                if passes:
                    if d in self.fn:
                        parts.append(self.reader_fn(d))
                    else:
                        raise Unsupported(f'stream passed to {d}')
            return seq(*parts)
        if isinstance(e, (ast.ListComp, ast.GeneratorExp, ast.SetComp)):
            inner = self.expr_reads(e.elt, p)
            gens = seq(*[self.expr_reads(g.iter, p) for g in e.generators])
            return seq(gens, star(inner))
        if isinstance(e, ast.DictComp):
            inner = seq(self.expr_reads(e.key, p), self.expr_reads(e.value, p))
            gens = seq(*[self.expr_reads(g.iter, p) for g in e.generators])
            return seq(gens, star(inner))
        if isinstance(e, ast.IfExp):
            return seq(self.expr_reads(e.test, p),
                       alt(self.expr_reads(e.body, p),
                           self.expr_reads(e.orelse, p)))
        if isinstance(e, ast.BoolOp):
            parts = [self.expr_reads(e.values[0], p)]
            for v in e.values[1:]:
                r = self.expr_reads(v, p)
                parts.append(alt(EPS, r))
            return seq(*parts)
        parts = []
        for c in ast.iter_child_nodes(e):
            if isinstance(c, ast.expr):
                parts.append(self.expr_reads(c, p))
            elif isinstance(c, ast.keyword):
                parts.append(self.expr_reads(c.value, p))
        return seq(*parts)

    def run_reader(self, stmts, p: str) -> tuple:
        """Regex of reads along all paths; paths ending in raise are
        dropped; `return` ends a path."""
        alts = self._r_block(stmts, p)
        live = [r for r, _ in alts]
        return alt(*live) if live else EMPTY

    def _r_block(self, stmts, p) -> List[Tuple[tuple, bool]]:
        """list of (regex, returned?) alternatives; dead paths removed."""
        cur: List[Tuple[tuple, bool]] = [(EPS, False)]
        for st in stmts:
            nxt = []
            for r, done in cur:
                if done:
                    nxt.append((r, done))
                    continue
                for r2, d2 in self._r_stmt(st, p):
                    nxt.append((seq(r, r2), d2))
            cur = nxt
            if not cur:
                break
        return cur

    def _r_stmt(self, st, p) -> List[Tuple[tuple, bool]]:
        if isinstance(st, ast.Raise):
            return []
        if isinstance(st, ast.Return):
            return [(self.expr_reads(st.value, p), True)]
        if isinstance(st, ast.If):
            g = self.gen_test(st.test)
            if g is True:
                return self._r_block(st.body, p)
            if g is False:
                return self._r_block(st.orelse, p)
            t = self.expr_reads(st.test, p)
            out = []
            for r, d in self._r_block(st.body, p) + self._r_block(
                    st.orelse, p):
                out.append((seq(t, r), d))
            return out
        if isinstance(st, (ast.For, ast.While)):
            it = self.expr_reads(st.iter, p) if isinstance(st, ast.For) \
                else self.expr_reads(st.test, p)
            body = self._r_block(st.body, p)
            rs = [r for r, d in body if not d]
            inner = star(alt(*rs)) if rs else EPS
            return [(seq(it, inner), False)]
        if isinstance(st, ast.Try):
            out = self._r_block(st.body, p)
            res = []
            for r, d in out:
                if d or not st.orelse:
                    res.append((r, d))
                else:
                    for r2, d2 in self._r_block(st.orelse, p):
                        res.append((seq(r, r2), d2))
            # handlers: the try body read something then failed; handlers
            # that re-raise are dead; others continue after whatever prefix
            # of the body was read (over-approximated by the full body)
            for h in st.handlers:
                hb = self._r_block(h.body, p)
                for r, d in hb:
                    for rb, _ in out or [(EPS, False)]:
                        res.append((seq(rb, r), d))
            return res
        if isinstance(st, ast.With):
            return self._r_block(st.body, p)
        if isinstance(st, (ast.FunctionDef, ast.ClassDef)):
            return [(EPS, False)]
        parts = []
        for c in ast.iter_child_nodes(st):
            if isinstance(c, ast.expr):
                parts.append(self.expr_reads(c, p))
        return [(seq(*parts), False)]
