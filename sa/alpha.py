"""Alpha-canonicalisation of local variable names.

Rules are written against the local names the analysed functions had when the
rules were written (recorded in /verif/baseline/locals.json by
tools/gen_baseline.py).  Renaming a local is behaviour-preserving, so before
any rule runs, each function whose set of locals differs from the baseline is
aligned with it: a local that is new is matched to a baseline local that
vanished when both have the same *definition fingerprint* (the normalised
right-hand sides of their defining statements with every local abstracted),
and is renamed back in the in-memory tree.  The renaming is a consistent
bijection that avoids capture, so the analysed program is the same program
whatever the alignment decides; an unmatched local simply keeps its name.
"""
from __future__ import annotations

import ast
import gzip
import json
import os
from typing import Dict, List, Optional, Set, Tuple

_BASE: Optional[Dict[str, Dict[str, List[str]]]] = None
BASEFILE = os.path.join(os.path.dirname(os.path.dirname(
    os.path.abspath(__file__))), 'baseline', 'locals.json.gz')


def baseline() -> Dict[str, Dict[str, List[str]]]:
    global _BASE
    if _BASE is None:
        try:
            with gzip.open(BASEFILE, 'rt') as f:
                _BASE = json.load(f)
        except OSError:
            _BASE = {}
    return _BASE


def scope_locals(fn: ast.AST) -> Tuple[Set[str], Set[str]]:
    """(locals, banned) for the scope of a top-level function including its
    nested functions (closures share the names)."""
    banned: Set[str] = set()
    stores: Set[str] = set()
    for n in ast.walk(fn):
        if isinstance(n, (ast.FunctionDef, ast.AsyncFunctionDef, ast.Lambda)):
            a = n.args
            banned |= {x.arg for x in a.posonlyargs + a.args + a.kwonlyargs}
            if a.vararg:
                banned.add(a.vararg.arg)
            if a.kwarg:
                banned.add(a.kwarg.arg)
            if n is not fn and not isinstance(n, ast.Lambda):
                banned.add(n.name)
        elif isinstance(n, (ast.Global, ast.Nonlocal)):
            banned |= set(n.names)
        elif isinstance(n, ast.ClassDef):
            banned.add(n.name)
        elif isinstance(n, (ast.Import, ast.ImportFrom)):
            for al in n.names:
                banned.add((al.asname or al.name).split('.')[0])
        elif isinstance(n, ast.ExceptHandler) and n.name:
            banned.add(n.name)
        elif isinstance(n, (ast.MatchAs, ast.MatchStar)) and n.name:
            banned.add(n.name)
        elif isinstance(n, ast.Name) and isinstance(n.ctx, ast.Store):
            stores.add(n.id)
    return stores - banned, banned


class _Abstract(ast.NodeTransformer):
    def __init__(self, names):
        self.names = names

    def visit_Name(self, node):
        if node.id in self.names:
            return ast.Name(id='_', ctx=ast.Load())
        return node


class _Canon(ast.NodeTransformer):
    """operand order of commutative comparisons and of and/or, and the
    direction of < / >, do not matter for a fingerprint"""
    def visit_Compare(self, node):
        self.generic_visit(node)
        if len(node.ops) == 1:
            op = type(node.ops[0])
            a, b = node.left, node.comparators[0]
            if op in (ast.Gt, ast.GtE):
                op = ast.Lt if op is ast.Gt else ast.LtE
                a, b = b, a
            elif op in (ast.Eq, ast.NotEq, ast.Is, ast.IsNot):
                if _u0(b) < _u0(a):
                    a, b = b, a
            return ast.Compare(left=a, ops=[op()], comparators=[b])
        return node

    def visit_BoolOp(self, node):
        self.generic_visit(node)
        node.values = sorted(node.values, key=_u0)
        return node


def _u0(e) -> str:
    try:
        return ast.unparse(e)
    except Exception:
        return ast.dump(e)


def _abs(e: Optional[ast.AST], names: Set[str]) -> str:
    if e is None:
        return ''
    import copy
    t = _Abstract(names).visit(copy.deepcopy(e))
    t = _Canon().visit(t)
    try:
        return ast.unparse(t)
    except Exception:
        return ast.dump(t)


def _targets(t: ast.AST, path: str = ''):
    if isinstance(t, ast.Name):
        yield t.id, path
    elif isinstance(t, (ast.Tuple, ast.List)):
        for i, e in enumerate(t.elts):
            yield from _targets(e, f'{path}.{i}')
    elif isinstance(t, ast.Starred):
        yield from _targets(t.value, path + '*')


def fingerprints(fn: ast.AST) -> Dict[str, List[str]]:
    names, _ = scope_locals(fn)
    fps: Dict[str, List[str]] = {}

    def add(name, kind, rhs, path=''):
        if name in names:
            fps.setdefault(name, []).append(
                f'{kind}{path}:{_abs(rhs, names)}')

    nodes = sorted((n for n in ast.walk(fn) if hasattr(n, 'lineno')),
                   key=lambda n: (n.lineno, n.col_offset))
    nodes += [n for n in ast.walk(fn) if isinstance(n, ast.comprehension)]
    for n in nodes:
        if isinstance(n, ast.Assign):
            for t in n.targets:
                for nm, pth in _targets(t):
                    add(nm, '=', n.value, pth)
        elif isinstance(n, ast.AnnAssign):
            for nm, pth in _targets(n.target):
                add(nm, ':', n.value, pth)
        elif isinstance(n, ast.AugAssign):
            for nm, pth in _targets(n.target):
                add(nm, type(n.op).__name__ + '=', n.value, pth)
        elif isinstance(n, (ast.For, ast.AsyncFor)):
            for nm, pth in _targets(n.target):
                add(nm, 'for', n.iter, pth)
        elif isinstance(n, ast.comprehension):
            for nm, pth in _targets(n.target):
                add(nm, 'comp', n.iter, pth)
        elif isinstance(n, (ast.With, ast.AsyncWith)):
            for it in n.items:
                if it.optional_vars is not None:
                    for nm, pth in _targets(it.optional_vars):
                        add(nm, 'with', it.context_expr, pth)
        elif isinstance(n, ast.NamedExpr):
            for nm, pth in _targets(n.target):
                add(nm, ':=', n.value, pth)
    return fps


class _Rename(ast.NodeVisitor):
    def __init__(self, mapping):
        self.m = mapping

    def visit_Name(self, node):
        if node.id in self.m:
            node.id = self.m[node.id]


def align(fn: ast.AST, base: Dict[str, List[str]]) -> Dict[str, str]:
    cur_names, _banned = scope_locals(fn)
    if cur_names == set(base):
        return {}
    extra = [n for n in cur_names if n not in base]
    missing = [n for n in base if n not in cur_names]
    if not extra or not missing:
        return {}
    cur = fingerprints(fn)
    used_ids = {n.id for n in ast.walk(fn) if isinstance(n, ast.Name)}
    # first-definition order of the current extras
    order = {nm: i for i, nm in enumerate(cur)}
    extra.sort(key=lambda x: order.get(x, 1 << 30))
    mapping: Dict[str, str] = {}
    taken: Set[str] = set()
    for e in extra:
        fe = cur.get(e)
        if not fe:
            continue
        for b in missing:
            if b in taken or b in used_ids:
                continue
            if sorted(base[b]) == sorted(fe):
                mapping[e] = b
                taken.add(b)
                break
    return mapping


def _plain_else(n: ast.If) -> bool:
    return bool(n.orelse) and not (len(n.orelse) == 1 and isinstance(
        n.orelse[0], ast.If))


def _neg(t: ast.expr) -> ast.expr:
    if isinstance(t, ast.UnaryOp) and isinstance(t.op, ast.Not):
        return t.operand
    return ast.UnaryOp(op=ast.Not(), operand=t)


def _sig(stmts) -> str:
    """shape of a block that does not change when nested if/else statements
    are flipped: simple statements by text, compound ones by kind"""
    import hashlib
    parts = []
    for st in (stmts if isinstance(stmts, list) else [stmts]):
        if isinstance(st, (ast.Assign, ast.AugAssign, ast.AnnAssign,
                           ast.Expr, ast.Return, ast.Raise, ast.Pass,
                           ast.Break, ast.Continue, ast.Assert, ast.Delete)):
            try:
                parts.append(ast.unparse(st))
            except Exception:
                parts.append(type(st).__name__)
        elif isinstance(st, ast.expr):
            parts.append('E' if isinstance(st, ast.IfExp)
                         else ast.unparse(st))
        else:
            parts.append(type(st).__name__)
    return hashlib.sha1('\n'.join(parts).encode()).hexdigest()[:8]


def _if_nodes(fn: ast.AST):
    return sorted((n for n in ast.walk(fn) if (
        isinstance(n, ast.If) and n.orelse) or isinstance(
        n, ast.IfExp)), key=lambda n: (n.lineno, n.col_offset))


def if_tests(fn: ast.AST) -> List[List[str]]:
    """[test text, shape of the true arm, shape of the false arm] of every
    if/else statement (plain else) and conditional expression, in source
    order.  Locals keep their names: polarity is undone after the alpha
    renaming, when the names agree with the baseline again."""
    out = []
    for n in _if_nodes(fn):
        if isinstance(n, ast.If) and not _plain_else(n):
            continue
        out.append([_abs(n.test, set()), _sig(n.body), _sig(n.orelse)])
    return out


def undo_polarity(fn: ast.AST, base_tests) -> int:
    """An if/else (or conditional expression) that is the mirror image of a
    baseline one (negated test, arms exchanged), with no baseline entry of
    its own shape left, is flipped back."""
    from collections import Counter
    want = Counter(tuple(x) for x in base_tests)
    nodes = _if_nodes(fn)
    todo = []
    for n in nodes:
        plain = isinstance(n, ast.IfExp) or _plain_else(n)
        key = (_abs(n.test, set()), _sig(n.body), _sig(n.orelse))
        if plain and want[key] > 0:
            want[key] -= 1
        else:
            # (an `else:` holding a single `if` looks like an elif chain;
            # it is a flip candidate as well)
            todo.append(n)
    k = 0
    for n in todo:
        neg = _neg(n.test)
        key = (_abs(neg, set()), _sig(n.orelse), _sig(n.body))
        if want[key] > 0:
            want[key] -= 1
            n.test = neg
            n.body, n.orelse = n.orelse, n.body
            k += 1
    return k


_FLIP = {ast.Eq: ast.Eq, ast.NotEq: ast.NotEq, ast.Is: ast.Is,
         ast.IsNot: ast.IsNot, ast.Lt: ast.Gt, ast.Gt: ast.Lt,
         ast.LtE: ast.GtE, ast.GtE: ast.LtE}


def _u(e) -> str:
    try:
        return ast.unparse(e)
    except Exception:
        return ast.dump(e)


def compares(fn: ast.AST) -> List[str]:
    return [_u(n) for n in ast.walk(fn) if isinstance(n, ast.Compare)
            and len(n.ops) == 1 and type(n.ops[0]) in _FLIP]


def boolops(fn: ast.AST) -> List[List[str]]:
    return [[type(n.op).__name__] + [_u(v) for v in n.values]
            for n in ast.walk(fn) if isinstance(n, ast.BoolOp)]


def undo_flips(fn: ast.AST, base_cmp: List[str],
               base_bool: List[List[str]]) -> int:
    """`b == a` for a baseline `a == b` (and `b > a` for `a < b`) is turned
    back; operands of and / or are put back into the baseline order when
    they are the same operands.  (Reordering operands of and/or is only
    behaviour-preserving for effect-free operands; that is what a refactor
    that does it assumes, and the analysis never executes them.)"""
    from collections import Counter
    k = 0
    want = Counter(base_cmp)
    todo = []
    for n in ast.walk(fn):
        if isinstance(n, ast.Compare) and len(n.ops) == 1 and \
                type(n.ops[0]) in _FLIP:
            t = _u(n)
            if want[t] > 0:
                want[t] -= 1
            else:
                todo.append(n)
    for n in todo:
        flipped = ast.Compare(left=n.comparators[0],
                              ops=[_FLIP[type(n.ops[0])]()],
                              comparators=[n.left])
        t = _u(flipped)
        if want[t] > 0:
            want[t] -= 1
            n.left, n.comparators, n.ops = (flipped.left,
                                            flipped.comparators, flipped.ops)
            k += 1
    wantb = Counter(tuple(x) for x in base_bool)
    by_bag = {}
    for x in base_bool:
        by_bag.setdefault((x[0], tuple(sorted(x[1:]))), []).append(x)
    for n in ast.walk(fn):
        if not isinstance(n, ast.BoolOp):
            continue
        cur = tuple([type(n.op).__name__] + [_u(v) for v in n.values])
        if wantb[cur] > 0:
            wantb[cur] -= 1
            continue
        cands = by_bag.get((cur[0], tuple(sorted(cur[1:]))), [])
        for c in cands:
            if wantb[tuple(c)] > 0:
                wantb[tuple(c)] -= 1
                order = {t: i for i, t in enumerate(c[1:])}
                if len(order) == len(c) - 1:      # distinct operands only
                    n.values.sort(key=lambda v: order[_u(v)])
                    k += 1
                break
    return k


# ---------------------------------------------------------------------
# inert statements, fresh temporaries, guard clauses
#
# Three more behaviour-preserving edits are undone against the baseline:
#   * a logging statement the baseline function did not have is dropped
#     (logging does not touch the state any property speaks about);
#   * a local the baseline function did not have, bound once to an
#     effect-free expression and read only by the statement that follows the
#     binding, is inlined there (the hoisted sub-expression goes back);
#   * `if not c: return|continue` followed by the rest of a function / loop
#     body is folded back to the baseline's `if c: <rest>` and vice versa.
_LOGGERS = {'logger', 'log', 'logging', '_logger', 'LOG'}
_LEVELS = {'debug', 'info', 'warning', 'warn', 'error', 'exception',
           'critical', 'log'}


def _is_log_stmt(st: ast.AST) -> bool:
    if not (isinstance(st, ast.Expr) and isinstance(st.value, ast.Call)):
        return False
    f = st.value.func
    if not (isinstance(f, ast.Attribute) and f.attr in _LEVELS):
        return False
    base = f.value
    while isinstance(base, ast.Attribute):
        base = base.value
    if not (isinstance(base, ast.Name) and (
            base.id in _LOGGERS or (isinstance(f.value, ast.Attribute) and
                                    f.value.attr in _LOGGERS))):
        return False
    return not any(isinstance(x, (ast.Await, ast.Yield, ast.YieldFrom,
                                  ast.NamedExpr)) for x in ast.walk(st))


def _blocks(fn: ast.AST):
    """(owner node, field name, statement list) of every block in fn"""
    for n in ast.walk(fn):
        for f in ('body', 'orelse', 'finalbody'):
            b = getattr(n, f, None)
            if isinstance(b, list) and b and isinstance(b[0], ast.stmt):
                yield n, f, b


def log_stmts(fn: ast.AST) -> List[str]:
    return [_u(st) for _o, _f, b in _blocks(fn) for st in b
            if _is_log_stmt(st)]


def strip_new_logs(fn: ast.AST, base_logs: List[str]) -> int:
    from collections import Counter
    want = Counter(base_logs)
    k = 0
    for _o, _f, b in list(_blocks(fn)):
        keep = []
        for st in b:
            if _is_log_stmt(st):
                t = _u(st)
                if want[t] > 0:
                    want[t] -= 1
                else:
                    k += 1
                    continue
            keep.append(st)
        if len(keep) != len(b):
            if not keep:
                keep = [ast.copy_location(ast.Pass(), b[0])]
            b[:] = keep
    return k


_PURE = (ast.Name, ast.Attribute, ast.Constant, ast.Load, ast.Subscript,
         ast.Tuple, ast.Slice)
_SIMPLE = (ast.Assign, ast.AugAssign, ast.AnnAssign, ast.Expr, ast.Return,
           ast.Raise, ast.Assert, ast.Delete)


def _pure(e: ast.AST) -> bool:
    return all(isinstance(x, _PURE) for x in ast.walk(e))


class _Subst(ast.NodeTransformer):
    def __init__(self, name, value):
        self.name, self.value, self.n = name, value, 0

    def visit_Name(self, node):
        if node.id == self.name and isinstance(node.ctx, ast.Load):
            import copy
            self.n += 1
            return ast.copy_location(copy.deepcopy(self.value), node)
        return node


def _header(st: ast.AST) -> List[ast.AST]:
    if isinstance(st, _SIMPLE):
        return [st]
    if isinstance(st, (ast.If, ast.While)):
        return [st.test]
    if isinstance(st, (ast.For, ast.AsyncFor)):
        return [st.iter]
    if isinstance(st, (ast.With, ast.AsyncWith)):
        return [it.context_expr for it in st.items]
    return []


def inline_new_temps(fn: ast.AST, base_locals) -> int:
    names, _ = scope_locals(fn)
    new = names - set(base_locals)
    if not new:
        return 0
    stores: Dict[str, int] = {}
    loads: Dict[str, int] = {}
    for n in ast.walk(fn):
        if isinstance(n, ast.Name):
            d = loads if isinstance(n.ctx, ast.Load) else stores
            d[n.id] = d.get(n.id, 0) + 1
    k = 0
    for _o, _f, b in list(_blocks(fn)):
        i = 0
        while i + 1 < len(b):
            st = b[i]
            if (isinstance(st, ast.Assign) and len(st.targets) == 1 and
                    isinstance(st.targets[0], ast.Name) and
                    st.targets[0].id in new and
                    stores.get(st.targets[0].id) == 1 and
                    _pure(st.value) and not isinstance(st.value,
                                                       ast.Constant)):
                t = st.targets[0].id
                hdr = _header(b[i + 1])
                here = sum(1 for h in hdr for x in ast.walk(h)
                           if isinstance(x, ast.Name) and x.id == t and
                           isinstance(x.ctx, ast.Load))
                if here and here == loads.get(t, 0):
                    sub = _Subst(t, st.value)
                    nxt = b[i + 1]
                    if isinstance(nxt, _SIMPLE):
                        b[i + 1] = sub.visit(nxt)
                    elif isinstance(nxt, (ast.If, ast.While)):
                        nxt.test = sub.visit(nxt.test)
                    elif isinstance(nxt, (ast.For, ast.AsyncFor)):
                        nxt.iter = sub.visit(nxt.iter)
                    else:
                        for it in nxt.items:
                            it.context_expr = sub.visit(it.context_expr)
                    del b[i]
                    k += 1
                    continue
            i += 1
    return k


def _jump_kind(body) -> str:
    if len(body) != 1:
        return ''
    j = body[0]
    if isinstance(j, ast.Continue):
        return 'continue'
    if isinstance(j, ast.Return) and (j.value is None or (
            isinstance(j.value, ast.Constant) and j.value.value is None)):
        return 'return'
    return ''


def _guard_sites(fn: ast.AST):
    """(block, jump kind it may end with) for the blocks where a trailing
    `if c: rest` and `if not c: jump` + rest are the same program: the body
    of fn itself (return) and direct loop bodies (continue)"""
    yield fn.body, 'return'
    for n in ast.walk(fn):
        if isinstance(n, (ast.FunctionDef, ast.AsyncFunctionDef)) and \
                n is not fn:
            yield n.body, 'return'
        if isinstance(n, (ast.For, ast.AsyncFor, ast.While)):
            yield n.body, 'continue'


def noelse_ifs(fn: ast.AST) -> List[List[str]]:
    """[test, shape of body, shape of the rest of the block] for every
    else-less `if` that sits in a guard site"""
    out = []
    for blk, _jk in _guard_sites(fn):
        for i, st in enumerate(blk):
            if isinstance(st, ast.If) and not st.orelse:
                out.append([_abs(st.test, set()), _sig(st.body),
                            _sig(blk[i + 1:])])
    return out


def undo_guards(fn: ast.AST, base_n: List[List[str]]) -> int:
    from collections import Counter
    want = Counter(tuple(x) for x in base_n)
    sites = list(_guard_sites(fn))
    for blk, _jk in sites:
        for i, st in enumerate(blk):
            if isinstance(st, ast.If) and not st.orelse:
                key = (_abs(st.test, set()), _sig(st.body),
                       _sig(blk[i + 1:]))
                if want[key] > 0:
                    want[key] -= 1
                    st._alpha_seen = True
    k = 0
    for blk, jk in sites:
        i = 0
        while i < len(blk):
            st = blk[i]
            if not (isinstance(st, ast.If) and not st.orelse) or \
                    getattr(st, '_alpha_seen', False):
                i += 1
                continue
            rest = blk[i + 1:]
            neg = _neg(st.test)
            if _jump_kind(st.body) == jk and rest:
                # guard clause now, nested form in the baseline
                key = (_abs(neg, set()), _sig(rest), _sig([]))
                if want[key] > 0:
                    want[key] -= 1
                    new = ast.copy_location(
                        ast.If(test=neg, body=rest, orelse=[]), st)
                    new._alpha_seen = True
                    blk[i:] = [new]
                    k += 1
                    break
            elif not rest and len(st.body) >= 1:
                # nested form now, guard clause in the baseline
                jump = ast.Continue() if jk == 'continue' else \
                    ast.Return(value=None)
                for jtxt in ((['continue'] if jk == 'continue'
                              else ['return', 'return None'])):
                    key = (_abs(neg, set()), _sig_text(jtxt),
                           _sig(st.body))
                    if want[key] > 0:
                        want[key] -= 1
                        g = ast.copy_location(
                            ast.If(test=neg, body=[ast.copy_location(
                                jump, st)], orelse=[]), st)
                        g._alpha_seen = True
                        blk[i:] = [g] + st.body
                        k += 1
                        break
                break
            i += 1
    return k


def _sig_text(stmt_text: str) -> str:
    import hashlib
    return hashlib.sha1(stmt_text.encode()).hexdigest()[:8]


def all_tests(fn: ast.AST) -> List[str]:
    """canonical text of every branch condition of fn (nested functions
    included): if / elif / while / conditional expressions / comprehension
    filters / assert"""
    out = []
    for n in ast.walk(fn):
        if isinstance(n, (ast.If, ast.While, ast.IfExp)):
            out.append(_abs(n.test, set()))
        elif isinstance(n, ast.comprehension):
            out += [_abs(c, set()) for c in n.ifs]
        elif isinstance(n, ast.Assert):
            out.append(_abs(n.test, set()))
    return out


# id(function node) -> canonical test texts the baseline function had; filled
# for functions of modules that differ from the baseline (model.Repo._alpha).
# A function of an unchanged module has no entry: it has no new tests.
BASE_TESTS: Dict[int, Set[str]] = {}


def register_base_tests(key: str, fn: ast.AST) -> None:
    b = baseline().get(key) or {}
    ts = set(b.get('t', []))
    for n in ast.walk(fn):
        if isinstance(n, (ast.FunctionDef, ast.AsyncFunctionDef)):
            BASE_TESTS[id(n)] = ts


def new_tests(fn: Optional[ast.AST]) -> Optional[Set[str]]:
    """canonical texts of the tests of fn that its baseline version did not
    have; None when fn belongs to an unchanged module (nothing is new)"""
    if fn is None or id(fn) not in BASE_TESTS:
        return None
    base = BASE_TESTS[id(fn)]
    return {t for t in all_tests(fn) if t not in base}


def canon_test(e: ast.AST) -> str:
    return _abs(e, set())


def canonicalise_function(key: str, fn: ast.AST) -> int:
    b = baseline().get(key)
    if not b:
        # nothing recorded (no locals, tests or log statements then, or a
        # new function): only the additions can be undone
        return strip_new_logs(fn, []) + inline_new_temps(fn, ())
    mp = align(fn, b.get('l', {}))
    if mp:
        _Rename(mp).visit(fn)
    k = 0
    k += strip_new_logs(fn, b.get('g', []))
    k += inline_new_temps(fn, b.get('l', {}))
    if 'n' in b:
        k += undo_guards(fn, b.get('n', []))
    if 'c' in b:
        k += undo_flips(fn, b.get('c', []), b.get('b', []))
    if 'i' in b:
        k += undo_polarity(fn, b.get('i', []))
    return len(mp) + k


def stable_keys(funcs) -> Dict[str, str]:
    """qualname -> key that does not depend on line numbers: the k-th
    definition of a repeated name (overloads, singledispatch `_`) is
    `name#k`."""
    groups: Dict[str, list] = {}
    for q, f in funcs.items():
        groups.setdefault(q.split('@')[0], []).append(f)
    out = {}
    for base, fs in groups.items():
        fs.sort(key=lambda f: f.node.lineno)
        for k, f in enumerate(fs):
            out[f.qualname] = base if k == 0 else f'{base}#{k}'
    return out


# ---------------------------------------------------------------------
# extracted helpers
#
# "Extract function" is behaviour-preserving: a run of statements moves into
# a fresh function and is replaced by a call.  The rules speak about the
# function the statements used to be in, so a function the baseline tree did
# not have, all of whose uses are plain calls in statement position inside
# the same module, is inlined back at those calls (and dropped) before the
# module is indexed.  Only the simple shape is undone -- no decorators, no
# generator, no *args/**kwargs, at most one `return` and that as the last
# statement; anything else keeps its spelling.  Inlined statements get
# fractional line numbers after the call's line so that position-order
# comparisons stay meaningful.

def def_table(tree: ast.Module, modname: str):
    """qualified name -> (def node, owning class node or None, container
    list) for module-level functions and methods (classes nested in classes
    included)"""
    out = {}

    def rec(body, prefix, cls):
        for st in body:
            if isinstance(st, (ast.FunctionDef, ast.AsyncFunctionDef)):
                out.setdefault(f'{prefix}.{st.name}', (st, cls, body))
            elif isinstance(st, ast.ClassDef):
                rec(st.body, f'{prefix}.{st.name}', st)
            elif isinstance(st, (ast.If, ast.Try)):
                for f in ('body', 'orelse', 'finalbody'):
                    rec(getattr(st, f, []) or [], prefix, cls)
    rec(tree.body, modname, None)
    return out


def nested_table(tree: ast.Module, modname: str):
    """qualified name `outer.inner` -> (inner def, outer def, block holding
    the inner def) for functions defined directly inside a module-level
    function or method (one level)"""
    out = {}
    for q, (f, _c, _b) in def_table(tree, modname).items():
        for _o, _f, blk in _blocks(f):
            for st in blk:
                if isinstance(st, (ast.FunctionDef, ast.AsyncFunctionDef)) \
                        and st is not f:
                    # directly inside f, not inside another nested def
                    owner = f
                    for x in ast.walk(f):
                        if x is not f and x is not st and isinstance(
                                x, (ast.FunctionDef, ast.AsyncFunctionDef)) \
                                and any(y is st for y in ast.walk(x)):
                            owner = x
                    if owner is f:
                        out.setdefault(f'{q}.{st.name}', (st, f, blk))
    return out


def _own_nodes(fn):
    """nodes of fn's own body, nested function bodies excluded"""
    todo = list(fn.body)
    while todo:
        n = todo.pop()
        yield n
        if isinstance(n, (ast.FunctionDef, ast.AsyncFunctionDef, ast.Lambda,
                          ast.ClassDef)):
            continue
        todo.extend(ast.iter_child_nodes(n))


def _tail_returns_only(body) -> bool:
    """every `return` of the block is in tail position (last statement, or
    last statement of an if/else arm / with body in tail position)"""
    if not body:
        return True
    for st in body[:-1]:
        if any(isinstance(x, ast.Return) for x in _own_nodes_of(st)):
            return False
    last = body[-1]
    if isinstance(last, ast.Return):
        return True
    if isinstance(last, ast.If):
        return _tail_returns_only(last.body) and _tail_returns_only(
            last.orelse)
    if isinstance(last, (ast.With, ast.AsyncWith)):
        return _tail_returns_only(last.body)
    return not any(isinstance(x, ast.Return) for x in _own_nodes_of(last))


def _own_nodes_of(st):
    todo = [st]
    while todo:
        n = todo.pop()
        yield n
        if isinstance(n, (ast.FunctionDef, ast.AsyncFunctionDef, ast.Lambda,
                          ast.ClassDef)) and n is not st:
            continue
        todo.extend(ast.iter_child_nodes(n))


def _replace_tail_returns(body, make):
    """rewrite the tail returns of a block with make(value-or-None) ->
    list of statements; a tail position that falls through gets
    make(None) appended"""
    if not body:
        return make(None)
    last = body[-1]
    if isinstance(last, ast.Return):
        return body[:-1] + make(last.value)
    if isinstance(last, ast.If) and any(
            isinstance(x, ast.Return) for x in _own_nodes_of(last)):
        last.body = _replace_tail_returns(last.body, make)
        last.orelse = _replace_tail_returns(last.orelse, make)
        return body
    if isinstance(last, (ast.With, ast.AsyncWith)) and any(
            isinstance(x, ast.Return) for x in _own_nodes_of(last)):
        last.body = _replace_tail_returns(last.body, make)
        return body
    return body + make(None)


def _is_plain_return(st) -> bool:
    return isinstance(st, ast.Return) and (st.value is None or (
        isinstance(st.value, ast.Constant) and st.value.value is None))


def _fold_guards(body):
    """`if c: return` + rest  ->  `if not c: rest` (value-less returns at
    the top level of a helper's body only); returns a new statement list or
    None when nothing was folded"""
    for i, st in enumerate(body):
        if isinstance(st, ast.If) and not st.orelse and len(st.body) == 1 \
                and _is_plain_return(st.body[0]):
            rest = body[i + 1:]
            if not rest:
                return body[:i] + [ast.copy_location(ast.Expr(
                    value=st.test), st)]
            folded = _fold_guards(rest) or rest
            new = ast.copy_location(ast.If(test=_neg(st.test), body=folded,
                                           orelse=[]), st)
            return body[:i] + [new]
    return None


def _inlinable(h) -> bool:
    if h.decorator_list:
        if not all(isinstance(d, ast.Name) and d.id == 'staticmethod'
                   for d in h.decorator_list):
            return False
    a = h.args
    if a.vararg or a.kwarg:
        return False
    for d in list(a.defaults) + [d for d in a.kw_defaults if d is not None]:
        if not isinstance(d, ast.Constant):
            return False
    rets = sum(1 for n in _own_nodes(h) if isinstance(n, ast.Return))
    if rets > 1 or (rets == 1 and not isinstance(h.body[-1], ast.Return)):
        # value-less guard returns fold into nested ifs when the helper
        # yields nothing (or only None)
        if all(_is_plain_return(n) for n in _own_nodes(h)
               if isinstance(n, ast.Return)):
            body = list(h.body)
            if body and _is_plain_return(body[-1]):
                body = body[:-1]
            folded = _fold_guards(body)
            if folded is not None:
                h.body = folded or [ast.Pass()]
    rets = 0
    for n in _own_nodes(h):
        if isinstance(n, (ast.Yield, ast.YieldFrom, ast.Global, ast.Nonlocal)):
            return False
        if isinstance(n, ast.Return):
            rets += 1
        if isinstance(n, ast.Name) and n.id == h.name:
            return False
    if rets and not _tail_returns_only(h.body):
        # returns out of loops / the middle of the body: the body can only
        # be copied verbatim, where "return" means the same thing for the
        # caller -- `return h(..)`, or a bare `h(..)` in tail position when
        # the helper returns nothing
        if all(_is_plain_return(n) for n in _own_nodes(h)
               if isinstance(n, ast.Return)):
            return 'anyplain'
        return 'any'
    # nested functions / lambdas / comprehensions close over the helper's
    # names; renaming through them is handled, but `nonlocal` is not
    return 'tail'


def _in_tail_position(fn, st) -> bool:
    def tail(block) -> bool:
        k = len(block) - 1
        while k >= 0 and _is_plain_return(block[k]) and block[k] is not st:
            k -= 1
        if k < 0:
            return False
        s_ = block[k]
        if s_ is st:
            return True
        if isinstance(s_, ast.If):
            return tail(s_.body) or tail(s_.orelse)
        if isinstance(s_, (ast.With, ast.AsyncWith)):
            return tail(s_.body)
        return False
    return tail(fn.body)


def _call_of(st, is_async):
    """(call, form) when the statement is `h(..)`, `t = h(..)`,
    `return h(..)` (each optionally awaited)"""
    if isinstance(st, ast.Expr):
        v, form = st.value, 'expr'
    elif isinstance(st, ast.Assign) and len(st.targets) == 1:
        v, form = st.value, 'assign'
    elif isinstance(st, ast.AnnAssign) and st.value is not None:
        v, form = st.value, 'assign'
    elif isinstance(st, ast.Return) and st.value is not None:
        v, form = st.value, 'return'
    elif isinstance(st, ast.AugAssign):
        v, form = st.value, 'aug'
    elif isinstance(st, ast.Raise) and st.exc is not None and \
            st.cause is None:
        v, form = st.exc, 'raise'
    else:
        return None, None
    if isinstance(v, ast.Await):
        if not is_async:
            return None, None
        v = v.value
    elif is_async:
        return None, None
    if isinstance(v, ast.Call):
        return v, form
    return None, None


def _simple_arg(e) -> bool:
    while isinstance(e, ast.Attribute):
        e = e.value
    return isinstance(e, (ast.Name, ast.Constant))


class _RenameAll(ast.NodeTransformer):
    def __init__(self, mp, subst):
        self.mp, self.subst = mp, subst

    def visit_Name(self, node):
        if node.id in self.subst and isinstance(node.ctx, ast.Load):
            import copy
            return copy.deepcopy(self.subst[node.id])
        if node.id in self.mp:
            node.id = self.mp[node.id]
        return node

    def visit_arg(self, node):
        return node


def _bind_args(h, call, bound_self):
    """param name -> argument expression (None when it cannot be bound)"""
    a = h.args
    params = [x.arg for x in a.posonlyargs + a.args]
    kwonly = [x.arg for x in a.kwonlyargs]
    out = {}
    pos = list(call.args)
    if any(isinstance(x, ast.Starred) for x in pos) or any(
            k.arg is None for k in call.keywords):
        return None
    if bound_self is not None:
        if not params:
            return None
        out[params[0]] = bound_self
        params = params[1:]
    if len(pos) > len(params):
        return None
    for p, x in zip(params, pos):
        out[p] = x
    for k in call.keywords:
        if k.arg in out or k.arg not in params + kwonly:
            return None
        out[k.arg] = k.value
    nd = len(a.defaults)
    allp = [x.arg for x in a.posonlyargs + a.args]
    for p, d in zip(allp[len(allp) - nd:], a.defaults):
        out.setdefault(p, d)
    for p, d in zip(kwonly, a.kw_defaults):
        if d is not None:
            out.setdefault(p, d)
    want = set(allp) | set(kwonly)
    if set(out) != want:
        return None
    return out


def _names_in(n) -> Set[str]:
    return {x.id for x in ast.walk(n) if isinstance(x, ast.Name)}


def _stored_in(n) -> Set[str]:
    out = set()
    for x in ast.walk(n):
        if isinstance(x, ast.Name) and isinstance(x.ctx, (ast.Store,
                                                           ast.Del)):
            out.add(x.id)
        elif isinstance(x, (ast.FunctionDef, ast.AsyncFunctionDef,
                            ast.ClassDef)):
            out.add(x.name)
        elif isinstance(x, ast.ExceptHandler) and x.name:
            out.add(x.name)
        elif isinstance(x, ast.alias):
            out.add((x.asname or x.name).split('.')[0])
    return out


def _setline(nodes, line):
    for st in nodes:
        for x in ast.walk(st):
            if hasattr(x, 'lineno'):
                x.lineno = line
                x.end_lineno = line


def _live_after(caller, st) -> Optional[Set[str]]:
    """names whose value at the end of statement st may still be read
    (a load reachable from st with no store in between); None when the CFG
    cannot be built"""
    try:
        from .cfg import CFG
        g = CFG(caller)
        ids = g.nodes_of(st)
        if not ids:
            return None
        live: Set[str] = set()
        # per node: loads, stores (loads of `x = x + 1` come first)
        info = {}
        for n in g.nodes:
            ld, sto = set(), set()
            for e in g.node_exprs(n):
                for x in ast.walk(e):
                    if isinstance(x, ast.Name):
                        (ld if isinstance(x.ctx, ast.Load) else sto).add(
                            x.id)
                    elif isinstance(x, (ast.FunctionDef,
                                        ast.AsyncFunctionDef)):
                        sto.add(x.name)
            if isinstance(n.ast, (ast.FunctionDef, ast.AsyncFunctionDef,
                                  ast.ClassDef)):
                # a nested definition reads its free names whenever called
                ld |= {x.id for x in ast.walk(n.ast)
                       if isinstance(x, ast.Name)}
                sto.add(n.ast.name)
            if isinstance(n.ast, ast.AugAssign) and isinstance(
                    n.ast.target, ast.Name):
                ld.add(n.ast.target.id)
            info[n.id] = (ld, sto)
        allnames = set()
        for ld, sto in info.values():
            allnames |= ld
        start = [s_ for i_ in ids for s_, _l in g.nodes[i_].succ]
        for name in allnames:
            seen = set()
            stack = list(start)
            while stack:
                x = stack.pop()
                if x in seen:
                    continue
                seen.add(x)
                ld, sto = info.get(x, (set(), set()))
                if name in ld:
                    live.add(name)
                    break
                if name in sto:
                    continue
                stack.extend(s_ for s_, _l in g.nodes[x].succ)
        return live
    except Exception:
        return None


def _inline_at(caller, blk, i, h, call, form, bound_self, uid,
               verbatim: bool = False) -> bool:
    import copy
    st = blk[i]
    binding = _bind_args(h, call, bound_self)
    if binding is None:
        return False
    body = copy.deepcopy(h.body)
    ret = None
    multi = sum(1 for s_ in body for x in _own_nodes_of(s_)
                if isinstance(x, ast.Return)) > 1 or (
        body and not isinstance(body[-1], ast.Return) and any(
            isinstance(x, ast.Return) for s_ in body
            for x in _own_nodes_of(s_)))
    if not multi and body and isinstance(body[-1], ast.Return):
        ret = body.pop().value
    h_params = list(binding)
    h_stores = set()
    for s in body:
        h_stores |= _stored_in(s)
    caller_names = _names_in(caller) | {
        x.arg for x in ast.walk(caller) if isinstance(x, ast.arg)}
    # loads of a caller name after the call (position-wise), or anywhere in
    # an enclosing loop
    line = st.lineno
    later = set()
    for x in ast.walk(caller):
        if isinstance(x, ast.Name) and isinstance(x.ctx, ast.Load) and \
                getattr(x, 'lineno', 0) > line:
            later.add(x.id)
    for x in ast.walk(caller):
        if isinstance(x, (ast.For, ast.AsyncFor, ast.While)) and any(
                y is st for y in ast.walk(x)):
            later |= {y.id for y in ast.walk(x) if isinstance(y, ast.Name)
                      and isinstance(y.ctx, ast.Load)}
    nested = set()
    for x in ast.walk(caller):
        if x is not caller and isinstance(x, (ast.FunctionDef,
                                              ast.AsyncFunctionDef,
                                              ast.Lambda)):
            nested |= _names_in(x)
    lv = _live_after(caller, st)
    if lv is not None:
        # exact: only names still live after the call are in the way
        later = lv
    # names the call statement itself binds (targets) are rebound right
    # after the inlined body: not a collision
    tgt_names = set()
    if form == 'assign':
        t = st.targets[0] if isinstance(st, ast.Assign) else st.target
        tgt_names = {x.id for x in ast.walk(t) if isinstance(x, ast.Name)}
    subst, rename, prelude = {}, {}, []
    for p in h_params:
        arg = binding[p]
        if isinstance(arg, ast.Name) and arg.id == p:
            if p in h_stores and p in later and p not in tgt_names:
                # the helper rebinds its parameter; the caller's variable
                # of the same name must keep its value
                rename[p] = f'{p}__h{uid}'
                prelude.append((rename[p], arg))
            continue
        if p not in h_stores and _simple_arg(arg) and not (
                _names_in(arg) & h_stores):
            subst[p] = arg
            continue
        new = p
        if p in caller_names and (p in later or p in nested) \
                and p not in tgt_names:
            new = f'{p}__h{uid}'
            rename[p] = new
        prelude.append((new, arg))
    for s in sorted(h_stores):
        if s in binding:
            continue
        if s in caller_names and (s in later or s in nested) and \
                s not in tgt_names:
            rename[s] = f'{s}__h{uid}'
    tr = _RenameAll(rename, subst)
    body = [tr.visit(s) for s in body]
    if ret is not None:
        ret = tr.visit(ret)
    out = [ast.Assign(targets=[ast.Name(id=n, ctx=ast.Store())],
                      value=copy.deepcopy(a)) for n, a in prelude]
    if verbatim:
        if ret is not None:
            body.append(ast.Return(value=ret))
        out += body
        if form == 'return' and not (body and isinstance(
                body[-1], (ast.Return, ast.Raise))):
            out.append(ast.Return(value=ast.Constant(value=None)))
        if not out:
            out = [ast.Pass()]
        for k_, s_ in enumerate(out):
            ast.fix_missing_locations(s_)
            _setline([s_], line + (k_ + 1) * 1e-4)
        blk[i:i + 1] = out
        return True
    if multi:
        tgt0 = None
        if form == 'assign':
            tgt0 = st.targets[0] if isinstance(st, ast.Assign) else st.target

        def make(val):
            if form == 'return':
                return [ast.Return(value=val)]
            if form == 'assign':
                return [ast.Assign(
                    targets=[copy.deepcopy(tgt0)],
                    value=val if val is not None
                    else ast.Constant(value=None))]
            if form == 'aug':
                return [ast.AugAssign(
                    target=copy.deepcopy(st.target), op=st.op,
                    value=val if val is not None
                    else ast.Constant(value=None))]
            if form == 'raise':
                return [ast.Raise(exc=val if val is not None
                                  else ast.Constant(value=None), cause=None)]
            if val is None or all(isinstance(x, _PURE)
                                  for x in ast.walk(val)):
                return [ast.Pass()]
            return [ast.Expr(value=val)]
        out += _replace_tail_returns(body, make)
        for k_, s_ in enumerate(out):
            ast.fix_missing_locations(s_)
            _setline([s_], line + (k_ + 1) * 1e-4)
        blk[i:i + 1] = out
        return True
    out += body
    if form == 'expr':
        if ret is not None and not all(isinstance(x, _PURE + (ast.Tuple,))
                                       for x in ast.walk(ret)):
            out.append(ast.Expr(value=ret))
    elif form == 'assign':
        val = ret if ret is not None else ast.Constant(value=None)
        tgt = st.targets[0] if isinstance(st, ast.Assign) else st.target
        if not (_u(tgt) == _u(val)):
            if isinstance(st, ast.Assign):
                out.append(ast.Assign(targets=[tgt], value=val))
            else:
                out.append(ast.AnnAssign(target=tgt, annotation=st.annotation,
                                         value=val, simple=st.simple))
    elif form == 'aug':
        out.append(ast.AugAssign(
            target=st.target, op=st.op,
            value=ret if ret is not None else ast.Constant(value=None)))
    elif form == 'raise':
        out.append(ast.Raise(
            exc=ret if ret is not None else ast.Constant(value=None),
            cause=None))
    else:
        out.append(ast.Return(value=ret))
    if not out:
        out = [ast.Pass()]
    for k, s in enumerate(out):
        ast.fix_missing_locations(s)
        _setline([s], line + (k + 1) * 1e-4)
    blk[i:i + 1] = out
    return True


def _hoist_nested_call(blk, i, is_target, uid) -> bool:
    """`return (q, h(q))` -> `_xh = h(q); return (q, _xh)` when the call to
    a new helper is the only thing in the statement that is not a plain
    read (names, attributes, constants, displays and calls of plain
    callables on such reads): moving it first keeps the order of effects"""
    st = blk[i]
    if not isinstance(st, (ast.Return, ast.Assign, ast.Expr, ast.AugAssign,
                           ast.AnnAssign)) or st.value is None:
        return False
    root = st.value
    found = []

    def scan(n, top):
        """in evaluation order: everything evaluated before the helper call
        is a plain read; what comes after it may be anything (but not a
        second helper call)"""
        if found:
            return not any(isinstance(x, ast.Call) and is_target(x)
                           for x in ast.walk(n))
        if isinstance(n, ast.Call) and is_target(n) and not top:
            f_ = n.func
            if isinstance(f_, ast.Attribute) and not _pure(f_.value):
                return False
            found.append(n)
            return True
        if isinstance(n, ast.Call):
            if is_target(n):
                return False       # the whole value: a plain site
            if not _pure(n.func):
                return False
            for a in list(n.args) + [k.value for k in n.keywords]:
                if not scan(a, False):
                    return False
                if not found and not _pure(a):
                    return False
            return True
        if isinstance(n, (ast.Tuple, ast.List, ast.Set)):
            for e in n.elts:
                if not scan(e, False):
                    return False
                if not found and not _pure(e):
                    return False
            return True
        if isinstance(n, ast.Starred):
            return scan(n.value, False)
        return _pure(n)
    if not scan(root, True) or len(found) != 1:
        return False
    call = found[0]
    tmp = f'_xh{uid}'

    class R(ast.NodeTransformer):
        def visit_Call(self, node):
            if node is call:
                return ast.copy_location(ast.Name(id=tmp, ctx=ast.Load()),
                                         node)
            return self.generic_visit(node)
    new_assign = ast.copy_location(ast.Assign(
        targets=[ast.Name(id=tmp, ctx=ast.Store())], value=call), st)
    ast.fix_missing_locations(new_assign)
    st.value = R().visit(st.value)
    blk.insert(i, new_assign)
    return True


def portable_new_methods(tree: ast.Module, modname: str, known: Set[str],
                         taken: Set[str]):
    """new methods that other modules can call on an object of the class
    and that can be copied there: the name is borne by no baseline function
    anywhere (`taken`), the body mentions nothing but `self`, its own
    parameters / locals and builtins"""
    import builtins
    out = []
    for q, (h, hcls, _c) in def_table(tree, modname).items():
        if hcls is None or q in known or h.name in taken or \
                h.name.startswith('__'):
            continue
        if h.decorator_list or not h.args.args:
            continue
        if _inlinable(h) != 'tail':
            continue
        a = h.args
        local = {x.arg for x in a.posonlyargs + a.args + a.kwonlyargs}
        local |= {x.id for x in ast.walk(h) if isinstance(x, ast.Name)
                  and isinstance(x.ctx, ast.Store)}
        free = {x.id for st_ in h.body for x in ast.walk(st_)
                if isinstance(x, ast.Name)
                and isinstance(x.ctx, ast.Load)} - local
        if all(hasattr(builtins, n) for n in free):
            out.append((h, hcls))
    return out


def undo_extractions(tree: ast.Module, modname: str, known: Set[str],
                     other_sources=None, base_funcs=None,
                     known_nested: Optional[Set[str]] = None,
                     foreign=()) -> int:
    """Inline functions that are not in `known` (the baseline's function
    table of this module) at their call sites in this module."""
    defs = def_table(tree, modname)
    done = 0
    if base_funcs is not None:
        seen = set()
        for q, (f, _c, _b) in defs.items():
            if q in seen:
                continue
            seen.add(q)
            done += unroll_new_table_loops(
                f, (base_funcs.get(q) or {}).get('l', {}))
    new = {q: v for q, v in defs.items() if q not in known}
    # closures the baseline function did not have: helpers of one function
    enclosing = {}
    if known_nested is not None:
        for q, (h, outer, blk) in nested_table(tree, modname).items():
            if q not in known_nested and q.rsplit('.', 1)[0] in known:
                new[q] = (h, None, blk)
                enclosing[id(h)] = outer
    foreign_ids = set()
    for k_, (h_, hc_) in enumerate(foreign):
        if not any(v[0] is h_ for v in defs.values()):
            new[f'<foreign>.{k_}.{h_.name}'] = (h_, hc_, None)
            foreign_ids.add(id(h_))
    if not new:
        return done
    uid = 0
    # innermost helpers first (a helper extracted from a helper)
    for q, (h, hcls, container) in sorted(
            new.items(), key=lambda kv: -kv[1][0].lineno):
        mode = _inlinable(h)
        if not mode:
            continue
        if id(h) in enclosing:
            # a closure must not rebind names of the enclosing function
            if any(isinstance(n, ast.Nonlocal) for n in ast.walk(h)):
                continue
        is_async = isinstance(h, ast.AsyncFunctionDef)
        is_static = any(isinstance(d, ast.Name) and d.id == 'staticmethod'
                        for d in h.decorator_list)
        # every mention of the name in the module
        sites, other = [], 0
        call_funcs = set()
        owners = [v[0] for qq, v in def_table(tree, modname).items()
                  if v[0] is not h]
        scope_root = tree
        if id(h) in enclosing:
            owners = [enclosing[id(h)]]
            scope_root = enclosing[id(h)]

        # a new method whose name no other function of the module (old or
        # new) bears can be recognised on any receiver
        unique = hcls is not None and not is_static and sum(
            1 for qq in def_table(tree, modname)
            if qq.rsplit('.', 1)[-1] == h.name) == 1 and not any(
            kq.rsplit('.', 1)[-1] == h.name for kq in known)
        if id(h) in foreign_ids:
            unique = not any(qq.rsplit('.', 1)[-1] == h.name
                             for qq in def_table(tree, modname))

        def _is_h(c, h=h, hcls=hcls, unique=unique):
            f = c.func
            if hcls is None:
                return isinstance(f, ast.Name) and f.id == h.name
            if not (isinstance(f, ast.Attribute) and f.attr == h.name):
                return False
            if isinstance(f.value, ast.Name) and f.value.id in (
                    'self', 'cls'):
                return True
            return unique and _pure(f.value)
        if not is_async:
            for caller in owners:
                for _o, _f, blk in list(_blocks(caller)):
                    k_ = 0
                    while k_ < len(blk):
                        uid += 1
                        if _hoist_nested_call(blk, k_, _is_h, uid):
                            k_ += 1
                        k_ += 1
        for caller in owners:
            for _o, _f, blk in list(_blocks(caller)):
                for st in blk:
                    if any(y is st for y in ast.walk(h)):
                        continue
                    c, form = _call_of(st, is_async)
                    if c is None:
                        continue
                    f = c.func
                    if hcls is None and isinstance(f, ast.Name) and \
                            f.id == h.name:
                        sites.append((caller, blk, st, c, form, None))
                        call_funcs.add(id(f))
                    elif hcls is not None and isinstance(f, ast.Attribute) \
                            and f.attr == h.name and unique and not (
                                isinstance(f.value, ast.Name) and
                                f.value.id in ('self', 'cls', hcls.name)) \
                            and _pure(f.value):
                        sites.append((caller, blk, st, c, form, f.value))
                        call_funcs.add(id(f))
                    elif hcls is not None and isinstance(f, ast.Attribute) \
                            and f.attr == h.name and isinstance(
                                f.value, ast.Name) and f.value.id in (
                                'self', 'cls', hcls.name):
                        recv = None if (is_static or f.value.id == hcls.name
                                        and is_static) else f.value
                        if f.value.id == hcls.name and not is_static:
                            continue
                        sites.append((caller, blk, st, c, form, recv))
                        call_funcs.add(id(f))
        for x in ast.walk(scope_root):
            if isinstance(x, ast.Name) and x.id == h.name and \
                    id(x) not in call_funcs and hcls is None:
                other += 1
            elif isinstance(x, ast.Attribute) and x.attr == h.name and \
                    id(x) not in call_funcs:
                other += 1
        if not sites:
            continue
        # nested-function callers: the block walk above reaches them through
        # their top-level owner; a site is attributed to the innermost def
        ok_all = True
        for caller, blk, st, c, form, recv in sites:
            inner = caller
            for x in ast.walk(caller):
                if isinstance(x, (ast.FunctionDef, ast.AsyncFunctionDef)) \
                        and x is not caller and any(
                            y is st for y in ast.walk(x)):
                    inner = x
            try:
                i = next(k for k, s in enumerate(blk) if s is st)
            except StopIteration:
                ok_all = False
                continue
            uid += 1
            verbatim = False
            if mode != 'tail':
                if (form == 'return' and mode in ('any', 'anyplain')) or (
                        mode == 'anyplain' and form == 'expr'
                        and _in_tail_position(inner, st)):
                    verbatim = True
                else:
                    ok_all = False
                    continue
            if _inline_at(inner, blk, i, h, c, form, recv, uid, verbatim):
                done += 1
                renumber(caller)
            else:
                ok_all = False
        if container is not None and ok_all and other == 0 and (
                id(h) in enclosing or not (
                    other_sources and any(h.name in s
                                          for s in other_sources))):
            try:
                container.remove(h)
                if not container:
                    container.append(ast.Pass())
            except ValueError:
                pass
    return done


# ---------------------------------------------------------------------
# position renumbering and table-driven loops

def renumber(fn: ast.AST) -> None:
    """After statements were moved into fn from elsewhere, give every
    statement a strictly increasing (fractional) line number inside fn's
    own line range, in source order; expressions take their statement's
    number.  Reports show the approximate line; order comparisons stay
    exact."""
    order: List[ast.stmt] = []

    def rec(body):
        for st in body:
            order.append(st)
            for f in ('body', 'orelse', 'finalbody'):
                b = getattr(st, f, None)
                if isinstance(b, list) and b and isinstance(b[0], ast.stmt):
                    rec(b)
            for h in getattr(st, 'handlers', []) or []:
                order.append(h)
                rec(h.body)
            for c in getattr(st, 'cases', []) or []:
                rec(c.body)
    rec(fn.body)
    lo = float(getattr(fn, 'lineno', 1))
    hi = float(max(getattr(fn, 'end_lineno', lo) or lo, lo + 1))
    n = len(order)
    num = {}
    for i, st in enumerate(order):
        num[id(st)] = round(lo + (i + 1) * (hi - lo) / (n + 1), 5)

    def paint(node, line):
        for ch in ast.iter_child_nodes(node):
            if id(ch) in num:
                continue
            if isinstance(ch, list):
                continue
            if hasattr(ch, 'lineno') or isinstance(ch, (ast.expr, ast.arg,
                                                         ast.keyword)):
                try:
                    ch.lineno = line
                    ch.end_lineno = line
                except Exception:
                    pass
            paint(ch, line)
    for st in order:
        ln = num[id(st)]
        st.lineno = ln
        paint(st, ln)
    # end of a compound statement = last statement inside it
    for st in reversed(order):
        last = st.lineno
        for ch in ast.walk(st):
            if id(ch) in num and num[id(ch)] > last:
                last = num[id(ch)]
        st.end_lineno = last


def _loose_jump(st) -> bool:
    def rec(n, inloop):
        if isinstance(n, (ast.Break, ast.Continue)) and not inloop:
            return True
        if isinstance(n, (ast.FunctionDef, ast.AsyncFunctionDef, ast.Lambda)):
            return False
        il = inloop or isinstance(n, (ast.For, ast.AsyncFor, ast.While))
        return any(rec(c, il) for c in ast.iter_child_nodes(n))
    return any(rec(c, False) for c in st)


def unroll_new_table_loops(fn: ast.AST, base_locals) -> int:
    """`for a, b in ((x1, y1), (x2, y2)): body` over a literal table of
    simple expressions (names, attribute chains, constants), when the
    baseline function had no such loop, becomes one copy of the body per
    row with the row substituted.  Reading a name or an attribute has no
    effect, so evaluating the row at its uses instead of up front is the
    same program provided the body does not rebind what a row mentions."""
    import copy
    names, _ = scope_locals(fn)
    had = set()
    for fps in (base_locals or {}).values():
        for fp in fps:
            if fp.startswith('for'):
                had.add(fp.split(':', 1)[1])
    k = 0
    for _o, _f, blk in list(_blocks(fn)):
        i = 0
        while i < len(blk):
            st = blk[i]
            i += 1
            if not (isinstance(st, ast.For) and not st.orelse and
                    isinstance(st.iter, (ast.Tuple, ast.List)) and
                    st.iter.elts):
                continue
            if _abs(st.iter, names) in had:
                continue
            tg = st.target
            tnames = [t.id for t in (tg.elts if isinstance(
                tg, (ast.Tuple, ast.List)) else [tg])
                if isinstance(t, ast.Name)]
            arity = len(tg.elts) if isinstance(tg, (ast.Tuple, ast.List)) \
                else 0
            if len(tnames) != max(arity, 1) or arity < 2:
                # only row tables (`for a, b in ((..), (..))`): a loop over
                # plain values is an ordinary loop the rules can read
                continue
            rows = []
            for e in st.iter.elts:
                if arity:
                    if not (isinstance(e, (ast.Tuple, ast.List)) and
                            len(e.elts) == arity):
                        rows = None
                        break
                    row = list(e.elts)
                else:
                    row = [e]
                if not all(_simple_arg(x) for x in row):
                    rows = None
                    break
                rows.append(row)
            if not rows or _loose_jump(st.body):
                continue
            stored = set()
            for s in st.body:
                stored |= _stored_in(s)
            mentioned = set()
            for row in rows:
                for x in row:
                    mentioned |= _names_in(x)
            if stored & (set(tnames) | mentioned):
                continue
            # the loop variables must not be read after the loop
            after = {x.id for x in ast.walk(fn) if isinstance(x, ast.Name)
                     and isinstance(x.ctx, ast.Load)
                     and getattr(x, 'lineno', 0) > (st.end_lineno or
                                                    st.lineno)}
            if after & set(tnames):
                continue
            out = []
            for row in rows:
                tr = _RenameAll({}, dict(zip(tnames, row)))
                out += [tr.visit(copy.deepcopy(s)) for s in st.body]
            blk[i - 1:i] = out
            i += len(out) - 1
            k += 1
    if k:
        renumber(fn)
    return k
