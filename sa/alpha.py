"""Alpha-canonicalisation of local variable names.

Rules are written against the local names the analysed functions had when the
rules were written (recorded in /verif/baseline/locals.json by
tools/gen_baseline.py).  Renaming a local is behaviour-preserving, so before
any rule runs, each function whose set of locals differs from the baseline is
aligned with it: a local that is new is matched to a baseline local that
vanished when both have the same *definition fingerprint* (the normalised
right-hand sides of their defining statements with every local abstracted),
and is renamed back in the in-memory tree.  The renaming is a consistent
bijection that avoids capture, so the analysed program is the same program
whatever the alignment decides; an unmatched local simply keeps its name.
"""
from __future__ import annotations

import ast
import gzip
import json
import os
from typing import Dict, List, Optional, Set, Tuple

_BASE: Optional[Dict[str, Dict[str, List[str]]]] = None
BASEFILE = os.path.join(os.path.dirname(os.path.dirname(
    os.path.abspath(__file__))), 'baseline', 'locals.json.gz')


def baseline() -> Dict[str, Dict[str, List[str]]]:
    global _BASE
    if _BASE is None:
        try:
            with gzip.open(BASEFILE, 'rt') as f:
                _BASE = json.load(f)
        except OSError:
            _BASE = {}
    return _BASE


def scope_locals(fn: ast.AST) -> Tuple[Set[str], Set[str]]:
    """(locals, banned) for the scope of a top-level function including its
    nested functions (closures share the names)."""
    banned: Set[str] = set()
    stores: Set[str] = set()
    for n in ast.walk(fn):
        if isinstance(n, (ast.FunctionDef, ast.AsyncFunctionDef, ast.Lambda)):
            a = n.args
            banned |= {x.arg for x in a.posonlyargs + a.args + a.kwonlyargs}
            if a.vararg:
                banned.add(a.vararg.arg)
            if a.kwarg:
                banned.add(a.kwarg.arg)
            if n is not fn and not isinstance(n, ast.Lambda):
                banned.add(n.name)
        elif isinstance(n, (ast.Global, ast.Nonlocal)):
            banned |= set(n.names)
        elif isinstance(n, ast.ClassDef):
            banned.add(n.name)
        elif isinstance(n, (ast.Import, ast.ImportFrom)):
            for al in n.names:
                banned.add((al.asname or al.name).split('.')[0])
        elif isinstance(n, ast.ExceptHandler) and n.name:
            banned.add(n.name)
        elif isinstance(n, (ast.MatchAs, ast.MatchStar)) and n.name:
            banned.add(n.name)
        elif isinstance(n, ast.Name) and isinstance(n.ctx, ast.Store):
            stores.add(n.id)
    return stores - banned, banned


class _Abstract(ast.NodeTransformer):
    def __init__(self, names):
        self.names = names

    def visit_Name(self, node):
        if node.id in self.names:
            return ast.Name(id='_', ctx=ast.Load())
        return node


class _Canon(ast.NodeTransformer):
    """operand order of commutative comparisons and of and/or, and the
    direction of < / >, do not matter for a fingerprint"""
    def visit_Compare(self, node):
        self.generic_visit(node)
        if len(node.ops) == 1:
            op = type(node.ops[0])
            a, b = node.left, node.comparators[0]
            if op in (ast.Gt, ast.GtE):
                op = ast.Lt if op is ast.Gt else ast.LtE
                a, b = b, a
            elif op in (ast.Eq, ast.NotEq, ast.Is, ast.IsNot):
                if _u0(b) < _u0(a):
                    a, b = b, a
            return ast.Compare(left=a, ops=[op()], comparators=[b])
        return node

    def visit_BoolOp(self, node):
        self.generic_visit(node)
        node.values = sorted(node.values, key=_u0)
        return node


def _u0(e) -> str:
    try:
        return ast.unparse(e)
    except Exception:
        return ast.dump(e)


def _abs(e: Optional[ast.AST], names: Set[str]) -> str:
    if e is None:
        return ''
    import copy
    t = _Abstract(names).visit(copy.deepcopy(e))
    t = _Canon().visit(t)
    try:
        return ast.unparse(t)
    except Exception:
        return ast.dump(t)


def _targets(t: ast.AST, path: str = ''):
    if isinstance(t, ast.Name):
        yield t.id, path
    elif isinstance(t, (ast.Tuple, ast.List)):
        for i, e in enumerate(t.elts):
            yield from _targets(e, f'{path}.{i}')
    elif isinstance(t, ast.Starred):
        yield from _targets(t.value, path + '*')


def fingerprints(fn: ast.AST) -> Dict[str, List[str]]:
    names, _ = scope_locals(fn)
    fps: Dict[str, List[str]] = {}

    def add(name, kind, rhs, path=''):
        if name in names:
            fps.setdefault(name, []).append(
                f'{kind}{path}:{_abs(rhs, names)}')

    nodes = sorted((n for n in ast.walk(fn) if hasattr(n, 'lineno')),
                   key=lambda n: (n.lineno, n.col_offset))
    nodes += [n for n in ast.walk(fn) if isinstance(n, ast.comprehension)]
    for n in nodes:
        if isinstance(n, ast.Assign):
            for t in n.targets:
                for nm, pth in _targets(t):
                    add(nm, '=', n.value, pth)
        elif isinstance(n, ast.AnnAssign):
            for nm, pth in _targets(n.target):
                add(nm, ':', n.value, pth)
        elif isinstance(n, ast.AugAssign):
            for nm, pth in _targets(n.target):
                add(nm, type(n.op).__name__ + '=', n.value, pth)
        elif isinstance(n, (ast.For, ast.AsyncFor)):
            for nm, pth in _targets(n.target):
                add(nm, 'for', n.iter, pth)
        elif isinstance(n, ast.comprehension):
            for nm, pth in _targets(n.target):
                add(nm, 'comp', n.iter, pth)
        elif isinstance(n, (ast.With, ast.AsyncWith)):
            for it in n.items:
                if it.optional_vars is not None:
                    for nm, pth in _targets(it.optional_vars):
                        add(nm, 'with', it.context_expr, pth)
        elif isinstance(n, ast.NamedExpr):
            for nm, pth in _targets(n.target):
                add(nm, ':=', n.value, pth)
    return fps


class _Rename(ast.NodeVisitor):
    def __init__(self, mapping):
        self.m = mapping

    def visit_Name(self, node):
        if node.id in self.m:
            node.id = self.m[node.id]


def align(fn: ast.AST, base: Dict[str, List[str]]) -> Dict[str, str]:
    cur_names, _banned = scope_locals(fn)
    if cur_names == set(base):
        return {}
    extra = [n for n in cur_names if n not in base]
    missing = [n for n in base if n not in cur_names]
    if not extra or not missing:
        return {}
    cur = fingerprints(fn)
    used_ids = {n.id for n in ast.walk(fn) if isinstance(n, ast.Name)}
    # first-definition order of the current extras
    order = {nm: i for i, nm in enumerate(cur)}
    extra.sort(key=lambda x: order.get(x, 1 << 30))
    mapping: Dict[str, str] = {}
    taken: Set[str] = set()
    for e in extra:
        fe = cur.get(e)
        if not fe:
            continue
        for b in missing:
            if b in taken or b in used_ids:
                continue
            if sorted(base[b]) == sorted(fe):
                mapping[e] = b
                taken.add(b)
                break
    return mapping


def _plain_else(n: ast.If) -> bool:
    return bool(n.orelse) and not (len(n.orelse) == 1 and isinstance(
        n.orelse[0], ast.If))


def _neg(t: ast.expr) -> ast.expr:
    if isinstance(t, ast.UnaryOp) and isinstance(t.op, ast.Not):
        return t.operand
    return ast.UnaryOp(op=ast.Not(), operand=t)


def _sig(stmts) -> str:
    """shape of a block that does not change when nested if/else statements
    are flipped: simple statements by text, compound ones by kind"""
    import hashlib
    parts = []
    for st in (stmts if isinstance(stmts, list) else [stmts]):
        if isinstance(st, (ast.Assign, ast.AugAssign, ast.AnnAssign,
                           ast.Expr, ast.Return, ast.Raise, ast.Pass,
                           ast.Break, ast.Continue, ast.Assert, ast.Delete)):
            try:
                parts.append(ast.unparse(st))
            except Exception:
                parts.append(type(st).__name__)
        elif isinstance(st, ast.expr):
            parts.append('E' if isinstance(st, ast.IfExp)
                         else ast.unparse(st))
        else:
            parts.append(type(st).__name__)
    return hashlib.sha1('\n'.join(parts).encode()).hexdigest()[:8]


def _if_nodes(fn: ast.AST):
    return sorted((n for n in ast.walk(fn) if (
        isinstance(n, ast.If) and n.orelse) or isinstance(
        n, ast.IfExp)), key=lambda n: (n.lineno, n.col_offset))


def if_tests(fn: ast.AST) -> List[List[str]]:
    """[test text, shape of the true arm, shape of the false arm] of every
    if/else statement (plain else) and conditional expression, in source
    order.  Locals keep their names: polarity is undone after the alpha
    renaming, when the names agree with the baseline again."""
    out = []
    for n in _if_nodes(fn):
        if isinstance(n, ast.If) and not _plain_else(n):
            continue
        out.append([_abs(n.test, set()), _sig(n.body), _sig(n.orelse)])
    return out


def undo_polarity(fn: ast.AST, base_tests) -> int:
    """An if/else (or conditional expression) that is the mirror image of a
    baseline one (negated test, arms exchanged), with no baseline entry of
    its own shape left, is flipped back."""
    from collections import Counter
    want = Counter(tuple(x) for x in base_tests)
    nodes = _if_nodes(fn)
    todo = []
    for n in nodes:
        plain = isinstance(n, ast.IfExp) or _plain_else(n)
        key = (_abs(n.test, set()), _sig(n.body), _sig(n.orelse))
        if plain and want[key] > 0:
            want[key] -= 1
        else:
            # (an `else:` holding a single `if` looks like an elif chain;
            # it is a flip candidate as well)
            todo.append(n)
    k = 0
    for n in todo:
        neg = _neg(n.test)
        key = (_abs(neg, set()), _sig(n.orelse), _sig(n.body))
        if want[key] > 0:
            want[key] -= 1
            n.test = neg
            n.body, n.orelse = n.orelse, n.body
            k += 1
    return k


_FLIP = {ast.Eq: ast.Eq, ast.NotEq: ast.NotEq, ast.Is: ast.Is,
         ast.IsNot: ast.IsNot, ast.Lt: ast.Gt, ast.Gt: ast.Lt,
         ast.LtE: ast.GtE, ast.GtE: ast.LtE}


def _u(e) -> str:
    try:
        return ast.unparse(e)
    except Exception:
        return ast.dump(e)


def compares(fn: ast.AST) -> List[str]:
    return [_u(n) for n in ast.walk(fn) if isinstance(n, ast.Compare)
            and len(n.ops) == 1 and type(n.ops[0]) in _FLIP]


def boolops(fn: ast.AST) -> List[List[str]]:
    return [[type(n.op).__name__] + [_u(v) for v in n.values]
            for n in ast.walk(fn) if isinstance(n, ast.BoolOp)]


def undo_flips(fn: ast.AST, base_cmp: List[str],
               base_bool: List[List[str]]) -> int:
    """`b == a` for a baseline `a == b` (and `b > a` for `a < b`) is turned
    back; operands of and / or are put back into the baseline order when
    they are the same operands.  (Reordering operands of and/or is only
    behaviour-preserving for effect-free operands; that is what a refactor
    that does it assumes, and the analysis never executes them.)"""
    from collections import Counter
    k = 0
    want = Counter(base_cmp)
    todo = []
    for n in ast.walk(fn):
        if isinstance(n, ast.Compare) and len(n.ops) == 1 and \
                type(n.ops[0]) in _FLIP:
            t = _u(n)
            if want[t] > 0:
                want[t] -= 1
            else:
                todo.append(n)
    for n in todo:
        flipped = ast.Compare(left=n.comparators[0],
                              ops=[_FLIP[type(n.ops[0])]()],
                              comparators=[n.left])
        t = _u(flipped)
        if want[t] > 0:
            want[t] -= 1
            n.left, n.comparators, n.ops = (flipped.left,
                                            flipped.comparators, flipped.ops)
            k += 1
    wantb = Counter(tuple(x) for x in base_bool)
    by_bag = {}
    for x in base_bool:
        by_bag.setdefault((x[0], tuple(sorted(x[1:]))), []).append(x)
    for n in ast.walk(fn):
        if not isinstance(n, ast.BoolOp):
            continue
        cur = tuple([type(n.op).__name__] + [_u(v) for v in n.values])
        if wantb[cur] > 0:
            wantb[cur] -= 1
            continue
        cands = by_bag.get((cur[0], tuple(sorted(cur[1:]))), [])
        for c in cands:
            if wantb[tuple(c)] > 0:
                wantb[tuple(c)] -= 1
                order = {t: i for i, t in enumerate(c[1:])}
                if len(order) == len(c) - 1:      # distinct operands only
                    n.values.sort(key=lambda v: order[_u(v)])
                    k += 1
                break
    return k


# ---------------------------------------------------------------------
# inert statements, fresh temporaries, guard clauses
#
# Three more behaviour-preserving edits are undone against the baseline:
#   * a logging statement the baseline function did not have is dropped
#     (logging does not touch the state any property speaks about);
#   * a local the baseline function did not have, bound once to an
#     effect-free expression and read only by the statement that follows the
#     binding, is inlined there (the hoisted sub-expression goes back);
#   * `if not c: return|continue` followed by the rest of a function / loop
#     body is folded back to the baseline's `if c: <rest>` and vice versa.
_LOGGERS = {'logger', 'log', 'logging', '_logger', 'LOG'}
_LEVELS = {'debug', 'info', 'warning', 'warn', 'error', 'exception',
           'critical', 'log'}


def _is_log_stmt(st: ast.AST) -> bool:
    if not (isinstance(st, ast.Expr) and isinstance(st.value, ast.Call)):
        return False
    f = st.value.func
    if not (isinstance(f, ast.Attribute) and f.attr in _LEVELS):
        return False
    base = f.value
    while isinstance(base, ast.Attribute):
        base = base.value
    if not (isinstance(base, ast.Name) and (
            base.id in _LOGGERS or (isinstance(f.value, ast.Attribute) and
                                    f.value.attr in _LOGGERS))):
        return False
    return not any(isinstance(x, (ast.Await, ast.Yield, ast.YieldFrom,
                                  ast.NamedExpr)) for x in ast.walk(st))


def _blocks(fn: ast.AST):
    """(owner node, field name, statement list) of every block in fn"""
    for n in ast.walk(fn):
        for f in ('body', 'orelse', 'finalbody'):
            b = getattr(n, f, None)
            if isinstance(b, list) and b and isinstance(b[0], ast.stmt):
                yield n, f, b


def log_stmts(fn: ast.AST) -> List[str]:
    return [_u(st) for _o, _f, b in _blocks(fn) for st in b
            if _is_log_stmt(st)]


def strip_new_logs(fn: ast.AST, base_logs: List[str]) -> int:
    from collections import Counter
    want = Counter(base_logs)
    k = 0
    for _o, _f, b in list(_blocks(fn)):
        keep = []
        for st in b:
            if _is_log_stmt(st):
                t = _u(st)
                if want[t] > 0:
                    want[t] -= 1
                else:
                    k += 1
                    continue
            keep.append(st)
        if len(keep) != len(b):
            if not keep:
                keep = [ast.copy_location(ast.Pass(), b[0])]
            b[:] = keep
    return k


_PURE = (ast.Name, ast.Attribute, ast.Constant, ast.Load, ast.Subscript,
         ast.Tuple, ast.Slice)
_SIMPLE = (ast.Assign, ast.AugAssign, ast.AnnAssign, ast.Expr, ast.Return,
           ast.Raise, ast.Assert, ast.Delete)


def _pure(e: ast.AST) -> bool:
    return all(isinstance(x, _PURE) for x in ast.walk(e))


class _Subst(ast.NodeTransformer):
    def __init__(self, name, value):
        self.name, self.value, self.n = name, value, 0

    def visit_Name(self, node):
        if node.id == self.name and isinstance(node.ctx, ast.Load):
            import copy
            self.n += 1
            return ast.copy_location(copy.deepcopy(self.value), node)
        return node


def _header(st: ast.AST) -> List[ast.AST]:
    if isinstance(st, _SIMPLE):
        return [st]
    if isinstance(st, (ast.If, ast.While)):
        return [st.test]
    if isinstance(st, (ast.For, ast.AsyncFor)):
        return [st.iter]
    if isinstance(st, (ast.With, ast.AsyncWith)):
        return [it.context_expr for it in st.items]
    return []


def inline_new_temps(fn: ast.AST, base_locals) -> int:
    names, _ = scope_locals(fn)
    new = names - set(base_locals)
    if not new:
        return 0
    stores: Dict[str, int] = {}
    loads: Dict[str, int] = {}
    for n in ast.walk(fn):
        if isinstance(n, ast.Name):
            d = loads if isinstance(n.ctx, ast.Load) else stores
            d[n.id] = d.get(n.id, 0) + 1
    k = 0
    for _o, _f, b in list(_blocks(fn)):
        i = 0
        while i + 1 < len(b):
            st = b[i]
            if (isinstance(st, ast.Assign) and len(st.targets) == 1 and
                    isinstance(st.targets[0], ast.Name) and
                    st.targets[0].id in new and
                    stores.get(st.targets[0].id) == 1 and
                    _pure(st.value) and not isinstance(st.value,
                                                       ast.Constant)):
                t = st.targets[0].id
                hdr = _header(b[i + 1])
                here = sum(1 for h in hdr for x in ast.walk(h)
                           if isinstance(x, ast.Name) and x.id == t and
                           isinstance(x.ctx, ast.Load))
                if here and here == loads.get(t, 0):
                    sub = _Subst(t, st.value)
                    nxt = b[i + 1]
                    if isinstance(nxt, _SIMPLE):
                        b[i + 1] = sub.visit(nxt)
                    elif isinstance(nxt, (ast.If, ast.While)):
                        nxt.test = sub.visit(nxt.test)
                    elif isinstance(nxt, (ast.For, ast.AsyncFor)):
                        nxt.iter = sub.visit(nxt.iter)
                    else:
                        for it in nxt.items:
                            it.context_expr = sub.visit(it.context_expr)
                    del b[i]
                    k += 1
                    continue
            i += 1
    return k


def _jump_kind(body) -> str:
    if len(body) != 1:
        return ''
    j = body[0]
    if isinstance(j, ast.Continue):
        return 'continue'
    if isinstance(j, ast.Return) and (j.value is None or (
            isinstance(j.value, ast.Constant) and j.value.value is None)):
        return 'return'
    return ''


def _guard_sites(fn: ast.AST):
    """(block, jump kind it may end with) for the blocks where a trailing
    `if c: rest` and `if not c: jump` + rest are the same program: the body
    of fn itself (return) and direct loop bodies (continue)"""
    yield fn.body, 'return'
    for n in ast.walk(fn):
        if isinstance(n, (ast.FunctionDef, ast.AsyncFunctionDef)) and \
                n is not fn:
            yield n.body, 'return'
        if isinstance(n, (ast.For, ast.AsyncFor, ast.While)):
            yield n.body, 'continue'


def noelse_ifs(fn: ast.AST) -> List[List[str]]:
    """[test, shape of body, shape of the rest of the block] for every
    else-less `if` that sits in a guard site"""
    out = []
    for blk, _jk in _guard_sites(fn):
        for i, st in enumerate(blk):
            if isinstance(st, ast.If) and not st.orelse:
                out.append([_abs(st.test, set()), _sig(st.body),
                            _sig(blk[i + 1:])])
    return out


def undo_guards(fn: ast.AST, base_n: List[List[str]]) -> int:
    from collections import Counter
    want = Counter(tuple(x) for x in base_n)
    sites = list(_guard_sites(fn))
    for blk, _jk in sites:
        for i, st in enumerate(blk):
            if isinstance(st, ast.If) and not st.orelse:
                key = (_abs(st.test, set()), _sig(st.body),
                       _sig(blk[i + 1:]))
                if want[key] > 0:
                    want[key] -= 1
                    st._alpha_seen = True
    k = 0
    for blk, jk in sites:
        i = 0
        while i < len(blk):
            st = blk[i]
            if not (isinstance(st, ast.If) and not st.orelse) or \
                    getattr(st, '_alpha_seen', False):
                i += 1
                continue
            rest = blk[i + 1:]
            neg = _neg(st.test)
            if _jump_kind(st.body) == jk and rest:
                # guard clause now, nested form in the baseline
                key = (_abs(neg, set()), _sig(rest), _sig([]))
                if want[key] > 0:
                    want[key] -= 1
                    new = ast.copy_location(
                        ast.If(test=neg, body=rest, orelse=[]), st)
                    new._alpha_seen = True
                    blk[i:] = [new]
                    k += 1
                    break
            elif not rest and len(st.body) >= 1:
                # nested form now, guard clause in the baseline
                jump = ast.Continue() if jk == 'continue' else \
                    ast.Return(value=None)
                for jtxt in ((['continue'] if jk == 'continue'
                              else ['return', 'return None'])):
                    key = (_abs(neg, set()), _sig_text(jtxt),
                           _sig(st.body))
                    if want[key] > 0:
                        want[key] -= 1
                        g = ast.copy_location(
                            ast.If(test=neg, body=[ast.copy_location(
                                jump, st)], orelse=[]), st)
                        g._alpha_seen = True
                        blk[i:] = [g] + st.body
                        k += 1
                        break
                break
            i += 1
    return k


def _sig_text(stmt_text: str) -> str:
    import hashlib
    return hashlib.sha1(stmt_text.encode()).hexdigest()[:8]


def canonicalise_function(key: str, fn: ast.AST) -> int:
    b = baseline().get(key)
    if not b:
        # nothing recorded (no locals, tests or log statements then, or a
        # new function): only the additions can be undone
        return strip_new_logs(fn, []) + inline_new_temps(fn, ())
    mp = align(fn, b.get('l', {}))
    if mp:
        _Rename(mp).visit(fn)
    k = 0
    k += strip_new_logs(fn, b.get('g', []))
    k += inline_new_temps(fn, b.get('l', {}))
    if 'n' in b:
        k += undo_guards(fn, b.get('n', []))
    if 'c' in b:
        k += undo_flips(fn, b.get('c', []), b.get('b', []))
    if 'i' in b:
        k += undo_polarity(fn, b.get('i', []))
    return len(mp) + k


def stable_keys(funcs) -> Dict[str, str]:
    """qualname -> key that does not depend on line numbers: the k-th
    definition of a repeated name (overloads, singledispatch `_`) is
    `name#k`."""
    groups: Dict[str, list] = {}
    for q, f in funcs.items():
        groups.setdefault(q.split('@')[0], []).append(f)
    out = {}
    for base, fs in groups.items():
        fs.sort(key=lambda f: f.node.lineno)
        for k, f in enumerate(fs):
            out[f.qualname] = base if k == 0 else f'{base}#{k}'
    return out
