"""Rule-sensitivity self-test (thorough tier).

Each variant is a small source edit located by (file, enclosing function
qualname, text pattern inside that function) applied to an in-memory overlay
of the current /repo sources — nothing is written to disk and nothing is
executed.  `expect` names the rule that must report on the variant;
`expect=None` marks a behaviour-preserving refactor on which the property's
rules must stay silent (negative control).

A variant whose anchor text no longer exists is *stale* (the repo changed);
it is reported in evidence and does not fail the run.  A variant that applies
but is not reported by its rule means the rule lost its teeth: the run ends
as ANALYSIS-ERROR (never as VIOLATION).
"""
from __future__ import annotations

import ast
import importlib
import os
from concurrent.futures import ProcessPoolExecutor
from typing import Dict, List, Optional

from . import model, report

VARIANTS: Dict[str, list] = {}


def V(prop, vid, file, func, old, new, expect, construct='', count=1):
    VARIANTS.setdefault(prop, []).append(dict(
        prop=prop, id=vid, file=file, func=func, old=old, new=new,
        expect=expect, construct=construct, count=count))


def VP(prop, seed_id, expect, construct=''):
    """A stored seeded break (/verif/seeded/<id>/patch.diff) as a variant:
    the patch is applied to copies of the files it touches (in a temporary
    directory, with `patch`; nothing of the repository is executed) and the
    patched texts form the overlay."""
    VARIANTS.setdefault(prop, []).append(dict(
        prop=prop, id=f'seed:{seed_id}', seed=seed_id, expect=expect,
        construct=construct, file=None, func=None, old=None, new=None,
        count=1))


def _apply_seed(repo: model.Repo, v):
    import re
    import shutil
    import subprocess
    import tempfile
    pf = os.path.join(report.VERIF, 'seeded', v['seed'], 'patch.diff')
    if not os.path.exists(pf):
        return None
    files = re.findall(r'^\+\+\+ b/(\S+)', open(pf).read(), re.M)
    tmp = tempfile.mkdtemp(prefix='stseed.')
    try:
        for rel in files:
            m = repo.by_path.get(rel)
            dst = os.path.join(tmp, rel)
            os.makedirs(os.path.dirname(dst), exist_ok=True)
            if m is not None:
                with open(dst, 'w') as fh:
                    fh.write(m.src)
        r = subprocess.run(['patch', '-p1', '-s', '-f',
                            '--no-backup-if-mismatch', '-i', pf],
                           cwd=tmp, capture_output=True)
        if r.returncode != 0:
            return None
        out = {}
        for rel in files:
            if rel.endswith('.py') and os.path.exists(os.path.join(tmp, rel)):
                with open(os.path.join(tmp, rel)) as fh:
                    out[rel] = fh.read()
        for src in out.values():
            ast.parse(src)
        return out or None
    except SyntaxError:
        return None
    finally:
        shutil.rmtree(tmp, ignore_errors=True)


def _apply(repo: model.Repo, v) -> Optional[str]:
    m = repo.by_path.get(v['file'])
    if m is None:
        return None
    src = m.src
    if v['func']:
        fi = repo.functions.get(v['func']) or None
        node = fi.node if fi else None
        if node is None:
            ci = repo.classes.get(v['func'])
            node = ci.node if ci else None
        if node is None:
            return None
        lines = src.splitlines(keepends=True)
        start = node.lineno - 1
        if getattr(node, 'decorator_list', None):
            start = min(d.lineno for d in node.decorator_list) - 1
        end = node.end_lineno
        seg = ''.join(lines[start:end])
        if seg.count(v['old']) != v['count']:
            return None
        seg2 = seg.replace(v['old'], v['new'])
        new_src = ''.join(lines[:start]) + seg2 + ''.join(lines[end:])
    else:
        if src.count(v['old']) != v['count']:
            return None
        new_src = src.replace(v['old'], v['new'])
    try:
        ast.parse(new_src)
    except SyntaxError:
        return None
    return new_src


_BASE = None


def _run_variant(args):
    prop, v = args
    global _BASE
    if _BASE is None:
        _BASE = model.Repo()
    if v.get('seed'):
        overlay = _apply_seed(_BASE, v)
        if overlay is None:
            return (v['id'], 'stale', [])
    else:
        new_src = _apply(_BASE, v)
        if new_src is None:
            return (v['id'], 'stale', [])
        overlay = {v['file']: new_src}
    repo = model.Repo(base=_BASE, overlay=overlay)
    mod = importlib.import_module(f'sa.rules.{prop.lower()}')
    ctx = report.Ctx(prop, 'quick')
    # same order as the CLI: a rule that cannot read its anchor does not
    # stop the slip battery, and a finding takes precedence over that error
    deferred = None
    try:
        mod.run(repo, ctx)
    except model.AnalysisError as e:
        deferred = e
    try:
        from . import lints
        lints.for_property(repo, ctx, prop)
    except model.AnalysisError as e:
        deferred = deferred or e
    if deferred is not None:
        known0 = {(k['rule'], k['construct'])
                  for k in report.load_known().get(prop, [])}
        if not any((f.rule, f.construct) not in known0
                   for f in ctx.findings):
            return (v['id'], 'analysis-error', [str(deferred)])
        ctx.rule_floor.clear()
    known = {(k['rule'], k['construct'])
             for k in report.load_known().get(prop, [])}
    fs = [f for f in ctx.findings if (f.rule, f.construct) not in known]
    vac = [r for r, mn in ctx.rule_floor.items()
           if ctx.rule_instances.get(r, 0) < mn]
    keys = [f'{f.rule} {f.construct}' for f in fs] + \
           [f'{r} <vacuous>' for r in vac]
    if v['expect'] is None:
        if not keys and ctx.undecided:
            return (v['id'], 'false-alarm',
                    [f'undecided {f.rule} {f.construct}'
                     for f in ctx.undecided])
        return (v['id'], 'silent' if not keys else 'false-alarm', keys)
    hit = [f for f in fs if f.rule == v['expect']
           and v['construct'] in f.construct]
    if hit or (v['expect'] in vac):
        return (v['id'], 'fired', keys)
    und = [f for f in ctx.undecided if f.rule == v['expect']
           and v['construct'] in f.construct]
    if und:
        # the edit re-expressed the very condition the fact names: the
        # check ends as ANALYSIS-ERROR (exit 2) on it, not as a pass
        return (v['id'], 'undecided',
                [f'{f.rule} {f.construct}' for f in und])
    return (v['id'], 'missed', keys)


def _run_chunk(args):
    prop, chunk = args
    load_variants(prop)
    return [_run_variant((prop, v)) for v in chunk]


def load_variants(prop: str) -> list:
    try:
        importlib.import_module(f'selftest.{prop.lower()}')
    except ModuleNotFoundError:
        pass
    return VARIANTS.get(prop, [])


def run_for(prop: str, ctx, seed: int, jobs: int = 16, repo=None) -> None:
    global _BASE
    vs = load_variants(prop)
    if not vs:
        ctx.extra['selftest'] = {'variants': 0}
        return
    order = list(vs)
    if seed:
        import random
        random.Random(seed).shuffle(order)
    if _BASE is None:
        _BASE = repo if repo is not None and not repo.overlay \
            else model.Repo()
    jobs = min(jobs, 6, (len(order) + 9) // 10)
    if jobs <= 1:
        results = [_run_variant((prop, v)) for v in order]
    else:
        import multiprocessing
        chunks = [order[i::jobs] for i in range(jobs)]
        with ProcessPoolExecutor(
                max_workers=jobs,
                mp_context=multiprocessing.get_context('spawn')) as ex:
            parts = list(ex.map(_run_chunk, [(prop, c) for c in chunks]))
        results = [r for part in parts for r in part]
    summary = {'variants': len(results), 'fired': 0, 'silent': 0,
               'stale': [], 'missed': [], 'false_alarm': [], 'errors': [],
               'undecided': []}
    for vid, status, keys in results:
        if status == 'fired':
            summary['fired'] += 1
        elif status == 'silent':
            summary['silent'] += 1
        elif status == 'stale':
            summary['stale'].append(vid)
        elif status == 'undecided':
            summary['undecided'].append(vid)
        elif status == 'missed':
            summary['missed'].append({'id': vid, 'got': keys[:5]})
        elif status == 'false-alarm':
            summary['false_alarm'].append({'id': vid, 'got': keys[:5]})
        else:
            summary['errors'].append({'id': vid, 'got': keys[:5]})
    ctx.extra['selftest'] = summary
    if summary['missed'] or summary['false_alarm']:
        raise model.AnalysisError(
            f'self-test: rules lost sensitivity or raised a false alarm: '
            f'missed={summary["missed"]} false_alarm={summary["false_alarm"]}')


def main(argv):
    """python -m sa.selftest [Cxx ...] — developer entry point."""
    import json
    props = argv or sorted(
        f[:-3].upper() for f in os.listdir(
            os.path.join(report.VERIF, 'selftest')) if f.startswith('c')
        and f.endswith('.py'))
    rc = 0
    for p in props:
        ctx = report.Ctx(p, 'thorough')
        try:
            run_for(p, ctx, 0)
        except model.AnalysisError as e:
            print(p, 'FAIL', e)
            rc = 1
        print(p, json.dumps(ctx.extra.get('selftest')))
    return rc


if __name__ == '__main__':
    import sys
    from sa import selftest as _st  # the canonical module, not __main__
    sys.exit(_st.main(sys.argv[1:]))
