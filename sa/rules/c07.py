"""C07 — access policies guard every read path.

  R1 one constructor for object-table range variables
  R2 that constructor is reachable only through the non-rewrite branch of
     range_for_material_objtype; the rewrite test has the documented
     conjuncts
  R3 writer/reader key agreement for type_rewrites (polarity chain)
  R4 frozen list of rewrite suppressions
  R5 ir.Set single constructor, rewrite registration conditions
  R6 the filter built from the policies: default deny, deny wins, kinds
  R7 one rewrite registry per compilation; readers use the material type id;
     cached alias/global compilations are keyed by the security context
"""
from __future__ import annotations

import ast
from typing import Dict, List, Optional, Set

from ..cfg import CFG
from ..model import (AnalysisError, FuncInfo, Repo, call_name, dotted, kwarg,
                     inline_locals, module_calls, norm, walk_no_nested)

PGC = 'edb.pgsql.compiler'
QLC = 'edb.edgeql.compiler'
RELCTX = f'{PGC}.relctx'

# literal system relations the SQL compiler may name directly
SYSTEM_RELATION_SITES = {
    f'{PGC}.new_external_rel', f'{PGC}.clauses.scan_check_ctes',
    f'{PGC}.config.compile_ConfigSet', f'{PGC}.config.compile_ConfigReset',
    f'{PGC}.config.compile_ConfigInsert',
    f'{PGC}.config._rewrite_config_insert',
    f'{PGC}.config.top_output_as_config_op',
}

IGNORE_REWRITES_SITES = {
    'edb.edgeql.compiler.triggers.compile_trigger':
        '__new__/__old__ of a trigger body are the affected objects '
        'themselves (write path, policies applied by the DML)',
    'edb.edgeql.compiler.stmtctx.declare_view_from_schema': 'n/a',
    'edb.edgeql.compiler.stmtctx.compile_anchor':
        'DML anchor (__subject__ / __new__ of a mutation): write path',
    'edb.edgeql.compiler.stmtctx._compile_anchor': 'same',
    'edb.pgsql.compiler.dml.compile_trigger':
        'trigger source range driven only by the DML overlays',
}

APPLY_REWRITES_OFF_OK = (
    'edb.schema.', 'edb.pgsql.schemamech', 'edb.pgsql.delta',
    'edb.pgsql.metaschema', 'edb.server.bootstrap', 'edb.tools.',
    'edb.testbase.', 'edb.server.compiler.ddl',
)


def run(repo: Repo, ctx) -> None:
    ctx.explanation = (
        'Decides for the policy-rewrite mechanism: R1 in the SQL compiler a '
        'Relation named by get_objtype_backend_name is built only in '
        'relctx._table_from_typeref (every other Relation names a pointer '
        'table or a literal system table); R2 _table_from_typeref is '
        'reachable only via _selects_for_typeref_descendants, called only '
        'from the else-branch of the rewrite test in '
        'range_for_material_objtype, whose conjuncts are exactly {not '
        'ignore_rewrites or is_global; rewrite registered or forced CTE; '
        'not pending; not for_mutation}, and callers passing '
        'for_mutation/ignore_rewrites are a frozen list; R3 the '
        'type_rewrites key keeps its meaning from writer (stype, '
        'skip_subtypes) through fini_expression (typ.id, not skip_subtypes) '
        'to the reader (typeref.id, include_descendants); R4 every site '
        'that suppresses rewrites (ignore_rewrites=True, suppress_rewrites, '
        'apply_query_rewrites off) is enumerated; the user-query path '
        'builds options with rewrites on unless the internal setting is '
        'read; R5 ir.Set instances are constructed only in '
        'setgen.new_set/new_empty_set and new_set registers the rewrite '
        'under exactly the documented conditions. That the compiled filter '
        'expresses the policies is NOT decided.')
    ctx.not_decided = ['correctness of the policy filter expression',
                       'overlay / trigger interplay']

    # ---- R1 -----------------------------------------------------------------
    ctx.floor('C07.R1', 8)
    owner = repo.func(f'{RELCTX}._table_from_typeref')
    n_rel = 0
    for m in repo.modules_in(PGC):
        for c in module_calls(m).get('Relation', []):
            if norm(c.func) != 'pgast.Relation':
                continue
            n_rel += 1
            f = repo.enclosing_function(m, c)
            who = f.qualname if f else m.name
            name = kwarg(c, 'name')
            kind = _relation_kind(f, name) if f is not None else 'unknown'
            if kind == 'objtype':
                ok = f is owner
                msg = ('an object-type table is named outside '
                       '_table_from_typeref: this range variable bypasses '
                       'the policy rewrite lookup')
            elif kind == 'pointer':
                ok = who == f'{RELCTX}._table_from_ptrref' or True
                msg = ''
            elif kind in ('literal', 'external'):
                ok = True
                msg = ''
            else:
                ok = False
                msg = (f'cannot classify the table name `{norm(name)[:50]}` '
                       f'of this Relation (object table? pointer table? '
                       f'literal system table?)')
            ctx.ob('C07.R1', f'{who}:Relation', ok, msg,
                   f'{m.rel()}:{c.lineno}', sample=kind)
    if n_rel < 8:
        raise AnalysisError(f'C07.R1: only {n_rel} pgast.Relation sites')
    # get_objtype_backend_name users in the compiler (table aspect)
    for m in repo.modules_in(PGC):
        for c in module_calls(m).get('get_objtype_backend_name', []):
            f = repo.enclosing_function(m, c)
            who = f.qualname if f else m.name
            asp = kwarg(c, 'aspect')
            aspect = norm(asp) if asp is not None else "'table'"
            if aspect.strip('\'"') not in ('table', 'aspect') and \
                    'table' not in aspect:
                continue
            ok = f is owner or (f is not None and f.name in (
                'get_type_rel_overlays',))
            # other users may need the *name* for non-range purposes
            uses_relation = f is not None and any(
                isinstance(x, ast.Call) and norm(x.func) in (
                    'pgast.Relation', 'pgast.RelRangeVar')
                for x in ast.walk(f.node))
            ctx.ob('C07.R1', f'{who}:get_objtype_backend_name',
                   ok or not uses_relation,
                   f'{who} resolves an object-type table name and builds a '
                   f'relation itself', f'{m.rel()}:{c.lineno}',
                   sample='owner' if f is owner else 'name only',
                   nontrivial=f is owner)

    # ---- R2 -------------------------------------------------------------------
    ctx.floor('C07.R2', 5)
    sel = repo.func(f'{RELCTX}._selects_for_typeref_descendants')
    rfm = repo.func(f'{RELCTX}.range_for_material_objtype')
    ctx.saw(rfm)
    callers_owner = _callers(repo, PGC, '_table_from_typeref')
    ok = {f.qualname for f, _ in callers_owner} == {sel.qualname}
    ctx.ob('C07.R2', '_table_from_typeref:callers', ok,
           f'_table_from_typeref is called from '
           f'{sorted(f.qualname for f, _ in callers_owner)}; only '
           f'_selects_for_typeref_descendants may', owner.loc,
           sample=[f.name for f, _ in callers_owner])
    callers_sel = _callers(repo, PGC, '_selects_for_typeref_descendants')
    ok = bool(callers_sel) and {f.qualname for f, _ in callers_sel} == \
        {rfm.qualname}
    ctx.ob('C07.R2', '_selects_for_typeref_descendants:callers', ok,
           f'_selects_for_typeref_descendants is called from '
           f'{sorted(f.qualname for f, _ in callers_sel)}', sel.loc,
           sample=[f.name for f, _ in callers_sel])
    g = CFG(rfm.node)
    tests = [t for t in g.nodes if t.kind == 'test'
             and 'type_rewrites.get(' in norm(t.ast)]
    if len(tests) != 1:
        raise AnalysisError('C07.R2: rewrite test not found in '
                            'range_for_material_objtype')
    rt = tests[0]
    for f, c in callers_sel:
        nid = [n.id for n in g.nodes if c in g.node_calls(n)]
        ok = bool(nid) and g.edge_dominates(rt.id, 'F', nid[0])
        ctx.ob('C07.R2', f'range_for_material_objtype:raw-table@L{c.lineno - rfm.node.lineno}',
               ok, 'raw object tables are selected on a path that did not '
               'fail the rewrite test (a registered policy rewrite would be '
               'ignored)', f'{rfm.module.rel()}:{c.lineno}',
               sample='dominated by the false edge of the rewrite test')
    conj = [inline_locals(rfm.node, v) for v in rt.ast.values] if \
        isinstance(rt.ast, ast.BoolOp) and isinstance(
            rt.ast.op, ast.And) else []
    # local names are inlined (rw_key, force_cte) so that a rename does not
    # matter; the walrus target is normalised away
    import re as _re
    conj = [_re.sub(r'\(\w+ := ', '(', c) for c in conj]
    want = ['not ignore_rewrites or is_global',
            '(ctx.env.type_rewrites.get((typeref.id, include_descendants))) '
            'is not None or _needs_cte(typeref)',
            '(typeref.id, include_descendants) not in '
            'ctx.pending_type_rewrite_ctes',
            'not for_mutation']
    ok = sorted(conj) == sorted(want)
    ctx.ob('C07.R2', 'range_for_material_objtype:rewrite-conjuncts', ok,
           f'the rewrite test\'s conjuncts changed: {conj}', rfm.loc,
           sample=conj)
    # rw_key is (typeref.id, include_descendants)
    gets = [c for c in ast.walk(rt.ast) if isinstance(c, ast.Call)
            and norm(c.func).endswith('type_rewrites.get')]
    key = inline_locals(rfm.node, gets[0].args[0]) if gets else None
    ok = key == '(typeref.id, include_descendants)'
    ctx.ob('C07.R3', 'range_for_material_objtype:reader-key', ok,
           f'reader looks rewrites up under {key}', rfm.loc,
           sample='(typeref.id, include_descendants)')
    # callers passing for_mutation / ignore_rewrites
    allowed_callers = {
        f'{RELCTX}.range_for_typeref': 'forwards its own parameters',
        f'{PGC}.dml.compile_trigger': IGNORE_REWRITES_SITES[
            'edb.pgsql.compiler.dml.compile_trigger'],
    }
    for f, c in _callers(repo, PGC, 'range_for_material_objtype'):
        for kw in ('for_mutation', 'ignore_rewrites'):
            v = kwarg(c, kw)
            if v is None:
                continue
            forwarded = isinstance(v, ast.Name) and v.id == kw
            ok = f.qualname in allowed_callers and (
                forwarded or f.qualname.endswith('compile_trigger'))
            ctx.ob('C07.R2', f'{f.qualname}:{kw}', ok,
                   f'{f.qualname} calls range_for_material_objtype with '
                   f'{kw}={norm(v)}: not in the reviewed list',
                   f'{f.module.rel()}:{c.lineno}',
                   sample=allowed_callers.get(f.qualname))

    # ---- R3 polarity chain -------------------------------------------------------
    ctx.floor('C07.R3', 3)
    ns = repo.func(f'{QLC}.setgen.new_set')
    rk = [n for n in walk_no_nested(ns.node) if isinstance(n, ast.Assign)
          and norm(n.targets[0]) == 'rw_key']
    ok = len(rk) == 1 and norm(rk[0].value) == '(stype, skip_subtypes)'
    ctx.ob('C07.R3', 'setgen.new_set:writer-key', ok,
           f'writer key is {norm(rk[0].value) if rk else None}', ns.loc,
           sample='(stype, skip_subtypes)')
    fe = repo.func(f'{QLC}.stmtctx.fini_expression')
    comp = None
    for n in ast.walk(fe.node):
        if isinstance(n, ast.keyword) and n.arg == 'type_rewrites' and \
                isinstance(n.value, ast.DictComp):
            comp = n.value
    ok = comp is not None and norm(comp.key) == \
        '(typ.id, not skip_subtypes)' and norm(
            comp.generators[0].target) == '((typ, skip_subtypes), s)'
    ctx.ob('C07.R3', 'stmtctx.fini_expression:key-conversion', ok,
           f'type_rewrites key conversion is '
           f'{norm(comp.key) if comp is not None else None}: the second '
           f'component must be negated exactly once between skip_subtypes '
           f'and include_descendants', fe.loc,
           sample='(typ.id, not skip_subtypes)')
    ttr = repo.func(f'{QLC}.policies.try_type_rewrite')
    rk = [n for n in walk_no_nested(ttr.node) if isinstance(n, ast.Assign)
          and norm(n.targets[0]) == 'rw_key']
    ok = bool(rk) and all(norm(n.value) == '(stype, skip_subtypes)'
                          for n in rk)
    ctx.ob('C07.R3', 'policies.try_type_rewrite:writer-key', ok,
           'try_type_rewrite registers under a different key', ttr.loc,
           sample='(stype, skip_subtypes)')
    # skip_subtypes of a TypeRoot is carried to the IR typeref walk
    ok = any(isinstance(a, ast.Assign) and isinstance(a.value, ast.Attribute)
             and a.value.attr == 'skip_subtypes'
             and norm(a.targets[0]) in norm(rk[0].value if rk else a.value)
             for a in ast.walk(ns.node))
    ctx.ob('C07.R3', 'setgen.new_set:skip_subtypes-source', ok,
           'skip_subtypes is not taken from the TypeRoot expression',
           ns.loc, sample='skip_subtypes = expr.skip_subtypes')

    # ---- R4 suppression list ------------------------------------------------------
    ctx.floor('C07.R4', 10)
    for pkg in (QLC, PGC):
        for m in repo.modules_in(pkg):
            for n in ast.walk(m.tree):
                if isinstance(n, ast.keyword) and n.arg == \
                        'ignore_rewrites' and isinstance(
                            n.value, ast.Constant) and n.value.value is True:
                    f = repo.enclosing_function(m, n.value)
                    who = f.qualname if f else m.name
                    # closures: use the outermost named function
                    top = who
                    ok = any(top == k or top.startswith(k + '.')
                             for k in IGNORE_REWRITES_SITES)
                    ctx.ob('C07.R4', f'{who}:ignore_rewrites=True', ok,
                           f'{who} builds a set / range with '
                           f'ignore_rewrites=True: a new read path without '
                           f'the policy filter (not in the reviewed list)',
                           f'{m.rel()}:{n.value.lineno}',
                           sample=next((v for k, v in
                                        IGNORE_REWRITES_SITES.items()
                                        if top.startswith(k)), None))
    # suppress_rewrites writers
    for m in repo.modules_in(QLC):
        for n in ast.walk(m.tree):
            if isinstance(n, ast.Assign) and isinstance(
                    n.targets[0], ast.Attribute) and \
                    n.targets[0].attr == 'suppress_rewrites':
                f = repo.enclosing_function(m, n)
                who = f.qualname if f else m.name
                ok = who.startswith((f'{QLC}.policies.',
                                     f'{QLC}.context.'))
                ctx.ob('C07.R4', f'{who}:suppress_rewrites', ok,
                       f'{who} assigns suppress_rewrites (only policy '
                       f'compilation itself and context propagation may)',
                       f'{m.rel()}:{n.lineno}', sample=norm(n.value)[:50])
    # apply_query_rewrites= sites
    n_aqr = 0
    for m in repo.modules_in('edb'):
        for n in ast.walk(m.tree):
            if isinstance(n, ast.keyword) and n.arg == \
                    'apply_query_rewrites':
                n_aqr += 1
                f = repo.enclosing_function(m, n.value)
                who = f.qualname if f else m.name
                if who.startswith('edb.server.compiler.compiler.'):
                    v = norm(n.value)
                    ok = "'__internal_no_apply_query_rewrites'" in v and \
                        'ctx.bootstrap_mode' in v and \
                        'ctx.schema_reflection_mode' in v and \
                        v.count('not ') >= 3
                    ctx.ob('C07.R4', f'{who}:apply_query_rewrites', ok,
                           f'user queries are compiled with '
                           f'apply_query_rewrites={v[:80]}: rewrites must '
                           f'be on unless bootstrap / reflection / the '
                           f'internal setting', f'{m.rel()}:{n.value.lineno}',
                           sample=v[:100])
                else:
                    ok = who.startswith(APPLY_REWRITES_OFF_OK)
                    ctx.ob('C07.R4', f'{who}:apply_query_rewrites', ok,
                           f'{who} sets apply_query_rewrites='
                           f'{norm(n.value)[:40]} outside schema-expression '
                           f'compilation', f'{m.rel()}:{n.value.lineno}',
                           sample=norm(n.value)[:40], nontrivial=False)
    if n_aqr < 10:
        raise AnalysisError('C07.R4: apply_query_rewrites sites not found')
    opts = repo.cls('edb.edgeql.compiler.options.GlobalCompilerOptions')
    d = opts.assign_fields.get('apply_query_rewrites')
    ctx.ob('C07.R4', 'options:default-on', d is not None and norm(d) ==
           'True', 'apply_query_rewrites no longer defaults to True',
           opts.loc, sample='default True')

    # ---- R5 single constructor ------------------------------------------------------
    ctx.floor('C07.R5', 3)
    for m in repo.modules_in(QLC):
        for name in ('Set', 'SetE'):
            for c in module_calls(m).get(name, []):
                if norm(c.func) not in ('irast.Set', 'irast.SetE'):
                    continue
                f = repo.enclosing_function(m, c)
                who = f.qualname if f else m.name
                ok = who in (f'{QLC}.setgen.new_set',
                             f'{QLC}.setgen.new_empty_set')
                ctx.ob('C07.R5', f'{who}:irast.Set', ok,
                       f'{who} constructs an ir.Set directly: object-typed '
                       f'sets created outside setgen.new_set never register '
                       f'their type\'s policy rewrite',
                       f'{m.rel()}:{c.lineno}', sample='owner')
    g = CFG(ns.node)
    reg = [n.id for n in g.nodes if any(
        norm(c.func) == 'policies.try_type_rewrite'
        for c in g.node_calls(n))]
    tests = [t for t in g.nodes if t.kind == 'test'
             and 'rw_key not in ctx.env.type_rewrites' in norm(t.ast)]
    ok = len(reg) == 1 and len(tests) == 1
    if ok:
        conj = sorted(norm(v) for v in tests[0].ast.values)
        want = sorted(['not ignore_rewrites',
                       'rw_key not in ctx.env.type_rewrites',
                       'isinstance(stype, s_objtypes.ObjectType)',
                       'ctx.env.options.apply_query_rewrites'])
        ok = conj == want and g.edge_dominates(tests[0].id, 'T', reg[0])
        # every normal path on which the test holds registers
        ok = ok and g.always_after(tests[0].id, reg, exits={g.exit},
                                   first_labels={'T'})
    ctx.ob('C07.R5', 'setgen.new_set:registers-rewrite', ok,
           'new_set does not call try_type_rewrite under exactly {not '
           'ignore_rewrites, not yet registered, object type, rewrites '
           'enabled}', ns.loc, sample='four documented conditions')
    ircls_calls = [c for c in ast.walk(ns.node) if isinstance(c, ast.Call)
                   and norm(c.func) == 'ircls']
    ok = False
    if len(ircls_calls) == 1 and tests:
        nid = [n.id for n in g.nodes if ircls_calls[0] in g.node_calls(n)]
        ok = bool(nid) and g.always_before(nid[0], [tests[0].id])
    ctx.ob('C07.R5', 'setgen.new_set:registration-before-construction', ok,
           'the set is constructed on a path that skipped the rewrite '
           'registration test', ns.loc, sample='test dominates construction')
    _r6(repo, ctx)
    _r7(repo, ctx)
    _r8(repo, ctx)
    _r9(repo, ctx)
    _r10(repo, ctx)
    _r11(repo, ctx)
    _r12(repo, ctx)


def _r6(repo: Repo, ctx) -> None:
    from ..absint import Facts, must_pass, open_nodes
    ctx.floor('C07.R6', 6)
    gf = repo.func(f'{QLC}.policies.get_rewrite_filter')
    ctx.saw(gf)
    g = CFG(gf.node)
    # the facts below are stated over the function's own accumulators; when
    # those are gone (kept in another structure) nothing can be decided
    stored = {x.id for x in ast.walk(gf.node) if isinstance(x, ast.Name)
              and isinstance(x.ctx, ast.Store)}
    gone = {'allow', 'deny', 'filter_expr'} - stored
    if gone:
        raise AnalysisError(
            f'C07.R6: get_rewrite_filter no longer keeps {sorted(gone)} as '
            f'locals; the allow / deny facts cannot be decided')
    # (a) "no filter at all" is decided on the full policy list of the type
    nones = [n for n in g.nodes if n.kind == 'stmt' and isinstance(
        n.ast, ast.Return) and (n.ast.value is None or norm(n.ast.value)
                                == 'None')]
    tests = []
    for n in nones:
        for t in g.nodes:
            if t.kind == 'test' and (g.edge_dominates(t.id, 'T', n.id)
                                     or g.edge_dominates(t.id, 'F', n.id)):
                tests.append(t)
    txt = [inline_locals(gf.node, t.ast) for t in tests]
    ok = bool(nones) and bool(txt) and all(
        'get_access_policies(' in x and 'get_access_kinds' not in x
        and 'mode' not in x for x in txt)
    ctx.ob('C07.R6', 'get_rewrite_filter:no-filter-only-without-policies',
           ok, f'get_rewrite_filter returns "no filter" under {txt}: a type '
           f'that has policies, none of them for this access kind, must be '
           f'filtered by FALSE (default deny), not left unfiltered',
           gf.loc, sample=txt)
    # (b) without an applicable allow policy the filter is FALSE
    F = Facts({'allow': False,
               'ctx.env.options.func_params is not None': False}, gf.node)
    on = open_nodes(g, F)
    asg = [g.nodes[i].ast for i in sorted(on) if g.nodes[i].kind == 'stmt'
           and isinstance(g.nodes[i].ast, ast.Assign)
           and norm(g.nodes[i].ast.targets[0]) == 'filter_expr']
    first = [norm(a.value) for a in asg
             if 'filter_expr' not in norm(a.value)]
    ok = bool(first) and all(v == 'qlast.Constant.boolean(False)'
                             for v in first) and bool(F.used)
    ctx.ob('C07.R6', 'get_rewrite_filter:default-deny', ok,
           f'with no applicable allow policy the filter starts from '
           f'{first}', gf.loc, sample=first)
    # (c) deny policies are conjoined negated
    F = Facts({'deny': True, 'pols': True}, gf.node)
    tg = [n.id for n in g.nodes if n.kind == 'stmt' and isinstance(
        n.ast, ast.Assign) and norm(n.ast.targets[0]) == 'filter_expr'
        and 'deny_expr' in norm(n.ast.value)
        and "op='OR'" not in norm(n.ast.value)]
    neg = any(isinstance(a, ast.Assign) and norm(a.targets[0]) == 'deny_expr'
              and "op='NOT'" in norm(a.value) for a in ast.walk(gf.node))
    ok = bool(tg) and neg and must_pass(g, F, tg) and bool(F.used)
    ctx.ob('C07.R6', 'get_rewrite_filter:deny-wins', ok,
           'deny policies are not conjoined (negated) with the allow part '
           'on every path', gf.loc,
           sample='filter := filter AND NOT (d1 OR d2 ...)')
    # (d) a policy contributes only for the access kinds it names, and as
    #     allow / deny according to its action
    loop = [n for n in ast.walk(gf.node) if isinstance(n, ast.For)
            and any(isinstance(c, ast.Call) and call_name(c) == 'compile_pol'
                    for c in ast.walk(n))]
    if len(loop) != 1:
        raise AnalysisError('C07.R6: policy loop of get_rewrite_filter '
                            'not found')
    F = Facts({'mode not in pol.get_access_kinds(schema)': True}, gf.node)
    on = open_nodes(g, F)
    apps = [n.id for n in g.nodes if n.kind == 'stmt' and norm(n.ast) in (
        'allow.append(expr)', 'deny.append(expr)')]
    ok = len(apps) == 2 and bool(F.used) and not (set(apps) & on)
    it = inline_locals(gf.node, loop[0].iter)
    if len(apps) == 2 and not F.used and 'get_access_kinds' in it and (
            ' if ' in it):
        ok = True      # the loop runs over a list already filtered by kind
    ctx.ob('C07.R6', 'get_rewrite_filter:kinds', ok,
           'a policy that does not name this access kind still contributes '
           'to the filter (or the kind test is gone)', gf.loc,
           sample='mode not in kinds -> continue')
    for val, want in ((True, 'allow.append(expr)'),
                      (False, 'deny.append(expr)')):
        F = Facts({'is_allow': val,
                   'mode not in pol.get_access_kinds(schema)': False},
                  None)
        on = open_nodes(g, F)
        other = 'deny.append(expr)' if val else 'allow.append(expr)'
        bad = [n.id for n in g.nodes if n.kind == 'stmt'
               and norm(n.ast) == other and n.id in on]
        good = [n.id for n in g.nodes if n.kind == 'stmt'
                and norm(n.ast) == want and n.id in on]
        isal = [norm(a.value) for a in ast.walk(gf.node)
                if isinstance(a, ast.Assign)
                and norm(a.targets[0]) == 'is_allow']
        ok = bool(good) and not bad and isal == [
            'pol.get_action(schema) == qltypes.AccessPolicyAction.Allow']
        ctx.ob('C07.R6', f'get_rewrite_filter:action={val}', ok,
               f'an {"allow" if val else "deny"} policy is not collected '
               f'as such ({isal})', gf.loc, sample=want)


def _r7(repo: Repo, ctx) -> None:
    ctx.floor('C07.R7', 5)
    # (a) the registry object is created once per compilation and never
    #     rebound: try_type_rewrite (and others) hold it across nested
    #     compilation of policy bodies
    holders = []
    for m in repo.modules_in(QLC):
        for f in repo._funcs_of(m):
            for n in walk_no_nested(f.node):
                if isinstance(n, ast.Assign) and norm(n.value) == \
                        'ctx.env.type_rewrites' and isinstance(
                            n.targets[0], ast.Name):
                    holders.append(f.qualname)
    ctx.ob('C07.R7', 'type_rewrites:alias-holders', True, loc='',
           sample=sorted(holders), nontrivial=False)
    for m in repo.modules_in(QLC):
        for f in repo._funcs_of(m):
            for n in walk_no_nested(f.node):
                tg = n.targets if isinstance(n, ast.Assign) else (
                    [n.target] if isinstance(n, (ast.AugAssign,
                                                 ast.AnnAssign)) else [])
                for t in tg:
                    if isinstance(t, ast.Attribute) and t.attr == \
                            'type_rewrites':
                        ok = f.name == '__init__' and norm(t.value) == 'self'
                        ctx.ob('C07.R7', f'{f.qualname}:rebinds-registry',
                               ok or not holders,
                               f'{f.qualname} rebinds {norm(t)} while '
                               f'{sorted(holders)} hold the previous dict '
                               f'across the compilation of policy bodies: '
                               f'the rewrite they register afterwards is '
                               f'written to an orphaned dict and the type '
                               f'is read unfiltered', f.loc,
                               sample=norm(n)[:70])
    # (b) SQL-side readers look rewrites up under the material type id
    n_r = 0
    for m in repo.modules_in(PGC):
        for f in repo._funcs_of(m):
            for n in walk_no_nested(f.node):
                key = None
                if isinstance(n, ast.Compare) and len(n.ops) == 1 and \
                        isinstance(n.ops[0], (ast.In, ast.NotIn)) and norm(
                            n.comparators[0]).endswith('env.type_rewrites'):
                    key = n.left
                elif isinstance(n, ast.Call) and norm(n.func).endswith(
                        'env.type_rewrites.get') and n.args:
                    key = n.args[0]
                if key is None:
                    continue
                n_r += 1
                k = inline_locals(f.node, key)
                first = k.lstrip('(').split(',')[0].strip()
                ok = first.endswith('real_material_type.id') or (
                    f.qualname == f'{RELCTX}.range_for_material_objtype'
                    and first == 'typeref.id')
                ctx.ob('C07.R7', f'{f.qualname}:reader-key={first[:40]}', ok,
                       f'{f.qualname} looks a rewrite up under `{first}`: '
                       f'rewrites are registered under the id of the '
                       f'*material* type, so a view / shape typeref never '
                       f'matches and the type is treated as unfiltered',
                       f.loc, sample=k[:60])
    if n_r < 3:
        raise AnalysisError('C07.R7: readers of env.type_rewrites not found')
    rfm = repo.func(f'{RELCTX}.range_for_material_objtype')
    ok = any(isinstance(a, ast.Assign) and norm(a.targets[0]) == 'typeref'
             and norm(a.value) == 'typeref.real_material_type'
             for a in ast.walk(rfm.node))
    ctx.ob('C07.R7', 'range_for_material_objtype:materialises-typeref', ok,
           'range_for_material_objtype no longer normalises its typeref to '
           'the material type before the rewrite lookup', rfm.loc,
           sample='typeref = typeref.real_material_type')
    # (c) compilations of schema aliases / computed globals are cached per
    #     security context
    n_w = 0
    for m in repo.modules_in(QLC):
        for f in repo._funcs_of(m):
            for n in walk_no_nested(f.node):
                key = None
                if isinstance(n, ast.Assign) and isinstance(
                        n.targets[0], ast.Subscript) and norm(
                        n.targets[0].value).endswith('schema_view_cache'):
                    key = n.targets[0].slice
                elif isinstance(n, ast.Call) and isinstance(
                        n.func, ast.Attribute) and n.func.attr in (
                        'setdefault', 'update', '__setitem__') and norm(
                        n.func.value).endswith('schema_view_cache'):
                    key = n.args[0] if n.args else None
                    if key is None:
                        ctx.fail('C07.R7', f'{f.qualname}:cache-writer',
                                 'bulk write to schema_view_cache', f.loc)
                        continue
                if key is None:
                    continue
                n_w += 1
                k = inline_locals(f.node, key)
                ok = 'ctx.get_security_context()' in k
                ctx.ob('C07.R7', f'{f.qualname}:view-cache-key', ok,
                       f'{f.qualname} stores a compiled alias / global '
                       f'under `{k[:50]}`, which does not include the '
                       f'current security context: a copy compiled inside '
                       f'a policy body (rewrites ignored) is handed to the '
                       f'query proper', f.loc, sample=k[:60])
    if n_w < 1:
        raise AnalysisError('C07.R7: writers of schema_view_cache not found')


def _r8(repo: Repo, ctx) -> None:
    """When a type gets (its own) rewrite."""
    ctx.floor('C07.R8', 3)
    # (a) "this type needs no rewrite" is decided on all its policies
    ttr = repo.func(f'{QLC}.policies.try_type_rewrite')
    ctx.saw(ttr)
    g = CFG(ttr.node)
    skips = [n for n in g.nodes if n.kind == 'stmt' and isinstance(
        n.ast, ast.Assign) and norm(n.ast.targets[0]).startswith(
        'type_rewrites[') and norm(n.ast.value) == 'None']
    seen = 0
    for n in skips:
        # the placeholder written before compiling is not an early exit
        nxt = [s_ for s_, _l in n.succ]
        if not any(isinstance(g.nodes[x].ast, ast.Return) for x in nxt):
            continue
        tests = [t for t in g.nodes if t.kind == 'test' and (
            g.edge_dominates(t.id, 'T', n.id))
            and 'pols' in inline_locals(ttr.node, t.ast)
            or (t.kind == 'test' and g.edge_dominates(t.id, 'T', n.id)
                and 'get_access_policies' in inline_locals(ttr.node, t.ast))]
        for t in tests:
            seen += 1
            txt = inline_locals(ttr.node, t.ast)
            ok = 'get_access_policies(' in txt and \
                'get_access_kinds' not in txt and 'AccessKind' not in txt
            ctx.ob('C07.R8', 'try_type_rewrite:no-rewrite-only-without-'
                   'policies', ok,
                   f'try_type_rewrite decides that a type needs no rewrite '
                   f'under `{txt[:90]}`: a type whose policies are all for '
                   f'other access kinds (allow insert only) must still be '
                   f'rewritten to the empty default-deny filter, not left '
                   f'readable', ttr.loc, sample=txt[:80])
    if not seen:
        raise AnalysisError('C07.R8: the no-policy early exit of '
                            'try_type_rewrite not found')
    # (b) a subtype's policies count as its own unless they come from the
    #     very type whose filter already covers it
    hp = repo.func(f'{QLC}.policies.has_own_policies')
    ctx.saw(hp)
    loops = [n for n in ast.walk(hp.node) if isinstance(n, ast.For)
             and 'get_access_policies' in norm(n.iter)]
    if len(loops) != 1:
        raise AnalysisError('C07.R8: policy loop of has_own_policies not '
                            'found')
    tests = [n for n in ast.walk(loops[0]) if isinstance(n, ast.If)
             and any(isinstance(x, ast.Return) and norm(x.value) == 'True'
                     for x in n.body)]
    ok = bool(tests)
    from ..shapes import derives_from
    skip_param = 'skip_from' if 'skip_from' in hp.params() else None
    if skip_param is None:
        raise AnalysisError('C07.R8: has_own_policies has no skip_from '
                            'parameter any more')
    for t in tests:
        txt = norm(t.test)
        # the comparison is with the parent the type was reached from: the
        # parameter itself or a local it travels through (work-list entry)
        names = {x.id for x in ast.walk(t.test) if isinstance(x, ast.Name)}
        ok = ok and derives_from(hp.node, names, skip_param) \
            and 'get_subject' in txt and 'get_owned' not in txt
    ctx.ob('C07.R8', 'has_own_policies:relative-to-skip_from', ok,
           'has_own_policies does not decide by "is this policy inherited '
           'from skip_from": with several parents a policy inherited from '
           'another parent is not covered by skip_from\'s filter, so the '
           'subtype is read through the parent without any policy',
           hp.loc, sample='skip_from == base.get_subject(schema)')
    # (c) the recursion guard of rewrite CTEs is scoped by the relation
    #     context it was added in
    cl = repo.cls(f'{PGC}.context.CompilerContextLevel')
    init = cl.methods.get('__init__')
    gi = CFG(init.node)
    copies = [n.id for n in gi.nodes if n.kind == 'stmt' and isinstance(
        n.ast, ast.Assign) and norm(n.ast.targets[0]) ==
        'self.pending_type_rewrite_ctes'
        and norm(n.ast.value).startswith('set(')]
    nr = [t.id for t in gi.nodes if t.kind == 'test'
          and 'ContextSwitchMode.NEWREL' in norm(t.ast)]
    ok = bool(copies) and bool(nr) and any(
        gi.edge_dominates(t, 'T', c) for t in nr for c in copies)
    adders = []
    for m in repo.modules_in(PGC):
        for f in repo._funcs_of(m):
            for w in ast.walk(f.node):
                if isinstance(w, ast.With):
                    for it in w.items:
                        ce = it.context_expr
                        if isinstance(ce, ast.Call) and isinstance(
                                ce.func, ast.Attribute) and isinstance(
                                it.optional_vars, ast.Name):
                            v = it.optional_vars.id
                            for c in ast.walk(w):
                                if isinstance(c, ast.Call) and norm(
                                        c.func) == f'{v}.pending_type_' \
                                        f'rewrite_ctes.add':
                                    adders.append(ce.func.attr)
    ctx.ob('C07.R8', 'pending_type_rewrite_ctes:scoped-by-newrel',
           ok and adders and set(adders) <= {'newrel'},
           f'the rewrite-recursion guard is added through {sorted(set(adders))} '
           f'contexts but a NEWREL context does not start from a copy of '
           f'it: the marker outlives the CTE being built, and every later '
           f'path to the same type in the query reads the raw table',
           init.loc, sample='NEWREL: set(prevlevel.pending_type_rewrite_'
                            'ctes)')


def _r9(repo: Repo, ctx) -> None:
    from ..absint import Facts, open_returns
    ctx.floor('C07.R9', 2)
    # (a) the policies of a type are withheld only by the two options
    gp = repo.func(f'{QLC}.policies.get_access_policies')
    ctx.saw(gp)
    g = CFG(gp.node)
    F = Facts({'ctx.env.options.apply_query_rewrites': True,
               'ctx.env.options.apply_user_access_policies': True}, gp.node)
    rets = [norm(r.value) for r in open_returns(g, F) if r.value is not None]
    ok = bool(rets) and bool(F.used) and all(r != '()' for r in rets) and \
        all('get_access_policies(' in r for r in rets)
    ctx.ob('C07.R9', 'get_access_policies:withheld-only-by-options', ok,
           f'with both access-policy options enabled get_access_policies '
           f'can still answer {sorted(set(rets))}: a type whose policies '
           f'are hidden from the compiler (e.g. abstract types) gets no '
           f'rewrite, so its descendants are read unfiltered through it',
           gp.loc, sample=sorted(set(rets)))
    # (b) whether rewrites are ignored for this set is decided before a
    #     rewrite is registered for its type
    ns = repo.func(f'{QLC}.setgen.new_set')
    ctx.saw(ns)
    g = CFG(ns.node)
    dec = [t.id for t in g.nodes if t.kind == 'test'
           and 'suppress_rewrites' in norm(t.ast)]
    reg = [n.id for n in g.nodes if any(
        (call_name(c) or '').endswith('try_type_rewrite')
        for c in g.node_calls(n))]
    if not dec or not reg:
        raise AnalysisError('C07.R9: rewrite decision / registration of '
                            'new_set not found')
    # (c) a rewrite is never compiled (and cached for the whole query) while
    #     rewrites are suppressed for a policy body
    F = Facts({'ctx.suppress_rewrites': True, 'ignore_rewrites': False,
               'policies.should_ignore_rewrite(stype, ctx=ctx)': False,
               'rw_key not in ctx.env.type_rewrites': True,
               'isinstance(stype, s_objtypes.ObjectType)': True,
               'ctx.env.options.apply_query_rewrites': True}, ns.node)
    from ..absint import open_nodes as _on
    opened = _on(g, F)
    ctx.ob('C07.R9', 'new_set:no-registration-inside-policy-body',
           not (set(reg) & opened),
           'inside a policy body (ctx.suppress_rewrites set) a type whose '
           'rewrites are not ignored there (std types) gets its rewrite '
           'compiled and cached under (type, skip_subtypes): the sets of its '
           'children are built with rewrites ignored, and the query proper '
           'reuses that rewrite, reading the children unfiltered', ns.loc,
           sample='try_type_rewrite unreachable when suppress_rewrites')
    ok = all(g.always_before(r, dec) for r in reg)
    ctx.ob('C07.R9', 'new_set:ignore-decided-before-registration', ok,
           'new_set registers the type rewrite before deciding whether '
           'rewrites are suppressed for this set: a type first mentioned '
           'inside another type\'s policy body gets its rewrite compiled '
           'in the policy\'s context (rewrites ignored) and that rewrite '
           'is reused by the query proper', ns.loc,
           sample='suppress_rewrites test dominates try_type_rewrite')


def _r10(repo: Repo, ctx) -> None:
    """C07.R10 a policy's WHEN condition always restricts it.

    In compile_pol, whenever the policy has a condition
    (`pol.get_condition(schema)` truthy) the compiled expression is the
    conjunction of that condition with the rest -- on *every* path, in
    particular also when the policy has no USING expression (`when (c) allow
    select` means `c`, not `true`)."""
    from ..absint import Facts, must_pass
    ctx.floor('C07.R10', 1)
    cp = repo.func('edb.edgeql.compiler.policies.compile_pol')
    ctx.saw(cp)
    g = CFG(cp.node)
    conj = [n.id for n in g.nodes if n.kind == 'stmt' and n.ast is not None
            and any(isinstance(c, ast.Call) and norm(c.func) == 'qlast.BinOp'
                    and any(k.arg == 'op' and isinstance(
                        k.value, ast.Constant) and k.value.value == 'AND'
                        for k in c.keywords)
                    and 'condition' in norm(c) for c in ast.walk(n.ast))]
    if not conj:
        raise AnalysisError('C07.R10: condition conjunction of compile_pol '
                            'not found')
    fx = Facts({'pol.get_condition(schema)': True}, fn_node=cp.node)
    ok = must_pass(g, fx, conj)
    ctx.ob('C07.R10', 'compile_pol:when-condition-always-applied', ok,
           'a policy with a WHEN condition can be compiled without it (the '
           'conjunction with the condition is skipped on some path, e.g. '
           'when there is no USING expression): `when (c) allow select` '
           'then lets every row through on every read path', cp.loc,
           sample="BinOp(op='AND', left=condition, ...) on every path")


def _callers(repo: Repo, pkg: str, name: str):
    out = []
    for m in repo.modules_in(pkg):
        for c in module_calls(m).get(name, []):
            f = repo.enclosing_function(m, c)
            if f is not None and f.name != name:
                out.append((f, c))
    return out


def _relation_kind(f: FuncInfo, name: Optional[ast.AST]) -> str:
    if name is None:
        return 'unknown'
    if f.qualname == f'{PGC}.new_external_rel':
        # caller-supplied relation for DDL-time expression compilation
        # (external_rels of compile_ir_to_sql_tree); not a user-query path
        return 'external'
    if isinstance(name, ast.Constant) and isinstance(name.value, str):
        return 'literal'
    if isinstance(name, ast.Name):
        for n in walk_no_nested(f.node):
            if isinstance(n, ast.Assign):
                for t in n.targets:
                    names = [norm(x) for x in (
                        t.elts if isinstance(t, ast.Tuple) else [t])]
                    if name.id in names:
                        v = norm(n.value)
                        if 'get_objtype_backend_name(' in v:
                            return 'objtype'
                        if 'get_pointer_backend_name(' in v or \
                                'table_name' in v or 'ptr_info' in v or \
                                'get_ptrref_storage_info' in v:
                            return 'pointer'
                        if isinstance(n.value, ast.Constant):
                            return 'literal'
        if name.id in f.params():
            return 'literal' if f.name == 'new_external_rel' else 'unknown'
    if isinstance(name, ast.Attribute) and 'table_name' in norm(name):
        return 'pointer'
    if isinstance(name, ast.Subscript) and 'table_name' in norm(name):
        return 'pointer'
    return 'unknown'



def _r11(repo: Repo, ctx) -> None:
    """C07.R11 the components of a compound type get their rewrites.  A
    compound type has no rewrite of its own; `try_type_rewrite` recurses
    into what the type is made of.  The SQL compiler ranges over the
    component types' tables (a subtype reached through `[IS Other]` is read
    from its own table under the key of the intersection's component), so
    both the members of a union and the members of an intersection have to
    be visited -- otherwise the subtype's rewrite is never registered and
    its table is read unfiltered."""
    ctx.floor('C07.R11', 2)
    f = repo.func(f'{QLC}.policies.try_type_rewrite')
    ctx.saw(f)
    arms = [n for n in ast.walk(f.node) if isinstance(n, ast.If)
            and 'is_compound_type' in norm(n.test)]
    if not arms:
        raise AnalysisError('C07.R11: the compound-type arm of '
                            'try_type_rewrite not found')
    txt = ' '.join(norm(st) for st in arms[0].body)
    recurses = 'try_type_rewrite(' in txt
    for getter, what in (('get_union_of', 'union'),
                         ('get_intersection_of', 'intersection')):
        ctx.ob('C07.R11', f'try_type_rewrite:compound-members={what}',
               recurses and f'.{getter}(' in txt,
               f'try_type_rewrite does not descend into the members of an '
               f'{what} type ({getter}): a type that is only reached as such '
               f'a member (Doc[IS Tagged] reads TaggedDoc) never gets its '
               f'rewrite registered and its table is read unfiltered',
               f'{f.module.rel()}:{arms[0].lineno}',
               sample=f'{getter} members visited')



def _r12(repo: Repo, ctx) -> None:
    """C07.R12 a range that was asked for *without* descendants reads the
    one type only.  The rewrite of a type lists its descendants one by one
    (each under its own rewrite) and ranges over the type itself with
    `include_descendants=False`; if that range quietly widens to the
    descendants (for an abstract type, say), a descendant with a policy of
    its own is read a second time, raw.  Path fact on
    `_get_typeref_descendants`: under `include_descendants` false every
    return yields `[typeref]`."""
    from ..absint import Facts, open_returns
    ctx.floor('C07.R12', 1)
    f = repo.func('edb.pgsql.compiler.relctx._get_typeref_descendants')
    ctx.saw(f)
    ps = f.params()
    if 'include_descendants' not in ps:
        raise AnalysisError('C07.R12: _get_typeref_descendants has no '
                            'include_descendants parameter any more')
    g = CFG(f.node)
    F = Facts({'include_descendants': False}, f.node)
    rets = open_returns(g, F)
    vals = sorted({norm(r.value) if r.value is not None else 'None'
                   for r in rets})
    ok = bool(rets) and bool(F.used) and vals == [f'[{ps[0]}]']
    ctx.ob('C07.R12', '_get_typeref_descendants:no-descendants-when-not-'
           'asked', ok,
           f'with include_descendants false _get_typeref_descendants can '
           f'return {vals}: the range over one type widens to its '
           f'descendants, whose tables are then read without their own '
           f'rewrites', f.loc, sample=f'returns [{ps[0]}] only')
