"""C02 — a computed migration turns the old schema into exactly the new one.

  R1 every user-settable schema field takes part in the diff
  R2 every diffed field is expressible in DDL (or is in an audited baseline)
  R3 template-method discipline of Create / Alter / Delete commands
  R4 suppression / propagation facts: when a command may vanish from the
     DDL text, and when a deletion propagates to inheritors
"""
from __future__ import annotations

import ast
from typing import Dict, List, Optional, Set, Tuple

from ..cfg import CFG
from ..model import (AnalysisError, FuncInfo, Repo, call_name, dotted, kwarg,
                     norm, walk_no_nested)

OBJ = 'edb.schema.objects.Object'
DELTA = 'edb.schema.delta'
DDL = 'edb.schema.ddl'

HOOKS = ['_create_begin', '_create_innards', '_create_finalize',
         '_alter_begin', '_alter_innards', '_alter_finalize',
         '_delete_begin', '_delete_innards', '_delete_finalize',
         'apply', 'apply_subcommands', 'apply_prerequisites', 'apply_caused']

# methods whose string constants name fields they map to / from DDL AST
AST_HOOKS = ('get_ast_attr_for_field', '_apply_field_ast', '_get_ast',
             '_apply_fields_ast', '_get_ast_node', '_cmd_tree_from_ast',
             '_apply_rebase_ast', 'get_dummy_expr_field_value',
             '_get_expr_field_ast', '_deparse_name', '_classname_from_ast',
             '_process_create_or_alter_ast', '_cmd_from_ast',
             'compile_expr_field')

# overrides that deliberately do not chain to super()
NON_SUPER_OK = {
    ('edb.schema.delta.CommandGroup', 'apply'): 'template definition',
    ('edb.schema.delta.DeltaRoot', 'apply'): 'template definition (root)',
    ('edb.schema.delta.CreateObject', 'apply'): 'template definition',
    ('edb.schema.delta.CreateObject', '_create_begin'):
        'template definition: performs schema.add itself',
    ('edb.schema.delta.AlterObject', 'apply'): 'template definition',
    ('edb.schema.delta.AlterObjectFragment', 'apply'):
        'template definition for fragments',
    ('edb.schema.delta.DeleteObject', 'apply'): 'template definition',
    ('edb.schema.delta.CreateExternalObject', '_create_begin'):
        'external objects are not stored in the schema by design',
    ('edb.schema.delta.CreateExternalObject', 'apply'): 'same',
    ('edb.schema.delta.AlterExternalObject', '_alter_begin'): 'same',
    ('edb.schema.delta.AlterExternalObject', '_alter_innards'): 'same',
    ('edb.schema.delta.AlterExternalObject', 'apply'): 'same',
    ('edb.schema.delta.DeleteExternalObject', '_delete_begin'): 'same',
    ('edb.schema.delta.DeleteExternalObject', '_delete_innards'): 'same',
    ('edb.schema.delta.DeleteExternalObject', '_delete_finalize'): 'same',
    ('edb.schema.delta.DeleteExternalObject', 'apply'): 'same',
    ('edb.schema.database.RenameBranch', 'apply'):
        'branches are external objects',
    ('edb.schema.modules.RenameModule', 'apply'):
        'module rename is rewritten into per-object renames',
    ('edb.schema.types.CreateUnionType', 'apply'):
        'creates the union through schema helpers, no stored command',
    ('edb.schema.migrations.CreateMigration', 'apply_subcommands'):
        'migration body is applied by the migration machinery',
    ('edb.pgsql.delta.CreateTrampolines', 'apply'):
        'backend-only meta command',
    ('edb.pgsql.delta.UpdateEndpointDeleteActions', 'apply'):
        'backend-only meta command',
}

# audited baseline: diffed fields with no generic DDL spelling today.  They
# are expressed by dedicated commands / syntax, are system-maintained, or
# only occur in the standard library.  A NEW entry is what the rule is for.
NOT_DDL_SETTABLE_BASELINE = {
    'Object': {'builtin', 'computed_fields'},
    'InheritingObject': {'ancestors', 'inherited_fields', 'is_derived'},
    'AnnotationValue': {'subject'},
    'Cast': {'from_type', 'to_type', 'allow_implicit', 'allow_assignment',
             'language', 'from_function', 'from_expr', 'from_cast', 'code'},
    'CallableObject': {'impl_is_strict', 'prefer_subquery_args',
                       'is_singleton_set_of', 'params'},
    'Constraint': {'params', 'finalexpr', 'is_aggregate'},
    'Alias': {'type'},
    'Extension': {'dependencies'},
    'Function': {'code', 'nativecode', 'language', 'from_function',
                 'from_expr', 'force_return_cast', 'sql_func_has_out_params',
                 'error_on_null_result', 'preserves_optionality',
                 'preserves_upper_cardinality', 'initial_value', 'fallback'},
    'Index': {'params', 'type_args'},
    'Pointer': {'secret', 'protected', 'computable',
                'computed_link_alias_is_backward', 'computed_link_alias'},
    'Link': {'on_target_delete', 'on_source_delete'},
    'Type': {'expr_type', 'from_global', 'rptr'},
    'ObjectType': {'union_of'},
    'Operator': {'operator_kind', 'language', 'from_operator',
                 'from_function', 'from_expr', 'force_return_cast', 'code',
                 'derivative_of', 'commutator', 'negator', 'recursive'},
    'ScalarType': {'enum_values', 'sql_type', 'sql_type_scheme',
                   'num_params', 'arg_values', 'custom_sql_serialization'},
    'Array': {'element_type', 'dimensions'},
    'MultiRange': {'element_type'},
    'Range': {'element_type'},
    'Tuple': {'named', 'element_types'},
}

R1_EXCEPTIONS = {
    ('Index', 'code'): 'abstract index implementation code: only set on '
                       'standard-library indexes, never by user DDL',
    ('Function', 'reflected_language'):
        'derived from `language` (which is diffed) when the command is '
        'built from AST; never set on its own',
    ('Pointer', 'source'):
        'the owning type / link: a pointer is created nested inside its '
        'source and never moves; differences in source are differences in '
        'the (diffed) qualified name',
}


def schema_fields(repo: Repo, q: str) -> Dict[str, Tuple[str, ast.Call]]:
    out: Dict[str, Tuple[str, ast.Call]] = {}
    for k in reversed(repo.mro(q)):
        c = repo.classes.get(k)
        if not c:
            continue
        for name, val in c.assign_fields.items():
            if isinstance(val, ast.Call) and (dotted(val.func) or '').split(
                    '.')[-1] == 'SchemaField':
                out[name] = (k, val)
    return out


def flag(call: ast.Call, name: str, default: Optional[str] = None):
    v = kwarg(call, name)
    return default if v is None else norm(v)


def diff_scope(repo: Repo) -> List[str]:
    ds = repo.func(f'{DDL}.delta_schemas')
    exc = None
    for n in walk_no_nested(ds.node):
        if isinstance(n, ast.Assign) and norm(n.targets[0]) == \
                'excluded_classes' and isinstance(n.value, ast.Tuple):
            exc = [repo.resolve_expr(ds.module, e) for e in n.value.elts]
    if not exc or len(exc) < 3:
        raise AnalysisError('C02: excluded_classes of delta_schemas not found')
    classes = [q for q in repo.subclasses(OBJ) if q.startswith('edb.schema.')]
    return [q for q in classes if not any(e in repo.mro(q) for e in exc)]


def field_tables(repo: Repo):
    """(settable-but-undiffed, diffed-but-not-settable) over the diff scope;
    each entry (owner class short name, field)."""
    seen = set()
    r1, r2, n = [], [], 0
    for q in diff_scope(repo):
        for fname, (owner, call) in schema_fields(repo, q).items():
            if (owner, fname) in seen:
                continue
            seen.add((owner, fname))
            n += 1
            cc = flag(call, 'compcoef')
            settable = 'True' in (flag(call, 'allow_ddl_set', 'False'),
                                  flag(call, 'special_ddl_syntax', 'False'),
                                  flag(call, 'ddl_identity', 'False'))
            eph = flag(call, 'ephemeral', 'False') == 'True'
            o = owner.split('.')[-1]
            if not settable and not eph and cc in (None, 'None') and \
                    ast_mentions(repo, owner, fname):
                # set from / rendered to dedicated DDL syntax by an AST hook
                settable = True
            if settable and not eph and cc in (None, 'None'):
                r1.append((o, fname, owner))
            if not eph and cc not in (None, 'None') and not settable \
                    and fname != 'expr':
                r2.append((o, fname, owner))
    return n, r1, r2


def ast_mentions(repo: Repo, owner_q: str, fname: str) -> bool:
    m = repo.classes[owner_q].module
    mods = [m, repo.module(DELTA), repo.module('edb.schema.referencing'),
            repo.module('edb.schema.inheriting')]
    for mm in mods:
        for f in repo._funcs_of(mm):
            if f.name in AST_HOOKS:
                for n in ast.walk(f.node):
                    if isinstance(n, ast.Constant) and n.value == fname:
                        return True
    return False


def run(repo: Repo, ctx, descriptive: bool = False) -> None:
    pfx = 'C03' if descriptive else 'C02'
    if not descriptive:
        ctx.explanation = (
            'Decides table-consistency facts the diff engine depends on: R1 '
            'over every schema class in the diff scope (computed from '
            'delta_schemas\' excluded_classes) each field the user can set '
            'through DDL (allow_ddl_set / special_ddl_syntax / ddl_identity, '
            'not ephemeral) has a comparison coefficient, so a difference '
            'in it produces a command; R2 each diffed, non-ephemeral field '
            'is DDL-settable, is the `expr` field, is mapped by an AST hook '
            'of its command classes, or is in an audited baseline (a new '
            'field outside it is a finding), and AlterObjectProperty.'
            '_get_ast still tests exactly those disjuncts; R3 the template '
            'methods call begin -> innards -> caused -> finalize threading '
            'the schema, and every override of a hook calls super() on '
            'every normal path (reasoned exceptions). The rename heuristic, '
            'the linearisation order and apply semantics are NOT decided.')
        ctx.not_decided = ['similarity matrix / rename choice',
                           'linearize_delta ordering',
                           'inherited-ref propagation', 'apply semantics']
    n, r1, r2 = field_tables(repo)
    if n < 120:
        raise AnalysisError(f'{pfx}: only {n} schema fields found')

    if not descriptive:
        # ---- R1 ------------------------------------------------------------
        ctx.floor('C02.R1', 3)
        ctx.ob('C02.R1', 'scope', True,
               sample=f'{n} SchemaField declarations in diff scope; '
                      f'{len(r1)} settable without a coefficient')
        for o, f, owner in r1:
            ok = (o, f) in R1_EXCEPTIONS
            ctx.ob('C02.R1', f'{o}.{f}', ok,
                   f'{o}.{f} can be set through DDL but has compcoef=None: '
                   f'Object.compare / as_alter_delta skip it, so two '
                   f'schemas that differ only in it produce an empty '
                   f'migration and the result is not the target',
                   repo.classes[owner].loc,
                   sample=R1_EXCEPTIONS.get((o, f)))

    # ---- R2 / C03.R1 -------------------------------------------------------
    rule = f'{pfx}.R2' if not descriptive else 'C03.R1'
    ctx.floor(rule, 40)
    for o, f, owner in r2:
        if ast_mentions(repo, owner, f):
            ctx.ob(rule, f'{o}.{f}', True, loc=repo.classes[owner].loc,
                   sample='mapped by an AST hook of its command classes',
                   nontrivial=False)
            continue
        ok = f in NOT_DDL_SETTABLE_BASELINE.get(o, set())
        ctx.ob(rule, f'{o}.{f}', ok,
               f'{o}.{f} takes part in the schema diff (compcoef set) but '
               f'AlterObjectProperty._get_ast produces no DDL for it (not '
               f'allow_ddl_set / special_ddl_syntax, not `expr`, no AST hook '
               f'names it): a migration that changes it has no text form, '
               f'so replaying the DDL / DESCRIBE output does not reproduce '
               f'the schema', repo.classes[owner].loc,
               sample='audited baseline (dedicated command / system '
                      'maintained / stdlib only)')
    # predicate shape of AlterObjectProperty._get_ast
    ga = repo.func(f'{DELTA}.AlterObjectProperty._get_ast')
    tests = [n_ for n_ in ast.walk(ga.node) if isinstance(n_, ast.If)
             and 'field.allow_ddl_set' in norm(n_.test)]
    ok = len(tests) == 1
    if ok:
        t = norm(tests[0].test)
        ok = all(x in t for x in ('not field.allow_ddl_set',
                                  'field.special_ddl_syntax',
                                  'isinstance(parent_node, qlast.AlterObject)',
                                  "self.property != 'expr'",
                                  'parent_node_attr is None')) and \
            isinstance(tests[0].body[-1], ast.Return) and \
            norm(tests[0].body[-1].value) == 'None'
    ctx.ob(rule, 'AlterObjectProperty._get_ast:predicate', ok,
           'the "no AST for this field" predicate of _get_ast no longer '
           'tests {allow_ddl_set, special_ddl_syntax under an ALTER *node*, expr, AST attribute}: '
           'the field table above is no longer what decides expressibility',
           ga.loc, sample='four disjuncts')

    if descriptive:
        return

    # ---- R3 ----------------------------------------------------------------
    ctx.floor('C02.R3', 80)
    for cls, seq in (('CreateObject', ['_create_begin', '_create_innards',
                                       'apply_caused', '_create_finalize']),
                     ('AlterObject', ['_alter_begin', '_alter_innards',
                                      'apply_caused', '_alter_finalize']),
                     ('DeleteObject', ['_delete_begin', '_delete_innards',
                                       'apply_caused', '_delete_finalize'])):
        ap = repo.func(f'{DELTA}.{cls}.apply')
        ctx.saw(ap)
        calls = []
        for n_ in ast.walk(ap.node):
            if isinstance(n_, ast.Assign) and isinstance(
                    n_.value, ast.Call) and norm(
                        n_.value.func).startswith('self.') and \
                    n_.value.func.attr in seq:
                calls.append((n_.lineno, n_.value.func.attr,
                              norm(n_.targets[0]),
                              norm(n_.value.args[0]) if n_.value.args
                              else None))
        calls.sort()
        # the last occurrence order of the four steps
        order = [c[1] for c in calls if c[1] in seq]
        # keep the final begin..finalize run
        ok = len(order) >= 4 and order[-4:] == seq and all(
            c[2] == 'schema' and c[3] == 'schema' for c in calls[-4:])
        ctx.ob('C02.R3', f'{cls}.apply:template-order', ok,
               f'{cls}.apply does not run {seq} in that order threading '
               f'`schema` through each step (got {order})', ap.loc,
               sample=order[-4:])
    mods = repo.modules_in('edb.schema') + [repo.module('edb.pgsql.delta')]
    n_over = 0
    for m in mods:
        for c in m.classes.values():
            if f'{DELTA}.Command' not in repo.mro(c.qualname):
                continue
            for h in HOOKS:
                f = c.methods.get(h)
                if f is None:
                    continue
                anc = [k for k in repo.mro(c.qualname)[1:]
                       if k in repo.classes and h in repo.classes[k].methods]
                if not anc:
                    continue
                n_over += 1
                g = CFG(f.node, raise_pred=lambda e: False,
                        assert_raises=False)
                sup = [n_.id for n_ in g.nodes if any(
                    norm(cc.func) == f'super().{h}'
                    for cc in g.node_calls(n_))]
                chains = bool(sup) and g.exit not in g.reachable(
                    [g.entry], avoid=sup)
                if not chains:
                    why = NON_SUPER_OK.get((c.qualname, h))
                    ctx.ob('C02.R3', f'{c.qualname}.{h}:super',
                           why is not None,
                           f'{c.qualname}.{h} overrides a template hook but '
                           f'has a normal path that never calls '
                           f'super().{h}(): the inherited step (e.g. '
                           f'schema.add / update / delete, field '
                           f'application) is skipped for this command',
                           f.loc, sample=why)
                    continue
                # the super result is what flows on as the schema
                threaded = True
                for n_ in g.nodes:
                    for cc in g.node_calls(n_):
                        if norm(cc.func) == f'super().{h}' and isinstance(
                                n_.ast, ast.Expr):
                            threaded = False   # result discarded
                ctx.ob('C02.R3', f'{c.qualname}.{h}:super', threaded,
                       f'{c.qualname}.{h} calls super().{h}() but discards '
                       f'the schema it returns', f.loc,
                       sample='calls super on every normal path')
    if n_over < 100:
        raise AnalysisError(f'C02.R3: only {n_over} hook overrides found')

    _r4(repo, ctx)
    _r5(repo, ctx)
    _r6(repo, ctx)
    _r7(repo, ctx)


def _r4(repo: Repo, ctx) -> None:
    from ..absint import Facts, open_nodes
    from ..model import inline_locals
    ctx.floor('C02.R4', 4)
    # (a) a rename is left out of the DDL text only if the qualified name
    #     did not change: the comparison covers module *and* name
    ga = repo.func(f'{DELTA}.RenameObject._get_ast')
    ctx.saw(ga)
    g = CFG(ga.node)
    nones = [n.id for n in g.nodes if n.kind == 'stmt' and isinstance(
        n.ast, ast.Return) and (n.ast.value is None or norm(n.ast.value)
                                == 'None')]
    tests = [t for t in g.nodes if t.kind == 'test' and any(
        g.edge_dominates(t.id, lab, n) for n in nones for lab in 'TF')]
    if not nones or not tests:
        raise AnalysisError('C02.R4: RenameObject._get_ast has no '
                            'suppression branch any more')
    for t in tests:
        txt = inline_locals(ga.node, t.ast)
        attrs = {(norm(a.value), a.attr) for a in ast.walk(t.ast)
                 if isinstance(a, ast.Attribute) and a.attr in (
                     'module', 'name')}
        recv = {r for r, _ in attrs}
        onesided = [r for r in recv
                    if {a for rr, a in attrs if rr == r} != {'module',
                                                             'name'}]
        ok = not onesided
        ctx.ob('C02.R4', 'RenameObject._get_ast:compares-qualified-name', ok,
               f'the RENAME clause is dropped from the DDL when `{txt}` is '
               f'false, which compares only part of the qualified name '
               f'({sorted(attrs)}): moving an object to another module under '
               f'the same short name yields no statement, and the migration '
               f'leaves it where it was', ga.loc, sample=txt)
    # (b) deleting a ref on a parent deletes the inherited copy in a child
    #     only when the child neither owns it nor inherits it from another
    #     parent
    pf = repo.func('edb.schema.referencing.DeleteReferencedInheritingObject.'
                   '_propagate_child_ref_deletion')
    ctx.saw(pf)
    g = CFG(pf.node)
    dels = [n.id for n in g.nodes if n.kind == 'stmt' and isinstance(
        n.ast, ast.Assign) and 'DeleteObject' in norm(n.ast.value)]
    if not dels:
        raise AnalysisError('C02.R4: DeleteObject branch of '
                            '_propagate_child_ref_deletion not found')
    for fid, facts, why in (
            ('owned', {'child_ref.get_owned(schema)': True},
             'a ref the child (re)declares itself survives the parent\'s '
             'DROP (it is rebased instead)'),
            ('other-parent', {'implicit_bases': True},
             'a ref that another parent still defines survives the DROP on '
             'this parent (diamond inheritance)')):
        F = Facts(facts, pf.node)
        on = open_nodes(g, F)
        ok = bool(F.used) and not (set(dels) & on)
        ctx.ob('C02.R4', f'_propagate_child_ref_deletion:{fid}', ok,
               f'under {facts} the child\'s ref is still deleted (condition '
               f'consulted: {bool(F.used)}); {why}. The result no longer '
               f'equals the target schema and no DDL can repair it, because '
               f'inherited refs have no text form', pf.loc,
               sample=f'{facts} -> rebase, not delete')
    # (c) inherited (not owned) refs are never rendered: their deletion is
    #     implied by the parent's statement
    da = repo.func('edb.schema.referencing.DeleteReferencedInheritingObject.'
                   '_get_ast')
    g = CFG(da.node)
    F = Facts({'refctx is not None': True,
               "self.get_orig_attribute_value('owned')": True}, da.node)
    rets = [g.nodes[i].ast for i in sorted(open_nodes(g, F))
            if g.nodes[i].kind == 'stmt' and isinstance(g.nodes[i].ast,
                                                        ast.Return)]
    ok = bool(F.used) and bool(rets) and all(
        r.value is not None and 'super()._get_ast' in norm(r.value)
        for r in rets)
    ctx.ob('C02.R4', 'DeleteReferencedInheritingObject._get_ast:owned-rendered',
           ok, 'the DROP of an owned ref is not rendered on every path',
           da.loc, sample='owned -> super()._get_ast')


def _mutates_list(n: ast.AST, var: str) -> bool:
    if isinstance(n, ast.Call) and isinstance(n.func, ast.Attribute) and \
            n.func.attr in ('remove', 'pop', 'insert', 'append', 'extend',
                            'clear', 'sort', 'reverse') and \
            norm(n.func.value) == var:
        return True
    if isinstance(n, (ast.Assign, ast.AugAssign, ast.Delete)):
        tg = n.targets if isinstance(n, (ast.Assign, ast.Delete)) \
            else [n.target]
        return any(isinstance(t, ast.Subscript) and norm(t.value) == var
                   for t in tg)
    return False


def _r5(repo: Repo, ctx) -> None:
    from ..absint import Facts, must_pass
    ctx.floor('C02.R5', 4)
    # (a) no list is shrunk or grown while a for-loop iterates over it
    n_loops = 0
    for mn in ('edb.schema.inheriting', 'edb.schema.delta',
               'edb.schema.referencing', 'edb.schema.ordering',
               'edb.schema.objects', 'edb.schema.ddl'):
        m = repo.module(mn)
        for f in repo._funcs_of(m):
            for loop in walk_no_nested(f.node):
                if not (isinstance(loop, ast.For)
                        and isinstance(loop.iter, ast.Name)):
                    continue
                n_loops += 1
                var = loop.iter.id
                bad = [norm(x)[:40] for b in loop.body for x in ast.walk(b)
                       if _mutates_list(x, var) and getattr(
                           getattr(x, 'func', None), 'attr', '') in (
                           'remove', 'pop', 'insert', 'clear')
                       or (isinstance(x, ast.Delete) and _mutates_list(
                           x, var))]
                if bad:
                    ctx.saw(f)
                ctx.ob('C02.R5', f'{f.qualname}:for-{var}@L'
                       f'{loop.lineno - f.node.lineno}', not bad,
                       f'{f.qualname} changes the length of `{var}` '
                       f'({bad}) inside `for ... in {var}`: the element '
                       f'after each removed one is skipped, so part of the '
                       f'requested change is silently not applied', f.loc,
                       sample='iterate over a copy', nontrivial=bool(bad))
    if n_loops < 20:
        raise AnalysisError(f'C02.R5: only {n_loops} name-iterating loops')
    # (a2) same-typed arguments (old / new schema, ours / theirs) reach the
    #      parameter of their own name
    from .. import lints
    n_c, hits = lints.swapped_arguments(repo, ['edb.schema'])
    if n_c < 500:
        raise AnalysisError(f'C02.R5: only {n_c} resolved call sites')
    ctx.ob('C02.R5', 'edb.schema:argument-alignment', not hits,
           '; '.join(f'{f.qualname} passes `{a}` and `{b}` to {cal.name} '
                     f'each in the position of the parameter named like '
                     f'the other' for f, c, cal, a, b in hits[:3]),
           hits[0][0].loc if hits else '',
           sample=f'{n_c} resolved call sites checked')
    # (b) a position index of a list is rebuilt after every change of the list
    cb = repo.func('edb.schema.inheriting.RebaseInheritingObject.'
                   '_compute_new_bases')
    ctx.saw(cb)
    g = CFG(cb.node)
    idx_defs = {}
    for n in g.nodes:
        if n.kind == 'stmt' and isinstance(n.ast, ast.Assign) and isinstance(
                n.ast.value, ast.DictComp) and any(
                isinstance(c, ast.Call) and dotted(c.func) == 'enumerate'
                and c.args and isinstance(c.args[0], ast.Name)
                for gen_ in n.ast.value.generators
                for c in ast.walk(gen_.iter)):
            lst = [c.args[0].id for gen_ in n.ast.value.generators
                   for c in ast.walk(gen_.iter) if isinstance(c, ast.Call)
                   and dotted(c.func) == 'enumerate'][0]
            idx_defs.setdefault((norm(n.ast.targets[0]), lst), []).append(
                n.id)
    if not idx_defs:
        raise AnalysisError('C02.R5: position index of _compute_new_bases '
                            'not found')
    for (ix, lst), defs in idx_defs.items():
        muts = [n.id for n in g.nodes if n.ast is not None and any(
            _mutates_list(x, lst) for e in g.node_exprs(n)
            for x in ast.walk(e)) or (n.kind == 'stmt' and _mutates_list(
                n.ast, lst))]
        uses = [n.id for n in g.nodes if n.ast is not None
                and n.id not in defs and any(
                    isinstance(x, ast.Subscript) and norm(x.value) == ix
                    and isinstance(x.ctx, ast.Load)
                    for e in g.node_exprs(n) for x in ast.walk(e))]
        stale = [m_ for m_ in muts
                 if set(uses) & g.reachable([m_], avoid=defs)]
        ctx.ob('C02.R5', f'_compute_new_bases:{ix}-fresh', not stale,
               f'`{ix}` (positions in `{lst}`) is read after `{lst}` was '
               f'changed without being rebuilt: a second EXTENDING ... '
               f'BEFORE/AFTER clause is placed relative to stale positions, '
               f'so base order (and with it ancestors / inherited pointer '
               f'lineage) differs from the target', cb.loc,
               sample=f'{ix} rebuilt after each insertion')
    # (c) altering an inherited ref makes it owned -- also when the ALTER
    #     carries no subcommand yet
    ct = repo.func('edb.schema.referencing.AlterReferencedInheritingObject.'
                   '_cmd_tree_from_ast')
    ctx.saw(ct)
    g = CFG(ct.node)
    own = [n.id for n in g.nodes if n.kind == 'stmt'
           and norm(n.ast) == "cmd.set_attribute_value('owned', True)"]
    if not own:
        raise AnalysisError('C02.R5: owned-marking of '
                            'AlterReferencedInheritingObject not found')
    F = Facts({'refctx is not None': True,
               "qlast.get_ddl_field_command(astnode, 'owned') is None": True,
               'cmd.get_subcommands()': False}, ct.node)
    ok = must_pass(g, F, own) and 'cmd.get_subcommands()' in F.used
    ctx.ob('C02.R5', 'AlterReferencedInheritingObject:empty-alter-owns', ok,
           'an ALTER of an inherited ref that has no subcommand (yet) is '
           'not marked owned (`not all(<empty>)` is False): e.g. ALTER '
           'ANNOTATION x := v adds its value after this point, so the '
           'replayed text leaves the annotation inherited and the subtype '
           'loses its own value', ct.loc,
           sample='no subcommands -> owned = True')
    # (d) a change of inherited status counts in both directions
    co = repo.func('edb.schema.objects.InheritingObject.'
                   'compare_obj_field_value')
    ctx.saw(co)
    tests = [t for t in ast.walk(co.node) if isinstance(t, ast.If)
             and 'our_ifs' in norm(t.test) or isinstance(t, ast.If)
             and 'their_ifs' in norm(t.test)]
    if len(tests) != 1:
        raise AnalysisError('C02.R5: inherited-status test of '
                            'compare_obj_field_value not found')
    t = tests[0].test
    sym = False
    if isinstance(t, ast.Compare) and len(t.ops) == 1 and isinstance(
            t.ops[0], (ast.NotEq, ast.Eq)):
        sym = norm(t.left).replace('our', 'their') == norm(
            t.comparators[0]) or norm(t.comparators[0]).replace(
            'our', 'their') == norm(t.left)
    onesided = any(isinstance(x, ast.BinOp) and isinstance(x.op, ast.Sub)
                   for x in ast.walk(t))
    ctx.ob('C02.R5', 'compare_obj_field_value:inherited-status-symmetric',
           sym and not onesided,
           f'the inherited-status test `{norm(t)}` is not symmetric in '
           f'ours / theirs: a field that stops (or starts) being inherited '
           f'while keeping its value is reported unchanged, so the script '
           f'omits the statement that pins it', co.loc, sample=norm(t))


def _r6(repo: Repo, ctx) -> None:
    from ..absint import Facts, must_pass
    from ..model import inline_locals
    ctx.floor('C02.R6', 3)
    # (a) an ALTER of an object owned in the new schema is never folded into
    #     the command of its implicit ancestor
    to = repo.func('edb.schema.ordering._trace_op')
    ctx.saw(to)
    g = CFG(to.node)
    merge = [n.id for n in g.nodes if n.kind == 'stmt' and isinstance(
        n.ast, ast.Assign) and norm(n.ast.targets[0]) == 'implicit_ancestors'
        and 'get_implicit_ancestors' in norm(n.ast.value)]
    if not merge:
        raise AnalysisError('C02.R6: implicit-ancestor merge of _trace_op '
                            'not found')
    guards = [t for t in g.nodes if t.kind == 'test' and any(
        g.edge_dominates(t.id, 'T', m_) for m_ in merge)]
    txt = ' ; '.join(norm(t.ast) for t in guards)
    ok = 'not obj.get_owned(new_schema)' in txt
    ctx.ob('C02.R6', '_trace_op:owned-objects-not-merged', ok,
           f'the merge of a ref\'s ALTER into its implicit ancestor\'s '
           f'command is guarded by `{txt[-120:]}`, not by the object being '
           f'un-owned in the new schema: an overloaded (owned) pointer '
           f'altered together with its parent is attached under the '
           f'parent\'s command and renders to no DDL, so the child keeps '
           f'its old state', to.loc,
           sample='not obj.get_owned(new_schema)')
    # (b) children of a renamed object move to the new module
    cn = repo.func(f'{DELTA}.RenameObject._canonicalize')
    ctx.saw(cn)
    br = [c for c in ast.walk(cn.node) if isinstance(c, ast.Call)
          and (call_name(c) or '').endswith('init_rename_branch')
          and len(c.args) > 1]
    if not br:
        raise AnalysisError('C02.R6: rename branches of _canonicalize not '
                            'found')
    for c in br:
        t = inline_locals(cn.node, c.args[1])
        ok = 'module=self.new_name.module' in t
        ctx.ob('C02.R6', '_canonicalize:children-follow-module', ok,
               f'the children of a renamed object are renamed to `{t[:80]}`'
               f': not into the module of the new parent name, so after '
               f'moving a type to another module its pointers stay '
               f'registered under the old module (which can then not be '
               f'dropped)', cn.loc, sample='module=self.new_name.module')
    # (c) union types containing an altered type are refreshed on every
    #     non-canonical ALTER (pointers may arrive through a rebase)
    af = repo.func('edb.schema.objtypes.AlterObjectType._alter_finalize')
    ctx.saw(af)
    g = CFG(af.node)
    ref = [n.id for n in g.nodes if n.ast is not None and any(
        isinstance(c, ast.Call) and 'get_referrers' in norm(c.func)
        and "field_name='union_of'" in norm(c)
        for c in g.node_calls(n))]
    if not ref:
        raise AnalysisError('C02.R6: union refresh of AlterObjectType not '
                            'found')
    F = Facts({'context.canonical': False}, af.node)
    ok = must_pass(g, F, ref) and bool(F.used)
    ctx.ob('C02.R6', 'AlterObjectType._alter_finalize:unions-refreshed', ok,
           'the union types that contain the altered type are not '
           'refreshed on every non-canonical ALTER: pointers that arrive '
           'through EXTENDING (a rebase, not a pointer subcommand) are '
           'missing from (A | B), and no DDL can add them afterwards',
           af.loc, sample='not canonical -> refresh unions')


def _r7(repo: Repo, ctx) -> None:
    """C02.R7 three couplings between what the diff looks at and what the
    migration has to change.

    (a) a propagation loop whose commands are tagged `implicit_propagation`
        (the tag stops those commands from propagating any further) ranges
        over *all* descendants, not just the children: otherwise a rename or
        alter of an inherited pointer stops at depth one and grandchildren
        keep the old pointer.
    (b) the order of an enum's labels is part of the type: the decision to
        generate the rebase that carries new `enum_values` does not compare
        them order-insensitively (set / sorted).
    (c) the module filter of the schema iterator (what delta_schemas uses to
        leave the standard library out) matches module names exactly or up
        to a `::` boundary: a bare string prefix also swallows user modules
        such as `system` or `schemas`."""
    ctx.floor('C02.R7', 3)
    propagation_rule(repo, ctx, 'C02.R7')
    _r7_rest(repo, ctx)
    _r8(repo, ctx)
    from . import c10 as _c10
    ctx.floor('C02.R9', 1)
    _c10.pointer_release_rule(repo, ctx, 'C02.R9')


def propagation_rule(repo: Repo, ctx, rule: str) -> None:
    """(a) of C02.R7; also claimed as C10.R4"""
    ctx.floor(rule, 1)
    n = 0
    for qn, f in sorted(repo.functions.items()):
        if not f.module.name.startswith('edb.schema.'):
            continue
        for lp in [l for l in ast.walk(f.node) if isinstance(l, ast.For)]:
            tags = [c for c in ast.walk(lp) if isinstance(c, ast.Call)
                    and isinstance(c.func, ast.Attribute)
                    and c.func.attr == 'set_annotation' and c.args
                    and isinstance(c.args[0], ast.Constant)
                    and c.args[0].value == 'implicit_propagation']
            if not tags:
                continue
            n += 1
            ctx.saw(f)
            it = norm(lp.iter)
            ok = 'descendants(' in it
            ctx.ob(rule, f'{f.qualname.split("edb.schema.")[-1]}:'
                   f'tagged-propagation-reaches-all-descendants', ok,
                   f'{f.qualname} propagates over `{it}` and tags every '
                   f'propagated command implicit_propagation, which stops '
                   f'it from propagating further: descendants below the '
                   f'first level are never updated (a renamed inherited '
                   f'pointer keeps its old name in grandchildren)',
                   f'{f.module.rel()}:{lp.lineno}', sample=it)
    if n < 1:
        raise AnalysisError(f'{rule}: no tagged propagation loop found')


def _r7_rest(repo: Repo, ctx) -> None:
    # (b)
    st = repo.cls('edb.schema.scalars.ScalarType')
    ad = st.methods.get('as_alter_delta')
    if ad is None:
        raise AnalysisError('C02.R7: ScalarType.as_alter_delta not found')
    ctx.saw(ad)
    guards = [t for t in ast.walk(ad.node) if isinstance(t, ast.If) and any(
        isinstance(c, ast.Call) and (call_name(c) or '').endswith(
            'RebaseScalarType') for x in t.body for c in ast.walk(x))]
    if not guards:
        raise AnalysisError('C02.R7: enum rebase of as_alter_delta not found')
    for t in guards:
        insens = [norm(c)[:40] for c in ast.walk(t.test)
                  if isinstance(c, ast.Call) and norm(c.func) in (
                      'set', 'frozenset', 'sorted')]
        ctx.ob('C02.R7', 'ScalarType.as_alter_delta:enum-order-counts',
               not insens,
               f'the enum rebase is generated only when {insens} differ: a '
               f'migration that only reorders the labels is computed as '
               f'empty (and reported complete) while the old order stays',
               f'{ad.module.rel()}:{t.lineno}', sample=norm(t.test)[:60])
    # (c)
    si = repo.cls('edb.schema.schema.SchemaIterator')
    init = si.methods.get('__init__')
    if init is None:
        raise AnalysisError('C02.R7: SchemaIterator.__init__ not found')
    ctx.saw(init)
    lams = [l for l in ast.walk(init.node) if isinstance(l, ast.Lambda)
            and 'get_module_name' in norm(l)]
    if len(lams) < 2:
        raise AnalysisError('C02.R7: module filters of SchemaIterator not '
                            'found')
    for l in lams:
        bad = []
        for c in ast.walk(l.body):
            if isinstance(c, ast.Call) and isinstance(
                    c.func, ast.Attribute) and c.func.attr in (
                    'startswith', 'endswith', 'find'):
                bad.append(norm(c)[:50])
            if isinstance(c, ast.Compare) and isinstance(
                    c.ops[0], (ast.In, ast.NotIn)) and isinstance(
                    c.comparators[0], (ast.Constant, ast.JoinedStr)):
                bad.append(norm(c)[:50])
        # a prefix test is fine when it carries the `::` boundary
        bad = [b for b in bad if '::' not in b]
        ctx.ob('C02.R7', f'SchemaIterator:module-filter@'
               f'{"excluded" if "not in" in norm(l) or "not " in norm(l)[:60] else "included"}',
               not bad,
               f'a module filter of the schema iterator matches by bare '
               f'string prefix ({bad}): with the standard modules excluded, '
               f'user modules whose names merely start like one (`system`, '
               f'`schemas`, `extras`) are invisible to the diff and their '
               f'objects are never created', f'{init.module.rel()}:'
               f'{l.lineno}', sample='exact module-name membership')



def _r8(repo: Repo, ctx) -> None:
    """C02.R8 nothing computed from the schema is parked in the command
    context for later use.  A command tree rewrites the schema as it goes
    (`schema = ...` after every step); `CommandContext.store_value` /
    `get_value` keep values for the whole context.  A value that was derived
    from the schema at one point and is read back at a later one (implicit
    bases of a reference, ancestors, referrers) is stale as soon as a
    command in between changed what it was derived from -- the diamond case:
    the second parent gets the reference after the first computation.  Flags
    and counters (constants) are fine."""
    from ..shapes import derives_from
    ctx.floor('C02.R8', 1)
    n = 0
    for modname in ('edb.schema.delta', 'edb.schema.referencing',
                    'edb.schema.inheriting', 'edb.schema.pointers',
                    'edb.schema.types', 'edb.schema.objtypes',
                    'edb.schema.links', 'edb.schema.properties',
                    'edb.schema.constraints', 'edb.schema.indexes',
                    'edb.schema.functions', 'edb.schema.ordering'):
        m = repo.modules.get(modname)
        if m is None:
            continue
        for f in repo._funcs_of(m):
            if f.parent is not None:
                continue
            for c in ast.walk(f.node):
                if not (isinstance(c, ast.Call) and isinstance(
                        c.func, ast.Attribute) and c.func.attr ==
                        'store_value' and len(c.args) == 2):
                    continue
                if f.name == 'store_value':
                    continue
                n += 1
                v = c.args[1]
                names = {x.id for x in ast.walk(v) if isinstance(x, ast.Name)}
                stale = not isinstance(v, ast.Constant) and (
                    'schema' in names or derives_from(
                        f.node, names, 'schema'))
                kn = {x.id for x in ast.walk(c.args[0])
                      if isinstance(x, ast.Name)}
                if 'schema' in kn:
                    stale = False
                ctx.saw(f)
                ctx.ob('C02.R8', f'{f.qualname.split(".", 3)[-1]}:'
                       f'context-value={norm(c.args[0])[:40]}', not stale,
                       f'{f.name} parks `{norm(v)[:50]}`, which is computed '
                       f'from the schema, in the command context under '
                       f'`{norm(c.args[0])[:50]}`: a later reader gets the '
                       f'value of an earlier schema (with two parents '
                       f'gaining the same reference one after the other, '
                       f'the bases computed after the first are reused '
                       f'after the second)', f'{m.rel()}:{c.lineno}',
                       sample=norm(v)[:40])
    if n < 1:
        raise AnalysisError('C02.R8: no store_value site found')
