"""C17 — compiler workers always compile against the caller's state.

  R1 positional protocol agreement sender <-> receivers <-> compiler entry
  R2 send <=> believe coupling per component (incremental arm)
  R3 ack discipline (sync_state only after success / non-sync failure;
     worker state written only inside the FailedStateSync try)
  R4 None-discipline of the belief merge
  R5 LAST_STATE / reuse-marker agreement; in-tx schema reference discipline
"""
from __future__ import annotations

import ast
from typing import List, Optional

from ..cfg import CFG
from ..model import (AnalysisError, FuncInfo, Repo, call_name, dotted, kwarg,
                     norm, walk_no_nested)

PKG = 'edb.server.compiler_pool'
POOL = f'{PKG}.pool'
WORKER = f'{PKG}.worker'
MTW = f'{PKG}.multitenant_worker'

COMPONENTS = ['user_schema', 'reflection_cache', 'global_schema',
              'database_config', 'system_config']


def comp(name: str) -> str:
    """Normalise an expression/identifier to the state component it names."""
    n = name.strip()
    for w in ('_pickle_memoized(', 'pickle.loads('):
        if n.startswith(w) and n.endswith(')'):
            n = n[len(w):-1]
    n = n.strip('\'"')
    for p in ('db.', 'client_schema.', 'worker_db.', 'worker.',
              'tenant_schema.', 'pickled_state.', 'pickled_schema.', 'self.'):
        if n.startswith(p):
            n = n[len(p):]
    n = n.lstrip('_')
    for s in ('_pickle', '_unpacked'):
        if n.endswith(s):
            n = n[:-len(s)]
    n = n.lower()
    return {'instance_config': 'system_config'}.get(n, n)


def _short(f: FuncInfo) -> str:
    return f.qualname[len(PKG) + 1:]


def _if_on(node_list, test_txt) -> Optional[ast.If]:
    for st in node_list:
        if isinstance(st, ast.If) and norm(st.test) == test_txt:
            return st
    return None


def run(repo: Repo, ctx) -> None:
    _run_main(repo, ctx)
    from .c09 import root_schema_rule
    root_schema_rule(repo, ctx, 'C17.R7')
    _r8(repo, ctx)
    _r9(repo, ctx)
    from .c09 import last_state_rule
    last_state_rule(repo, ctx, 'C17.R10')
    _r11(repo, ctx)


def _run_main(repo: Repo, ctx) -> None:
    ctx.explanation = (
        'Decides for edb/server/compiler_pool: R1 the slot order of the '
        'state components is the same in the sender (both arms of '
        '_compute_compile_preargs), the worker entry signatures, their '
        '__sync__ calls, the stores inside __sync__, and the positional / '
        'keyword arguments of the compiler entry points (both worker '
        'flavours); R2 in the incremental arm each component is compared '
        'with its own belief and sent iff its belief update is recorded; R3 '
        'the belief is acknowledged only after a completed request and '
        'never on FailedStateSync, worker-side state is written only inside '
        'the FailedStateSync try; R4 the belief merge tests None, not '
        'truthiness; R5 LAST_STATE writers agree with the pool\'s '
        '_last_pickled_state writers, the reuse marker and the by-reference '
        'schema are sent only under the matching identity test; R6 the '
        'compiler server records as a worker\'s client schema the snapshot '
        'it computed the transmitted difference from (bound before the '
        'await, never re-read after it). '
        'Multi-failure histories are not decided.')
    ctx.not_decided = ['multi-failure histories', 'worker selection policy',
                       'remote compiler server (edb/server/compiler_pool/'
                       'server.py forwarding) beyond R6']
    ctx.assumptions = ['component identity by name after stripping '
                       '_pickle/_unpacked and owner prefixes; '
                       'instance_config == system_config']

    apool = repo.cls(f'{POOL}.AbstractPool')
    pre = repo.find_method(apool.qualname, '_compute_compile_preargs')
    if pre is None:
        raise AnalysisError('AbstractPool._compute_compile_preargs not found')
    ctx.saw(pre)

    # ---- R1/R2: sender ----------------------------------------------
    ctx.floor('C17.R1', 20)
    ctx.floor('C17.R2', 5)
    body = pre.node.body
    init = None
    for st in body:
        if isinstance(st, ast.Assign) and norm(st.targets[0]) == 'preargs' \
                and isinstance(st.value, ast.List):
            init = [norm(e) for e in st.value.elts]
    ctx.ob('C17.R1', f'{_short(pre)}:header', init == ['method_name', 'dbname'],
           f'preargs header is {init}, receivers expect [method, dbname]',
           pre.loc, sample=init)
    arm = _if_on(body, 'worker_db is None')
    if arm is None:
        raise AnalysisError('C17: `if worker_db is None` not found in '
                            '_compute_compile_preargs')
    full = None
    full_update = None
    for st in arm.body:
        if isinstance(st, ast.Expr) and isinstance(st.value, ast.Call) \
                and norm(st.value.func) == 'preargs.extend' \
                and isinstance(st.value.args[0], ast.List):
            full = [comp(norm(e)) for e in st.value.args[0].elts]
            full_raw = [e for e in st.value.args[0].elts]
        if isinstance(st, ast.Assign) and norm(st.targets[0]) == 'to_update' \
                and isinstance(st.value, ast.Dict):
            full_update = {comp(norm(k)): comp(norm(v))
                           for k, v in zip(st.value.keys, st.value.values)}
    if full is None and full_update is None:
        # neither the slot list nor the belief record of the full-sync arm
        # has the shape these rules read (a list literal handed to
        # preargs.extend, a dict literal bound to to_update): the sender was
        # rewritten, its order cannot be read off
        raise AnalysisError(
            'C17.R1: the full-sync arm of _compute_compile_preargs no '
            'longer builds its slots from a list literal and its belief '
            'record from a dict literal; slot order cannot be decided')
    ctx.ob('C17.R1', f'{_short(pre)}:full-arm-order', full == COMPONENTS,
           f'full-sync slot order {full} differs from the protocol order '
           f'{COMPONENTS}', pre.loc, sample=full)
    ok = full_update is not None and set(full_update) == set(COMPONENTS) \
        and all(k == v for k, v in full_update.items())
    ctx.ob('C17.R2', f'{_short(pre)}:full-arm-belief', ok,
           f'full sync does not record every component as believed under '
           f'its own key: {full_update}', pre.loc, sample=full_update)
    # each pickled component is the supplied parameter
    params = pre.params()
    if full is not None:
        for e in full_raw:
            inner = e.args[0] if isinstance(e, ast.Call) else e
            ok = norm(inner) in params
            ctx.ob('C17.R1', f'{_short(pre)}:full-arm-source={comp(norm(e))}',
                   ok, f'slot value {norm(e)} is not the caller-supplied '
                   f'parameter', pre.loc, sample=norm(e))

    inc = []
    for st in arm.orelse:
        if not isinstance(st, ast.If):
            continue
        t = st.test
        if not (isinstance(t, ast.Compare) and len(t.ops) == 1
                and isinstance(t.ops[0], ast.IsNot)):
            ctx.fail('C17.R2', f'{_short(pre)}:incremental-test',
                     f'incremental arm test is not an identity comparison: '
                     f'{norm(t)}', f'{pre.module.rel()}:{st.lineno}')
            continue
        believed, supplied = norm(t.left), norm(t.comparators[0])
        c = comp(supplied)
        inc.append(c)
        ok = comp(believed) == c and supplied in params \
            and believed.split('.')[0] in ('worker_db', 'worker')
        ctx.ob('C17.R2', f'{_short(pre)}:compare={c}', ok,
               f'component {c} is compared against the belief of another '
               f'component: `{norm(t)}`', f'{pre.module.rel()}:{st.lineno}',
               sample=norm(t))
        # true branch: append(supplied) and to_update[k] = supplied
        app = [s for s in st.body if isinstance(s, ast.Expr)
               and isinstance(s.value, ast.Call)
               and norm(s.value.func) == 'preargs.append']
        upd = [s for s in st.body if isinstance(s, ast.Assign)
               and norm(s.targets[0]).startswith('to_update[')]
        ok = len(app) == 1 and len(upd) == 1
        if ok:
            a = app[0].value.args[0]
            inner = a.args[0] if isinstance(a, ast.Call) else a
            k = norm(upd[0].targets[0].slice)
            ok = norm(inner) == supplied and comp(k) == c \
                and norm(upd[0].value) == supplied
        ctx.ob('C17.R2', f'{_short(pre)}:send-and-believe={c}', ok,
               f'changed component {c}: the value sent and the belief '
               f'recorded are not the same supplied value under key {c}',
               f'{pre.module.rel()}:{st.lineno}',
               sample=f'append({supplied}) + to_update[{c}]')
        # false branch: append(None) only
        ok = len(st.orelse) == 1 and norm(st.orelse[0]) == \
            'preargs.append(None)'
        ctx.ob('C17.R2', f'{_short(pre)}:unchanged={c}', ok,
               f'unchanged component {c}: the else branch is not exactly '
               f'`preargs.append(None)`', f'{pre.module.rel()}:{st.lineno}',
               sample='else: preargs.append(None)')
    ctx.ob('C17.R1', f'{_short(pre)}:incremental-arm-order',
           inc == COMPONENTS,
           f'incremental slot order {inc} differs from {COMPONENTS}',
           pre.loc, sample=inc)
    # callback built from to_update for the same worker/dbname
    cb = [n for n in ast.walk(pre.node) if isinstance(n, ast.Call)
          and norm(n.func) == 'functools.partial']
    ok = len(cb) == 1 and norm(cb[0].args[0]) == 'sync_worker_state_cb' \
        and norm(kwarg(cb[0], 'worker')) == 'worker' \
        and norm(kwarg(cb[0], 'dbname')) == 'dbname' \
        and any(k.arg is None and norm(k.value) == 'to_update'
                for k in cb[0].keywords)
    ctx.ob('C17.R2', f'{_short(pre)}:callback', ok,
           'the acknowledgement callback is not sync_worker_state_cb bound '
           'to the same worker, dbname and to_update', pre.loc,
           sample='partial(sync_worker_state_cb, worker=worker, '
                  'dbname=dbname, **to_update)')

    # ---- R1: callers of the sender and receivers ----------------------
    methods = []
    for f in apool.methods.values():
        for c in ast.walk(f.node):
            if isinstance(c, ast.Call) and norm(c.func) == \
                    'self._compute_compile_preargs' and c.args:
                if isinstance(c.args[0], ast.Constant):
                    methods.append((f, c.args[0].value, c))
    if len(methods) < 4:
        raise AnalysisError('C17.R1: fewer than 4 users of '
                            '_compute_compile_preargs')
    for f, mname, c in methods:
        ctx.saw(f)
        # pool method forwards its own parameters in the sender's order
        got = [norm(a) for a in c.args[1:]]
        want = ['worker'] + pre.params()[3:]
        ok = got == want and f.name == mname
        ctx.ob('C17.R1', f'{_short(f)}:forwards-to-sender', ok,
               f'{f.name} passes {got} to _compute_compile_preargs, whose '
               f'parameters are {want} (method name literal {mname!r})',
               f'{f.module.rel()}:{c.lineno}', sample=got)
        # and calls the worker with preargs first, then the rest
        calls = [x for x in ast.walk(f.node) if isinstance(x, ast.Call)
                 and norm(x.func) == 'worker.call']
        ok = bool(calls) and all(
            len(x.args) == 2 and norm(x.args[0]) == '*preargs'
            and norm(x.args[1]) == '*compile_args'
            and norm(kwarg(x, 'sync_state')) == 'sync_state' for x in calls)
        ctx.ob('C17.R1', f'{_short(f)}:call-shape', ok,
               'worker.call is not (*preargs, *compile_args, '
               'sync_state=sync_state)', f.loc,
               sample='worker.call(*preargs, *compile_args, sync_state=...)')
        # receiver in worker.py
        wf = repo.functions.get(f'{WORKER}.{mname}')
        if wf is None:
            ctx.fail('C17.R1', f'worker.{mname}:missing',
                     f'worker has no entry point {mname}', f.loc)
            continue
        ctx.saw(wf)
        ps = wf.params()
        got = [comp(p) for p in ps[1:6]]
        ok = ps[0] == 'dbname' and got == COMPONENTS
        ctx.ob('C17.R1', f'worker.{mname}:signature', ok,
               f'worker.{mname} receives {ps[:6]}, sender sends '
               f'[dbname] + {COMPONENTS}', wf.loc, sample=ps[:6])
        syncs = [x for x in ast.walk(wf.node) if isinstance(x, ast.Call)
                 and norm(x.func) == '__sync__']
        ok = len(syncs) == 1 and [norm(a) for a in syncs[0].args] == ps[:6]
        ctx.ob('C17.R1', f'worker.{mname}:sync-call', ok,
               '__sync__ is not called with the entry point\'s own first '
               'six parameters in order', wf.loc,
               sample=[norm(a) for a in syncs[0].args] if syncs else None)
        _compiler_calls(repo, ctx, wf, f'worker.{mname}')
    # __sync__ signature and stores
    sync = repo.func(f'{WORKER}.__sync__')
    ctx.saw(sync)
    ps = sync.params()
    ok = ps[0] == 'dbname' and [comp(p) for p in ps[1:]] == COMPONENTS
    ctx.ob('C17.R1', 'worker.__sync__:signature', ok,
           f'__sync__ parameters {ps} differ from [dbname] + {COMPONENTS}',
           sync.loc, sample=ps)
    stored = {}
    # (the unpickled value may travel through locals before it is stored:
    # `x_unpacked = pickle.loads(x) ... GLOBAL = x_unpacked`)
    from ..lints import _inline, _single_defs
    sdefs = _single_defs(sync.node)
    local_names = set(sdefs) - {nm for g_ in ast.walk(sync.node)
                                if isinstance(g_, ast.Global) for nm in g_.names}
    for n in ast.walk(sync.node):
        if not isinstance(n, ast.Assign):
            continue
        tgt = n.targets[0]
        if isinstance(tgt, ast.Name) and tgt.id in local_names:
            continue            # an intermediate local, not a store
        if isinstance(tgt, ast.Name) and not tgt.id.isupper() and \
                not tgt.id.endswith('_unpacked'):
            continue            # a working value (db = DatabaseState(...))
        val = n.value
        for _ in range(3):
            val = _inline_all(val, sdefs)
        for c in ast.walk(val):
            if isinstance(c, ast.Call) and norm(c.func) == 'pickle.loads' \
                    and c.args and norm(c.args[0]) in ps:
                k = norm(tgt.slice) if isinstance(tgt, ast.Subscript) \
                    else norm(tgt)
                stored.setdefault(comp(norm(c.args[0])), set()).add(comp(k))
    for c in COMPONENTS:
        tg = stored.get(c, set())
        ok = bool(tg) and tg == {c if c != 'system_config' else
                                 'system_config'} or \
            (c == 'system_config' and tg == {'instance_config'})
        # INSTANCE_CONFIG normalises to system_config already
        ok = bool(tg) and tg == {c}
        ctx.ob('C17.R1', f'worker.__sync__:store={c}', ok,
               f'received component {c} is stored into {sorted(tg)}',
               sync.loc, sample=f'{c} -> {sorted(tg)}')
    dbs = repo.cls(f'{PKG}.state.DatabaseState')
    fields = list(dbs.ann_fields)
    for n in ast.walk(sync.node):
        if isinstance(n, ast.Call) and norm(n.func) == 'state.DatabaseState':
            got = [comp(norm(a)) for a in n.args]
            want = [comp(x) for x in fields]
            want[0] = 'dbname'
            ok = got == want
            ctx.ob('C17.R1', 'worker.__sync__:new-db-order', ok,
                   f'DatabaseState({got}) vs fields {fields}', sync.loc,
                   sample=got)

    # multitenant worker entry points -> compiler
    for mname in sorted({m for _, m, _ in methods}):
        wf = repo.functions.get(f'{MTW}.{mname}')
        if wf is None:
            ctx.fail('C17.R1', f'multitenant_worker.{mname}:missing',
                     f'multitenant worker has no entry point {mname}', '')
            continue
        ctx.saw(wf)
        ps = wf.params()
        ok = ps[:2] == ['client_id', 'dbname']
        ctx.ob('C17.R1', f'multitenant_worker.{mname}:signature', ok,
               f'multitenant {mname} receives {ps[:2]}, call_for_client '
               f'passes (client_id, dbname)', wf.loc, sample=ps[:2])
        # the state used is the client's, the db is the named one
        from ..model import inline_locals
        want = f'clients[{ps[0]}].dbs[{ps[1]}]'
        ok = any(isinstance(x, ast.Subscript) and
                 inline_locals(wf.node, x) == want
                 for x in ast.walk(wf.node))
        ctx.ob('C17.R1', f'multitenant_worker.{mname}:lookup', ok,
               'state is not looked up by (client_id, dbname)', wf.loc,
               sample='clients[client_id].dbs[dbname]')
        _compiler_calls(repo, ctx, wf, f'multitenant_worker.{mname}')
    _multitenant_sender(repo, ctx)
    _multitenant_commit(repo, ctx)

    # ---- R2b every component is considered on every path --------------------
    # (sent in full, or compared with its belief) before the callback /
    # message is built - in both pools
    from ..cfg import CFG as _CFG
    for poolcls in ('AbstractPool', 'MultiTenantPool'):
        pf = repo.find_method(f'{POOL}.{poolcls}', '_compute_compile_preargs')
        g = _CFG(pf.node)
        joins = [t.id for t in g.nodes if t.kind == 'test'
                 and norm(t.ast) == 'to_update']
        if not joins:
            raise AnalysisError(f'C17.R2b: `if to_update` not found in '
                                f'{poolcls}')
        for cname in COMPONENTS:
            cover = []
            for n in g.nodes:
                a = n.ast
                if n.kind == 'test' and isinstance(a, ast.Compare) and \
                        isinstance(a.ops[0], ast.IsNot) and not isinstance(
                            a.comparators[0], ast.Constant):
                    if comp(norm(a.comparators[0])) == cname:
                        cover.append(n.id)
                if n.kind == 'stmt' and isinstance(a, ast.Assign) and norm(
                        a.targets[0]) == 'to_update' and isinstance(
                            a.value, ast.Dict):
                    if any(comp(norm(k)) == cname for k in a.value.keys):
                        cover.append(n.id)
            # the per-database components are legitimately all-or-nothing
            # with the database record; global ones must be covered on
            # every path
            ok = bool(cover) and all(
                g.always_before(j, cover) for j in joins)
            ctx.ob('C17.R2', f'{poolcls}:considered-on-every-path={cname}',
                   ok, f'{poolcls}._compute_compile_preargs has a path to '
                   f'the message construction on which component {cname} '
                   f'is neither sent in full nor compared with the worker\'s '
                   f'believed value: the worker keeps a stale {cname}',
                   pf.loc, sample=f'{len(cover)} covering sites')

    # ---- R3 ack discipline -------------------------------------------------
    ctx.floor('C17.R3', 5)
    bw = repo.cls(f'{POOL}.BaseWorker')
    call = repo.find_method(bw.qualname, 'call')
    if call is None:
        raise AnalysisError('BaseWorker.call not found')
    ctx.saw(call)
    g = CFG(call.node)
    req = [n.id for n in g.nodes if any(
        isinstance(x, ast.Await) and 'self._request' in norm(x)
        for e in g.node_exprs(n) for x in ast.walk(e))]
    acks = [n.id for n in g.nodes if n.kind == 'stmt' and
            isinstance(n.ast, ast.Expr) and norm(n.ast) == 'sync_state()']
    if not req or not acks:
        raise AnalysisError('C17.R3: request await or sync_state() calls '
                            'not found in BaseWorker.call')
    for a in acks:
        ok = all(g.always_before(a, [r]) and
                 g.nodes[r].id not in () for r in req)
        # reached only through the normal edge of the await
        ok = ok and a not in g.reachable(
            [g.entry], avoid_edges={(r, 'n') for r in req})
        ctx.ob('C17.R3', f'{_short(call)}:ack-after-request@L{_ord(g, acks, a)}',
               ok, 'sync_state() can run before the request completed',
               f'{call.module.rel()}:{g.nodes[a].lineno}',
               sample='await self._request dominates sync_state()')
        # classify by status branch
        st_tests = [t for t in g.nodes if t.kind == 'test'
                    and norm(t.ast).startswith('status == ')]
        branch = None
        for t in st_tests:
            if g.edge_dominates(t.id, 'T', a):
                branch = norm(t.ast)
        if branch == 'status == 1':
            # path fact: when the error is a FailedStateSync the
            # acknowledgement is not reachable, however the test is spelt
            from ..absint import Facts, open_nodes
            F = Facts({'isinstance(exc, state.FailedStateSync)': True},
                      call.node)
            on = open_nodes(g, F)
            ok = bool(F.used) and a not in on
            ctx.ob('C17.R3', f'{_short(call)}:no-ack-on-failed-sync', ok,
                   'on a worker-side error the belief is acknowledged even '
                   'when the error is FailedStateSync',
                   f'{call.module.rel()}:{g.nodes[a].lineno}',
                   sample='guard: not isinstance(exc, FailedStateSync)')
        elif branch == 'status == 0':
            ctx.ob('C17.R3', f'{_short(call)}:ack-on-success', True,
                   loc=f'{call.module.rel()}:{g.nodes[a].lineno}',
                   sample='status == 0 -> sync_state()')
        else:
            ctx.fail('C17.R3', f'{_short(call)}:ack-on-other-status',
                     f'sync_state() under status branch {branch!r} '
                     f'(serialisation failure must not acknowledge)',
                     f'{call.module.rel()}:{g.nodes[a].lineno}')
    # both acked branches exist
    ctx.ob('C17.R3', f'{_short(call)}:ack-count', len(acks) == 2,
           f'{len(acks)} sync_state() sites, expected success and '
           f'non-sync-error', call.loc, sample=f'{len(acks)} sites')
    # success branch must ack (otherwise belief lags and state is resent:
    # harmless) — but error branch must still raise the worker's error
    # sync_state is invoked nowhere else in the package
    for m in repo.modules_in(PKG):
        for n in ast.walk(m.tree):
            if isinstance(n, ast.Call) and call_name(n) in (
                    'sync_state', 'callback') and not n.args \
                    and not n.keywords:
                f = repo.enclosing_function(m, n)
                ok = f is call
                if not ok:
                    ctx.fail('C17.R3', f'{f.qualname if f else m.name}:'
                             f'foreign-ack',
                             'the state acknowledgement callback is invoked '
                             'outside BaseWorker.call',
                             f'{m.rel()}:{n.lineno}')
    # worker side: state globals written only inside the guarded try
    for wmod, fn in ((WORKER, '__sync__'), (MTW, '__sync__')):
        sf = repo.func(f'{wmod}.{fn}')
        ctx.saw(sf)
        globs = set()
        for n in sf.node.body:
            if isinstance(n, ast.Global):
                globs.update(n.names)
        trys = [n for n in sf.node.body if isinstance(n, ast.Try)]
        guarded = None
        for t in trys:
            for h in t.handlers:
                if any(isinstance(x, ast.Raise) and 'FailedStateSync'
                       in norm(x) for x in ast.walk(h)) and \
                        h.type is not None and norm(h.type) == 'Exception':
                    guarded = t
        if guarded is None:
            ctx.fail('C17.R3', f'{sf.qualname[len(PKG)+1:]}:guarded-try',
                     '__sync__ has no try whose `except Exception` raises '
                     'FailedStateSync', sf.loc)
            continue
        inside = {id(x) for s in guarded.body for x in ast.walk(s)}
        for n in ast.walk(sf.node):
            if isinstance(n, ast.Assign):
                for t in n.targets:
                    if isinstance(t, ast.Name) and t.id in globs:
                        exempt = '.delete(' in norm(n.value) and \
                            'invalidation' in norm(sf.node.body[1]) \
                            if False else ('.delete(cid)' in norm(n.value))
                        ok = id(n) in inside or exempt
                        ctx.ob('C17.R3',
                               f'{sf.qualname[len(PKG)+1:]}:write={t.id}'
                               f'@{_enc(n, guarded)}', ok,
                               f'worker state {t.id} is written outside '
                               f'the try that converts failures to '
                               f'FailedStateSync',
                               f'{sf.module.rel()}:{n.lineno}',
                               sample='inside guarded try' if id(n) in inside
                               else 'invalidation drop (not a state '
                                    'transfer)')
        # ... and so is every decoding of what was received: a failure to
        # unpickle must reach the pool as FailedStateSync (the only reply
        # after which it leaves its belief alone), not as a plain error of
        # the request
        loads = [c for c in ast.walk(sf.node) if isinstance(c, ast.Call)
                 and norm(c.func) in ('pickle.loads', 'pickle.load')]
        outside = sorted({c.lineno - sf.node.lineno for c in loads
                          if id(c) not in inside})
        ctx.ob('C17.R3', f'{sf.qualname[len(PKG)+1:]}:decoding-guarded',
               bool(loads) and not outside,
               f'{sf.qualname} unpickles received state outside the try '
               f'that converts failures to FailedStateSync (offsets '
               f'{outside}): the pool treats the failure as an ordinary '
               f'compile error and records the update as delivered',
               sf.loc, sample=f'{len(loads)} pickle.loads inside the try')

    # ---- R4 None discipline -----------------------------------------------
    ctx.floor('C17.R4', 6)
    for poolcls in ('AbstractPool', 'MultiTenantPool'):
        pf = repo.find_method(f'{POOL}.{poolcls}', '_compute_compile_preargs')
        cbf = repo.functions.get(f'{pf.qualname}.sync_worker_state_cb')
        if cbf is None:
            raise AnalysisError(f'{poolcls}: sync_worker_state_cb not found')
        ctx.saw(cbf)
        none_tested = set()
        for n in ast.walk(cbf.node):
            if isinstance(n, ast.Compare) and len(n.ops) == 1 and isinstance(
                    n.ops[0], ast.IsNot) and isinstance(
                        n.comparators[0], ast.Constant) \
                    and n.comparators[0].value is None:
                none_tested.add(norm(n.left))
        for c in ast.walk(cbf.node):
            if isinstance(c, ast.Call) and norm(c.func).endswith(
                    'PickledDatabaseState'):
                for k in c.keywords:
                    v = k.value
                    if isinstance(v, ast.Name):
                        continue   # full replacement arm
                    c_ = comp(k.arg)
                    if isinstance(v, ast.BoolOp):
                        names = [norm(x) for x in v.values]
                        bad = [x for x in names if x in none_tested]
                        ctx.ob('C17.R4',
                               f'{poolcls}.sync_worker_state_cb:merge={c_}',
                               not bad,
                               f'belief for {c_} merged by truthiness '
                               f'(`{norm(v)}`): a supplied empty value is '
                               f'sent to the worker but the old belief is '
                               f'kept, so a later request supplying the old '
                               f'object is not re-sent',
                               f'{cbf.module.rel()}:{v.lineno}',
                               sample=norm(v))
                    elif isinstance(v, ast.IfExp):
                        t = v.test
                        ok = isinstance(t, ast.Compare) and isinstance(
                            t.ops[0], ast.IsNot) and norm(t.left) == norm(
                                v.body) and comp(norm(v.body)) == c_ \
                            and comp(norm(v.orelse)) == c_
                        ctx.ob('C17.R4',
                               f'{poolcls}.sync_worker_state_cb:merge={c_}',
                               ok, f'belief merge for {c_} is not `x if x is '
                               f'not None else old-x`: {norm(v)}',
                               f'{cbf.module.rel()}:{v.lineno}',
                               sample=norm(v))
                    else:
                        ctx.fail('C17.R4',
                                 f'{poolcls}.sync_worker_state_cb:merge={c_}',
                                 f'unrecognised merge {norm(v)}',
                                 f'{cbf.module.rel()}:{v.lineno}')
        # keyword names of the belief callback == to_update keys
        kws = {a.arg for a in cbf.node.args.kwonlyargs}
        keys = set()
        for n in ast.walk(pf.node):
            if isinstance(n, ast.Assign) and norm(n.targets[0]).startswith(
                    'to_update['):
                keys.add(norm(n.targets[0].slice).strip('\'"'))
            if isinstance(n, ast.Assign) and norm(n.targets[0]) == \
                    'to_update' and isinstance(n.value, ast.Dict):
                keys.update(norm(k).strip('\'"') for k in n.value.keys)
        ok = keys <= kws
        ctx.ob('C17.R4', f'{poolcls}:to_update-keys', ok,
               f'to_update keys {sorted(keys - kws)} are not parameters of '
               f'the belief callback', pf.loc, sample=sorted(keys))
        # every key is stored into the belief under its own component
        for k in sorted(keys):
            stores = []
            for n in ast.walk(cbf.node):
                if isinstance(n, ast.Assign) and norm(n.value) == k and \
                        isinstance(n.targets[0], ast.Attribute):
                    stores.append(norm(n.targets[0]))
                if isinstance(n, ast.keyword) and n.arg and (
                        norm(n.value) == k or (isinstance(
                            n.value, (ast.BoolOp, ast.IfExp))
                            and k in norm(n.value))):
                    stores.append(n.arg)
                if isinstance(n, ast.Call) and norm(n.func).endswith(
                        ('PickledDatabaseState', 'TenantSchema')):
                    pass
            bad = [s for s in stores if comp(s) != comp(k)]
            ctx.ob('C17.R4', f'{poolcls}.sync_worker_state_cb:believe={k}',
                   bool(stores) and not bad or (not stores and k in
                                                _positional_uses(cbf, k)),
                   f'acknowledged {k} is recorded under {bad or stores}',
                   cbf.loc, sample=stores[:3])

    # ---- R5 LAST_STATE ---------------------------------------------------
    ctx.floor('C17.R5', 4)
    for wmod in (WORKER, MTW):
        writers = set()
        m = repo.module(wmod)
        for f in m.functions.values():
            for n in walk_no_nested(f.node):
                if isinstance(n, ast.Assign) and any(
                        norm(t) == 'LAST_STATE' for t in n.targets):
                    writers.add(f.name)
        pool_writers = set()
        for f in apool.methods.values():
            for n in walk_no_nested(f.node):
                if isinstance(n, ast.Assign) and any(
                        norm(t) == 'worker._last_pickled_state'
                        for t in n.targets):
                    pool_writers.add(f.name)
        ctx.ob('C17.R5', f'{wmod.split(".")[-1]}:LAST_STATE-writers',
               writers == pool_writers,
               f'worker functions that replace LAST_STATE {sorted(writers)} '
               f'differ from pool methods that update _last_pickled_state '
               f'{sorted(pool_writers)}: the reuse marker could name a state '
               f'the worker no longer holds', m.rel(),
               sample=sorted(writers))
    for cls in ('AbstractPool', 'MultiTenantPool'):
        f = repo.find_method(f'{POOL}.{cls}', 'compile_in_tx')
        if f is None or f.cls.name != cls:
            raise AnalysisError(f'{cls}.compile_in_tx not found')
        ctx.saw(f)
        g = CFG(f.node)
        marks = [n.id for n in g.nodes if n.kind == 'stmt'
                 and isinstance(n.ast, ast.Assign)
                 and norm(n.ast.value) == 'state.REUSE_LAST_STATE_MARKER']
        tests = [t.id for t in g.nodes if t.kind == 'test' and norm(t.ast)
                 == 'worker._last_pickled_state is pickled_state']
        ok = bool(marks) and bool(tests) and all(
            any(g.edge_dominates(t, 'T', m_) for t in tests) for m_ in marks)
        ctx.ob('C17.R5', f'{cls}.compile_in_tx:marker-guard', ok,
               'the reuse marker is sent without the identity test on the '
               'worker\'s last state', f.loc,
               sample='marker only if worker._last_pickled_state is '
                      'pickled_state')
        # schema by reference only when believed identical
        drops = [n.id for n in g.nodes if n.kind == 'stmt'
                 and isinstance(n.ast, ast.Assign)
                 and norm(n.ast.value) == 'None'
                 and norm(n.ast.targets[0]) == 'user_schema_pickle'
                 and len(n.ast.targets) == 1]
        idt = [t.id for t in g.nodes if t.kind == 'test' and norm(t.ast)
               == 'worker_db.user_schema_pickle is user_schema_pickle']
        ok = bool(drops) and bool(idt) and all(
            any(g.edge_dominates(t, 'T', d) for t in idt) for d in drops)
        ctx.ob('C17.R5', f'{cls}.compile_in_tx:schema-by-reference', ok,
               'the root user schema is withheld (sent by reference) without '
               'the identity test against the worker\'s believed schema',
               f.loc, sample='user_schema_pickle = None only if '
                             'worker_db.user_schema_pickle is '
                             'user_schema_pickle')
        # the result state is recorded from this call's result
        calls = [n for n in ast.walk(f.node) if isinstance(n, ast.Assign)
                 and norm(n.targets[0]) == 'worker._last_pickled_state']
        ok = len(calls) == 1 and norm(calls[0].value) == 'new_pickled_state'
        ctx.ob('C17.R5', f'{cls}.compile_in_tx:records-new-state', ok,
               '_last_pickled_state is not set to the state this call '
               'returned', f.loc, sample='_last_pickled_state = '
                                         'new_pickled_state')
    # the belief about the worker's LAST_STATE follows every reply: the
    # worker replaces LAST_STATE on each compile (with None outside a
    # transaction), so the server must overwrite its belief unconditionally
    for cls, meth in (('AbstractPool', 'compile'),
                      ('AbstractPool', 'compile_in_tx'),
                      ('MultiTenantPool', 'compile_in_tx')):
        f = repo.find_method(f'{POOL}.{cls}', meth)
        if f is None:
            raise AnalysisError(f'{cls}.{meth} not found')
        g = CFG(f.node)
        sets = [n.id for n in g.nodes if n.kind == 'stmt' and isinstance(
            n.ast, ast.Assign) and any(
            norm(t) == 'worker._last_pickled_state' for t in n.ast.targets)]
        reqs = [n.id for n in g.nodes if any(
            isinstance(c.func, ast.Attribute) and c.func.attr == 'call'
            and norm(c.func.value) == 'worker' for c in g.node_calls(n))]
        if not reqs:
            raise AnalysisError(f'C17.R5: request site of {cls}.{meth} not '
                                f'found')
        ok = bool(sets) and all(
            g.always_after(r, sets, exits={g.exit}) for r in reqs)
        ctx.ob('C17.R5', f'{cls}.{meth}:belief-follows-every-reply', ok,
               f'{cls}.{meth} can return a reply without overwriting '
               f'worker._last_pickled_state: the worker has already '
               f'replaced (or cleared) its LAST_STATE, so a later '
               f'compile_in_tx picks this worker by a stale belief and '
               f'sends only the reuse marker', f.loc,
               sample='reply -> _last_pickled_state := returned state, on '
                      'every normal path')
    # worker side of the in-tx protocol
    for wmod, idx in ((WORKER, 0), (MTW, 1)):
        f = repo.func(f'{wmod}.compile_in_tx')
        ctx.saw(f)
        g = CFG(f.node)
        uses = [n.id for n in g.nodes if n.kind == 'stmt' and isinstance(
            n.ast, ast.Assign) and norm(n.ast.value) == 'LAST_STATE']
        tgts = {norm(g.nodes[u].ast.targets[0]) for u in uses}
        tests = [t.id for t in g.nodes if t.kind == 'test' and any(
            norm(t.ast) == f'{v} == state.REUSE_LAST_STATE_MARKER'
            for v in tgts)]
        ok = bool(uses) and all(any(g.edge_dominates(t, 'T', u)
                                    for t in tests) for u in uses)
        ctx.ob('C17.R5', f'{wmod.split(".")[-1]}.compile_in_tx:reuse', ok,
               'LAST_STATE is used without the marker test', f.loc,
               sample='cstate = LAST_STATE only under the marker')
        # non-marker arm installs the root schema before compiling
        roots = [n.id for n in g.nodes if any(
            norm(c.func) == 'cstate.set_root_user_schema'
            for c in g.node_calls(n))]
        comps = [n.id for n in g.nodes if any(
            'compile_serialized_request_in_tx' in norm(c.func)
            for c in g.node_calls(n))]
        ok = bool(roots) and bool(comps) and all(
            g.always_before(c, roots + uses) for c in comps)
        ctx.ob('C17.R5', f'{wmod.split(".")[-1]}.compile_in_tx:root-schema',
               ok, 'a transferred state is compiled without installing the '
               'root user schema', f.loc,
               sample='set_root_user_schema before compile')
        # in-tx positional tail: sender (dbname, schema, state, txid, ...)
        ps = f.params()
        want = (['dbname', 'user_schema', 'cstate'] if idx == 0 else
                ['_', 'client_id', 'dbname', 'user_schema', 'cstate'])
        ctx.ob('C17.R1', f'{wmod.split(".")[-1]}.compile_in_tx:signature',
               ps[:len(want)] == want,
               f'compile_in_tx receives {ps[:len(want)]}, expected {want}',
               f.loc, sample=ps[:len(want)])
    # senders of compile_in_tx
    for cls, want in (
            ('AbstractPool', ['dbname', 'user_schema_pickle', 'pickled_state',
                              'txid', '*compile_args']),
            ('MultiTenantPool', ['0', 'client_id', 'dbname',
                                 'user_schema_pickle', 'pickled_state',
                                 'txid', '*compile_args'])):
        f = repo.find_method(f'{POOL}.{cls}', 'compile_in_tx')
        for c in ast.walk(f.node):
            if isinstance(c, ast.Call) and norm(c.func) == 'worker.call' \
                    and c.args and norm(c.args[0]) == "'compile_in_tx'":
                got = [norm(a) for a in c.args[1:]]
                ctx.ob('C17.R1', f'{cls}.compile_in_tx:send-order',
                       got == want, f'sends {got}, receivers expect {want}',
                       f'{f.module.rel()}:{c.lineno}', sample=got)
    rp = repo.find_method(f'{POOL}.RemotePool', 'compile_in_tx')
    if rp is not None:
        n = 0
        for c in ast.walk(rp.node):
            if isinstance(c, ast.Call) and norm(c.func) == 'worker.call' \
                    and c.args and norm(c.args[0]) == "'compile_in_tx'":
                n += 1
                got = [norm(a) for a in c.args[1:]]
                ok = len(got) == 7 and got[5] == 'txid' and got[6] == \
                    '*compile_args' and got[4] in (
                        'state.REUSE_LAST_STATE_MARKER', 'pickled_state') \
                    and got[3] in ('None', 'user_schema_pickle') \
                    and (got[4] != 'pickled_state'
                         or got[3] == 'user_schema_pickle')
                ctx.ob('C17.R1', f'RemotePool.compile_in_tx:send-order@{n}',
                       ok, f'remote in-tx call sends {got}',
                       f'{rp.module.rel()}:{c.lineno}', sample=got)
    _belief_snapshot(repo, ctx)


def _belief_snapshot(repo: Repo, ctx) -> None:
    """R6: what a pool records as a worker's state after `await
    worker.call(...)` is the value it computed the transmitted difference
    from - a local bound before the await and not rebound afterwards.
    Shared tables (self._clients, ...) may have moved on while the request
    was in flight; re-reading them records a state that was never sent."""
    ctx.floor('C17.R6', 1)
    n = 0
    for mn in (f'{PKG}.server', POOL, f'{PKG}.multitenant_worker'):
        if mn not in repo.modules:
            continue
        for f in repo._funcs_of(repo.module(mn)):
            if not isinstance(f.node, ast.AsyncFunctionDef):
                continue
            g = CFG(f.node, raise_pred=lambda e: False, assert_raises=False)
            aw = [x.id for x in g.nodes if any(
                isinstance(a, ast.Await) and isinstance(a.value, ast.Call)
                and norm(a.value.func).endswith('worker.call')
                for e in g.node_exprs(x) for a in ast.walk(e))]
            if not aw:
                continue
            for x in g.nodes:
                for c in g.node_calls(x):
                    if not (isinstance(c.func, ast.Attribute) and c.func.attr
                            in ('set_client_schema',) and len(c.args) >= 2):
                        continue
                    if not any(x.id in g.reachable([a]) for a in aw):
                        continue
                    val = c.args[1]
                    n += 1
                    ctx.saw(f)
                    if not isinstance(val, ast.Name):
                        ctx.fail('C17.R6', f'{_short(f)}:belief@L'
                                 f'{c.lineno - f.node.lineno}',
                                 f'{_short(f)} records `{norm(val)}` as the '
                                 f'worker\'s state after the call: it is '
                                 f'read after the await, not the snapshot '
                                 f'the difference was computed from', f.loc)
                        continue
                    binds = [y.id for y in g.nodes if y.kind == 'stmt'
                             and isinstance(y.ast, (ast.Assign, ast.AnnAssign,
                                                    ast.AugAssign))
                             and any(isinstance(t, ast.Name) and t.id ==
                                     val.id for tt in (
                                         y.ast.targets if isinstance(
                                             y.ast, ast.Assign)
                                         else [y.ast.target])
                                     for t in ast.walk(tt))]
                    after = [b for b in binds
                             if any(b in g.reachable([a]) for a in aw)]
                    # the transmitted value is derived from the same local
                    sent = set()
                    for a in aw:
                        for e in g.node_exprs(g.nodes[a]):
                            for cc in ast.walk(e):
                                if isinstance(cc, ast.Call) and norm(
                                        cc.func).endswith('worker.call'):
                                    sent |= {z.id for arg in cc.args
                                             for z in ast.walk(arg)
                                             if isinstance(z, ast.Name)}
                    derived = False
                    for y in g.nodes:
                        if y.kind == 'stmt' and isinstance(y.ast, ast.Assign):
                            tn = {t.id for tt in y.ast.targets
                                  for t in ast.walk(tt)
                                  if isinstance(t, ast.Name)}
                            if tn & sent and (val.id in tn or val.id in {
                                    z.id for z in ast.walk(y.ast.value)
                                    if isinstance(z, ast.Name)}):
                                derived = True
                    ok = bool(binds) and not after and derived
                    ctx.ob('C17.R6', f'{_short(f)}:belief@L'
                           f'{c.lineno - f.node.lineno}', ok,
                           f'{_short(f)} records `{val.id}` as the worker\'s '
                           f'state after the call, but `{val.id}` is '
                           f'{"rebound after the await" if after else "not what the transmitted difference was computed from"}'
                           f': another request of the same client can have '
                           f'moved the shared table on meanwhile, so the '
                           f'worker is believed to hold a schema it was '
                           f'never sent and later requests compile against '
                           f'the old one', f.loc,
                           sample=f'{val.id} bound before the await only')
    if n < 2:
        raise AnalysisError(f'C17.R6: only {n} belief writes after a '
                            f'worker call found')


def _positional_uses(cbf, k):
    out = set()
    for n in ast.walk(cbf.node):
        if isinstance(n, ast.Call) and any(norm(a) == k for a in n.args):
            out.add(k)
    return out


def _ord(g, lst, x) -> int:
    return sorted(lst).index(x)


def _enc(n, guarded) -> str:
    return f'L{n.lineno - guarded.lineno:+d}'


def _compiler_calls(repo: Repo, ctx, wf: FuncInfo, label: str) -> None:
    """Arguments handed to the compiler entry point name the component of
    the parameter they bind to."""
    for c in ast.walk(wf.node):
        if not isinstance(c, ast.Call):
            continue
        fn = norm(c.func)
        target = None
        if fn.startswith('COMPILER.') and fn.count('.') == 1:
            target = repo.functions.get(
                f'edb.server.compiler.compiler.Compiler.{fn.split(".")[1]}')
            skip = 1
        elif fn == 'graphql.compile_graphql':
            target = repo.functions.get(
                'edb.graphql.compiler.compile_graphql')
            skip = 0
        if target is None:
            continue
        ps = target.params()[skip:]
        statey = set(COMPONENTS) | {'std_schema'}
        n_checked = 0
        for i, a in enumerate(c.args):
            if isinstance(a, ast.Starred) or i >= len(ps):
                break
            if ps[i] not in statey:
                continue
            n_checked += 1
            ok = comp(norm(a)) == ps[i]
            ctx.ob('C17.R1', f'{label}:{fn}:arg={ps[i]}', ok,
                   f'{fn} receives `{norm(a)}` in the position of '
                   f'parameter {ps[i]}', f'{wf.module.rel()}:{c.lineno}',
                   sample=f'{ps[i]} <- {norm(a)}')
        for k in c.keywords:
            if k.arg in statey:
                n_checked += 1
                ok = comp(norm(k.value)) == k.arg
                ctx.ob('C17.R1', f'{label}:{fn}:kw={k.arg}', ok,
                       f'{fn}({k.arg}={norm(k.value)})',
                       f'{wf.module.rel()}:{c.lineno}',
                       sample=f'{k.arg} <- {norm(k.value)}')


def _multitenant_commit(repo: Repo, ctx) -> None:
    """Every component the incremental message carries is committed into
    the per-client state on every path."""
    sy = repo.func(f'{MTW}.__sync__')
    g = CFG(sy.node)
    commits = [n.id for n in g.nodes if n.kind == 'stmt' and isinstance(
        n.ast, ast.Assign) and norm(n.ast.targets[0]) == 'clients'
        and 'clients.set(client_id' in norm(n.ast.value)]
    stores = [n for n in g.nodes if n.kind == 'stmt' and isinstance(
        n.ast, ast.Assign) and isinstance(n.ast.targets[0], ast.Subscript)
        and norm(n.ast.targets[0].value) == 'updates']
    if not commits or len(stores) < 3:
        raise AnalysisError('C17.R2: incremental arm of multitenant '
                            '__sync__ not recognised')
    for st in stores:
        key = norm(st.ast.targets[0].slice).strip("'\"")
        # once a key is staged, `if updates:` cannot take its false edge
        nonempty = [(t.id, 'F') for t in g.nodes if t.kind == 'test'
                    and norm(t.ast) == 'updates']
        ok = g.always_after(st.id, commits, exits={g.exit},
                            avoid_edges=nonempty)
        ctx.ob('C17.R2', f'multitenant_worker.__sync__:commits={key}', ok,
               f'the incremental sync stages `{key}` but can finish without '
               f'storing the updated client state: the pool has already '
               f'recorded that this worker holds the new {key}, so every '
               f'later request of the tenant compiles against the stale one',
               sy.loc, sample='updates[k] = ... -> clients.set(client_id, '
                              'client_schema._replace(**updates))')
    # the replaced state is built from all staged updates
    rep = [c for c in ast.walk(sy.node) if isinstance(c, ast.Call)
           and norm(c.func) == 'client_schema._replace']
    ok = len(rep) == 1 and any(k.arg is None and norm(k.value) == 'updates'
                               for k in rep[0].keywords)
    ctx.ob('C17.R2', 'multitenant_worker.__sync__:replace-uses-updates', ok,
           'the committed client state is not built from the staged updates',
           sy.loc, sample='_replace(**updates)')


def _multitenant_sender(repo: Repo, ctx) -> None:
    pf = repo.find_method(f'{POOL}.MultiTenantPool',
                          '_compute_compile_preargs')
    ctx.saw(pf)
    ps_fields = list(repo.cls(f'{POOL}.PickledState').ann_fields)
    sc_fields = list(repo.cls(f'{POOL}.PickledSchema').ann_fields)
    keys = set()
    for n in ast.walk(pf.node):
        if isinstance(n, ast.Assign) and norm(n.targets[0]).startswith(
                'to_update['):
            k = norm(n.targets[0].slice).strip('\'"')
            keys.add(k)
            # compared against its own belief
        if isinstance(n, ast.Assign) and norm(n.targets[0]) == 'to_update' \
                and isinstance(n.value, ast.Dict):
            for k, v in zip(n.value.keys, n.value.values):
                keys.add(norm(k).strip('\'"'))
                ok = comp(norm(k)) == comp(norm(v))
                ctx.ob('C17.R2', f'MultiTenantPool:full={norm(k)}', ok,
                       f'to_update[{norm(k)}] = {norm(v)}', pf.loc,
                       sample=f'{norm(k)}: {norm(v)}')
    for k in sorted(keys):
        f = k.removesuffix('_pickle')
        ok = f in ps_fields or f in sc_fields
        ctx.ob('C17.R1', f'MultiTenantPool:key={k}', ok,
               f'to_update key {k} -> {f} is not a field of PickledState '
               f'{ps_fields} or PickledSchema {sc_fields}', pf.loc,
               sample=f'{k} -> {f}')
    for st in ast.walk(pf.node):
        if isinstance(st, ast.If) and isinstance(st.test, ast.Compare) \
                and isinstance(st.test.ops[0], ast.IsNot) \
                and not (isinstance(st.test.comparators[0], ast.Constant)):
            believed, supplied = norm(st.test.left), norm(
                st.test.comparators[0])
            upd = [s for s in st.body if isinstance(s, ast.Assign)
                   and norm(s.targets[0]).startswith('to_update[')]
            ok = comp(believed) == comp(supplied) and len(upd) == 1 and \
                comp(norm(upd[0].targets[0].slice)) == comp(supplied) and \
                norm(upd[0].value) == supplied
            ctx.ob('C17.R2', f'MultiTenantPool:compare={comp(supplied)}', ok,
                   f'`{norm(st.test)}` -> {[norm(u) for u in upd]}',
                   f'{pf.module.rel()}:{st.lineno}', sample=norm(st.test))
    # header tuple vs call_for_client signature
    ret = [n for n in walk_no_nested(pf.node) if isinstance(n, ast.Return)]
    hdr = None
    for r in ret:
        if isinstance(r.value, ast.Tuple) and isinstance(
                r.value.elts[0], ast.Tuple):
            hdr = [norm(e) for e in r.value.elts[0].elts]
    want = ["'call_for_client'", 'client_id', 'pickled_schema',
            'worker.get_invalidation()', 'None', 'method_name', 'dbname']
    ctx.ob('C17.R1', 'MultiTenantPool:header', hdr == want,
           f'header {hdr} vs {want}', pf.loc, sample=hdr)
    cfc = None
    for m in repo.modules_in(PKG):
        for f in m.functions.values():
            if f.name == 'call_for_client':
                cfc = f
    if cfc is None:
        raise AnalysisError('call_for_client not found')
    ctx.saw(cfc)
    ps = cfc.params()
    ok = ps[:4] == ['client_id', 'pickled_schema', 'invalidation', 'msg'] \
        and cfc.node.args.vararg is not None
    ctx.ob('C17.R1', 'multitenant_worker.call_for_client:signature', ok,
           f'call_for_client{ps[:4]} + *args vs header (client_id, '
           f'pickled_schema, invalidation, msg, methname, dbname)', cfc.loc,
           sample=ps[:4])
    # the sync call (with the first three parameters, in order) dominates
    # every other call in the function
    gc_ = CFG(cfc.node)
    want = f'__sync__({ps[0]}, {ps[1]}, {ps[2]})' if len(ps) >= 3 else ''
    syn = [n.id for n in gc_.nodes if n.kind == 'stmt' and n.ast is not None
           and norm(n.ast) == want]
    others = [n.id for n in gc_.nodes if n.id not in syn
              and gc_.node_calls(n)]
    ok = bool(syn) and all(gc_.always_before(o, syn) for o in others)
    ctx.ob('C17.R1', 'multitenant_worker.call_for_client:sync-first', ok,
           'call_for_client does not sync (client_id, pickled_schema, '
           'invalidation) before anything else', cfc.loc,
           sample='__sync__(client_id, pickled_schema, invalidation)')
    arm = _if_on(cfc.node.body, 'msg is None')
    va = cfc.node.args.vararg.arg if cfc.node.args.vararg else 'args'
    # which local receives which position; the vararg itself is rebound
    # last (order of the two independent reads does not matter)
    asg = [(norm(x.targets[0]), norm(x.value)) for x in
           (arm.body if arm is not None else [])
           if isinstance(x, ast.Assign) and len(x.targets) == 1]
    ok = arm is not None and dict(asg) == {
        'methname': f'{va}[0]', 'dbname': f'{va}[1]', va: f'{va}[2:]'} \
        and len(asg) == 3 and asg[-1][0] == va
    ctx.ob('C17.R1', 'multitenant_worker.call_for_client:direct-arm', ok,
           'direct arm does not unpack (methname, dbname, rest) from the '
           'positions the pool sends them in', cfc.loc,
           sample='methname=args[0]; dbname=args[1]; args=args[2:]')
    # forwarded arm: a regular-worker message [dbname, 5 components, ...]
    fw = [norm(x.value) for x in (arm.orelse if arm is not None else [])
          if isinstance(x, ast.Assign)]
    ok = f'{va}[0]' in fw and f'{va}[{1 + len(COMPONENTS)}:]' in fw
    ctx.ob('C17.R1', 'multitenant_worker.call_for_client:forwarded-arm', ok,
           f'forwarded arm does not strip dbname + {len(COMPONENTS)} state '
           f'slots: {fw}', cfc.loc, sample=fw[-2:])
    # dispatch by name to the namesake; call with (client_id, dbname, *args)
    for n in ast.walk(cfc.node):
        if isinstance(n, ast.If) and isinstance(n.test, ast.Compare) \
                and norm(n.test.left) == 'methname' and isinstance(
                    n.test.comparators[0], ast.Constant):
            nm = n.test.comparators[0].value
            ok = len(n.body) == 1 and norm(n.body[0]) == f'meth = {nm}'
            ctx.ob('C17.R1',
                   f'multitenant_worker.call_for_client:dispatch={nm}', ok,
                   f'method name {nm!r} dispatches to {norm(n.body[0])}',
                   f'{cfc.module.rel()}:{n.lineno}', sample=f'{nm} -> {nm}')
    rets = [n for n in walk_no_nested(cfc.node) if isinstance(n, ast.Return)]
    ok = len(rets) == 1 and norm(rets[0].value) == \
        'meth(client_id, dbname, *args)'
    ctx.ob('C17.R1', 'multitenant_worker.call_for_client:invoke', ok,
           'entry point is not invoked as meth(client_id, dbname, *args)',
           cfc.loc, sample='meth(client_id, dbname, *args)')


def _r8(repo: Repo, ctx) -> None:
    """C17.R8 two more send/believe couplings.

    (a) compiler server (server.py): what `_call_for_client` records as held
        by the worker (`set_client_schema(client_id, X)`) is the schema the
        diff was computed from, and the diff is computed over *all* of it:
        `X.diff(cache)` takes the cache only, and ClientSchema.diff visits
        every database of `self.dbs` (no skipped iteration).  A diff narrowed
        to one database while the whole schema is recorded leaves the other
        databases stale on that worker without anyone knowing.
    (b) RemotePool serialises state updates with a lock; the diff sent must
        be computed *after* the lock was obtained, because the request that
        held the lock has changed the belief in the meantime."""
    ctx.floor('C17.R8', 3)
    SRV = 'edb.server.compiler_pool.server'
    cs = repo.cls(f'{SRV}.ClientSchema')
    df = cs.methods.get('diff')
    if df is None:
        raise AnalysisError('C17.R8: ClientSchema.diff not found')
    ctx.saw(df)
    loops = [l for l in ast.walk(df.node) if isinstance(l, ast.For)
             and norm(l.iter).startswith('self.dbs')]
    if not loops:
        raise AnalysisError('C17.R8: loop over self.dbs not found')
    skips = [type(x).__name__.lower() for l in loops for x in ast.walk(l)
             if isinstance(x, (ast.Continue, ast.Break))]
    extra = [p for p in df.params()[2:]]
    ctx.ob('C17.R8', 'ClientSchema.diff:every-database', not skips and
           not extra,
           f'ClientSchema.diff leaves databases out (skips: {skips}, extra '
           f'parameters: {extra}) while the caller records the whole client '
           f'schema as transferred: a database that changed while another '
           f'worker served is never sent to this one, and its next query is '
           f'compiled against the old schema', df.loc,
           sample='for dbname, state in self.dbs.items(): compare')
    cf = None
    for f in repo.modules[SRV].functions.values():
        pass
    for qn, f in repo.functions.items():
        if f.name == '_call_for_client' and f.module.name == SRV:
            cf = f
    if cf is None:
        raise AnalysisError('C17.R8: _call_for_client not found')
    ctx.saw(cf)
    diffs = [c for c in ast.walk(cf.node) if isinstance(c, ast.Call)
             and isinstance(c.func, ast.Attribute) and c.func.attr == 'diff']
    recs = [c for c in ast.walk(cf.node) if isinstance(c, ast.Call)
            and isinstance(c.func, ast.Attribute)
            and c.func.attr == 'set_client_schema']
    if not diffs or not recs:
        raise AnalysisError('C17.R8: diff / set_client_schema calls not '
                            'found in _call_for_client')
    for c in diffs:
        src = norm(c.func.value)
        ok = len(c.args) == 1 and not c.keywords and all(
            len(r.args) == 2 and norm(r.args[1]) == src for r in recs)
        ctx.ob('C17.R8', '_call_for_client:diff-of-what-is-recorded', ok,
               f'_call_for_client sends `{norm(c)[:60]}` but records '
               f'{[norm(r.args[1]) for r in recs if len(r.args) == 2]} as '
               f'held by the worker: the recorded belief covers more than '
               f'was compared and sent', f'{cf.module.rel()}:{c.lineno}',
               sample=f'{src}.diff(cache) / set_client_schema(.., {src})')
    # (c) a sync is all-or-nothing: the pool keeps its old belief when the
    # worker answers FailedStateSync, so the worker must not have stored any
    # part of the new state by then.  In both workers every operation that
    # can fail (unpickling, assertions) precedes the first store into the
    # module-level state.
    for wm in ('edb.server.compiler_pool.worker',
               'edb.server.compiler_pool.multitenant_worker'):
        sf = repo.modules[wm].functions.get('__sync__')
        if sf is None:
            raise AnalysisError(f'C17.R8: {wm}.__sync__ not found')
        ctx.saw(sf)
        globs = {nm for n in ast.walk(sf.node) if isinstance(n, ast.Global)
                 for nm in n.names}
        g = CFG(sf.node)
        stores = [n.id for n in g.nodes if n.kind == 'stmt' and isinstance(
            n.ast, (ast.Assign, ast.AugAssign)) and any(
            isinstance(t, ast.Name) and t.id in globs for t in (
                n.ast.targets if isinstance(n.ast, ast.Assign)
                else [n.ast.target]))
            # (evicting an invalidated tenant installs nothing: a later
            # request for it fails loudly instead of using stale state)
            and not (isinstance(n.ast.value, ast.Call) and isinstance(
                n.ast.value.func, ast.Attribute) and
                n.ast.value.func.attr == 'delete')]
        if not stores:
            raise AnalysisError(f'C17.R8: {wm}.__sync__ stores no state')

        def risky(n):
            if n.ast is None or n.kind not in ('stmt', 'test'):
                return False
            if isinstance(n.ast, ast.Assert):
                return True
            e = n.ast.test if n.kind == 'test' and hasattr(
                n.ast, 'test') else n.ast
            if isinstance(e, (ast.If, ast.For, ast.While, ast.With,
                              ast.Try)):
                return False
            return any(isinstance(c, ast.Call) and norm(c.func) in (
                'pickle.loads', 'pickle.load') for c in ast.walk(e))
        late = sorted({g.nodes[i].lineno for st in stores
                       for i in g.reachable([st])
                       if i != st and risky(g.nodes[i])})
        ctx.ob('C17.R8', f'{wm.rsplit(".", 1)[-1]}.__sync__:all-or-nothing',
               not late,
               f'{wm}.__sync__ can still fail (lines {late}) after it has '
               f'stored part of the new state: the call then ends in '
               f'FailedStateSync, the pool keeps its old belief, and the '
               f'half-updated worker silently compiles later requests '
               f'against components the caller did not supply',
               sf.loc, sample='every pickle.loads precedes the first store')
    # (b)
    rp = repo.cls('edb.server.compiler_pool.pool.RemotePool')
    pf = rp.methods.get('_compute_compile_preargs')
    if pf is None:
        raise AnalysisError('C17.R8: RemotePool._compute_compile_preargs '
                            'not found')
    ctx.saw(pf)
    g = CFG(pf.node)
    acq = [n.id for n in g.nodes if n.kind == 'stmt' and n.ast is not None
           and any(isinstance(c, ast.Call) and norm(c.func).endswith(
               '_sync_lock.acquire') for c in ast.walk(n.ast))]
    calc = [n.id for n in g.nodes if n.kind == 'stmt' and n.ast is not None
            and any(isinstance(c, ast.Call) and isinstance(
                c.func, ast.Attribute) and c.func.attr ==
                '_compute_compile_preargs' for c in ast.walk(n.ast))]
    rets = [n.id for n in g.nodes if n.kind == 'stmt' and isinstance(
        n.ast, ast.Return)]
    if not acq or not calc or not rets:
        raise AnalysisError('C17.R8: lock / diff / return of RemotePool.'
                            '_compute_compile_preargs not found')
    stale = g.reachable(acq, avoid=set(calc)) & set(rets)
    ctx.ob('C17.R8', 'RemotePool._compute_compile_preargs:diff-after-lock',
           not stale,
           'RemotePool returns the diff it computed before waiting for the '
           'sync lock: the request that held the lock has updated the '
           'belief meanwhile, so a component this request supplies in an '
           'older version is not sent and the worker compiles with the '
           'other request\'s version', pf.loc,
           sample='super()._compute_compile_preargs(*args) after acquire()')


def _inline_all(e: ast.AST, defs) -> ast.AST:
    """replace loads of single-assignment locals by their defining value"""
    import copy

    class T(ast.NodeTransformer):
        def visit_Name(self, node):
            if isinstance(node.ctx, ast.Load) and node.id in defs:
                return copy.deepcopy(defs[node.id])
            return node
    return T().visit(copy.deepcopy(e))



def _r9(repo: Repo, ctx) -> None:
    """C17.R9 a worker entry point that takes a state transfer stores it
    before it can answer.  The pool records the transfer as done for every
    successful reply (BaseWorker.call, R3), so a reply on a path that never
    reached `__sync__` leaves the worker with the old state behind the
    pool's back: every later request is compiled against it."""
    ctx.floor('C17.R9', 4)
    n = 0
    for modname in (WORKER, MTW):
        m = repo.modules.get(modname)
        if m is None:
            continue
        for f in repo._funcs_of(m):
            if f.parent is not None or f.name == '__sync__':
                continue
            g = CFG(f.node)
            syncs = [x.id for x in g.nodes if any(
                call_name(c) == '__sync__' for c in g.node_calls(x))]
            if not syncs:
                continue
            n += 1
            ctx.saw(f)
            ok = g.always_before(g.exit, syncs)
            ctx.ob('C17.R9', f'{modname.split(".")[-1]}.{f.name}:'
                   f'sync-before-reply', ok,
                   f'{f.name} can return a reply on a path that never '
                   f'called __sync__: the pool records the state transfer '
                   f'as applied (every successful reply acknowledges it) '
                   f'while the worker still holds the previous state',
                   f.loc, sample='every normal exit passes __sync__')
            # an error reply acknowledges the transfer as well (BaseWorker.
            # call runs sync_state for every exception but FailedStateSync)
            raises = [x.id for x in g.nodes
                      if isinstance(x.ast, ast.Raise)]
            early = [r for r in raises if not g.always_before(r, syncs)]
            ctx.ob('C17.R9', f'{modname.split(".")[-1]}.{f.name}:'
                   f'sync-before-error-reply', not early,
                   f'{f.name} rejects a request with an exception before '
                   f'__sync__ stored the transfer that came with it: the '
                   f'pool acknowledges the transfer for every error reply '
                   f'that is not FailedStateSync, so it believes the worker '
                   f'holds state it does not hold',
                   f.loc, sample='every explicit raise is preceded by '
                                 '__sync__')
    if n < 4:
        raise AnalysisError(f'C17.R9: only {n} worker entry points that '
                            f'call __sync__ were found')



def _r11(repo: Repo, ctx) -> None:
    """C17.R11 the partial transfer computed for a worker goes to that worker.
    `_compute_compile_preargs(method, W, ...)` diffs the request's state
    against what the pool believes W holds; the result (and its sync_state
    callback, bound to W) is meaningless for any other worker.  So a
    `.call(*preargs, sync_state=..)` must be made on the worker the preargs
    were computed for, and no rebinding of that worker name may reach the
    call without passing a fresh computation."""
    ctx.floor('C17.R11', 4)
    n = 0
    for modname, m in sorted(repo.modules.items()):
        if not modname.startswith(PKG):
            continue
        for f in repo._funcs_of(m):
            if f.name == '_compute_compile_preargs':
                continue
            comp_assigns = []
            for st in ast.walk(f.node):
                if not isinstance(st, ast.Assign):
                    continue
                v = st.value.value if isinstance(st.value, ast.Await) \
                    else st.value
                if isinstance(v, ast.Call) and (call_name(v) or '').split(
                        '.')[-1] == '_compute_compile_preargs':
                    comp_assigns.append((st, v))
            if not comp_assigns:
                continue
            ctx.saw(f)
            g = CFG(f.node)
            for st, call in comp_assigns:
                if len(call.args) < 2 or not isinstance(call.args[1],
                                                        ast.Name):
                    raise AnalysisError(f'C17.R11: {f.name}: worker argument '
                                        f'of _compute_compile_preargs is '
                                        f'not a plain name')
                w = call.args[1].id
                tg = st.targets[0]
                if not (isinstance(tg, ast.Tuple) and len(tg.elts) == 2 and
                        all(isinstance(e, ast.Name) for e in tg.elts)):
                    raise AnalysisError(f'C17.R11: {f.name}: result of '
                                        f'_compute_compile_preargs is not '
                                        f'unpacked into two names')
                pre, cb = tg.elts[0].id, tg.elts[1].id
                comp_nodes = set(g.nodes_of(st))
                sends = []
                for x in g.nodes:
                    for c in g.node_calls(x):
                        if not (isinstance(c.func, ast.Attribute)
                                and c.func.attr == 'call'):
                            continue
                        uses = any(isinstance(a, ast.Starred) and isinstance(
                            a.value, ast.Name) and a.value.id == pre
                            for a in c.args) or any(
                            k.arg == 'sync_state' and isinstance(
                                k.value, ast.Name) and k.value.id == cb
                            for k in c.keywords)
                        if uses:
                            sends.append((x.id, c))
                if not sends:
                    raise AnalysisError(f'C17.R11: {f.name}: no worker call '
                                        f'uses the computed preargs')
                rebinds = [x.id for x in g.nodes
                           if isinstance(x.ast, (ast.Assign, ast.AnnAssign,
                                                 ast.AugAssign))
                           and any(isinstance(t, ast.Name) and t.id in
                                   (w, pre, cb) and isinstance(t.ctx,
                                                               ast.Store)
                                   for t in ast.walk(x.ast))
                           and x.id not in comp_nodes]
                for nid, c in sends:
                    n += 1
                    same = norm(c.func.value) == w
                    stale = [r for r in rebinds if nid in g.reachable(
                        [r], avoid=comp_nodes)]
                    # the first binding of the worker is followed by the
                    # computation on every path, so it never reaches a send
                    ctx.ob('C17.R11', f'{modname.split(".")[-1]}.{f.name}:'
                           f'preargs-go-to-their-worker', same and not stale,
                           f'{f.name} sends a state transfer computed '
                           f'against what `{w}` holds '
                           + (f'to `{norm(c.func.value)}`' if not same else
                              f'after `{w}` (or the transfer) was rebound at '
                              f'line(s) '
                              f'{[g.nodes[r].lineno for r in stale]} without '
                              f'computing it again')
                           + ': the receiving worker gets the parts that '
                             'changed relative to another worker\'s state, '
                             'and the acknowledgement updates the wrong '
                             'belief record',
                           f'{f.module.rel()}:{c.lineno}',
                           sample=f'{w}.call(*{pre}, sync_state={cb}) right '
                                  f'after _compute_compile_preargs(.., {w})')
    if n < 4:
        raise AnalysisError(f'C17.R11: only {n} sends of computed preargs '
                            f'found')
