"""C03 — DESCRIBE output rebuilds the same schema.

  R1 diffed fields are expressible in DDL AST (= C02.R2, describe direction)
  R2 the name normaliser visits every child field
  R3 SDL / DDL printer field coverage (C01.R1/R2 per language)
  R4 a single path from schema to text
  R5 stored expressions are normalised before they are printed
  R6 SDL output is order-independent input (C11's rules)
"""
from __future__ import annotations

import ast
from typing import Dict, List, Set

from .. import visitors as V
from ..cfg import CFG
from ..model import (AnalysisError, FuncInfo, Repo, call_name, const_str,
                     dotted, kwarg, module_calls, norm, walk_no_nested)
from . import c01, c02

NORM = 'edb.edgeql.compiler.normalization'
QLAST = 'edb.edgeql.ast'
DDL = 'edb.schema.ddl'


def run(repo: Repo, ctx) -> None:
    ctx.explanation = (
        'Decides structural clauses DESCRIBE round-tripping needs: R1 every '
        'diffed schema field has a DDL spelling (same table as C02.R2, '
        'evaluated for the describe direction); R2 the expression '
        'normaliser - which makes stored text independent of the session\'s '
        'module and aliases - reaches every child field: the generic '
        'handler iterates all fields minus `skip`, and each specialised '
        'handler only skips fields it handled itself; R3 every field the '
        'SDL grammar (resp. the DDL grammar) can set on a node is read by '
        'the printer\'s visitor for that node; R4 ddl_text_from_schema / '
        'sdl_text_from_schema / text_from_delta all reach '
        'edgeql.generate_source through the delta-to-AST functions (no '
        'second, hand-written printer); R5 Expression.from_ast normalises '
        'before it prints, and other modules construct Expression(text=) '
        'only from literals. Dependency order of the emitted text and '
        'equality of the rebuilt schema are NOT decided.')
    ctx.not_decided = ['declaration ordering of the emitted text',
                       'equality of the rebuilt schema']
    # ---- R1 -----------------------------------------------------------------
    c02.run(repo, ctx, descriptive=True)

    # ---- R2 -----------------------------------------------------------------
    ctx.floor('C03.R2', 8)
    nm = repo.module(NORM)
    gen = repo.func(f'{NORM}.normalize_generic')
    rec = repo.func(f'{NORM}._normalize_recursively')
    ctx.saw(gen)
    loops = [n for n in gen.node.body if isinstance(n, ast.For)]
    ok = len(loops) == 1 and norm(loops[0].iter) == 'base.iter_fields(node)'
    if ok:
        body = loops[0].body
        ok = len(body) == 1 and isinstance(body[0], ast.If) and norm(
            body[0].test) == 'field not in skip' and any(
            isinstance(c, ast.Call) and call_name(c) ==
            '_normalize_recursively' for c in ast.walk(body[0]))
    ctx.ob('C03.R2', 'normalize_generic:all-fields-minus-skip', ok,
           'normalize_generic does not recurse into every field of the node '
           'except those in `skip`', gen.loc,
           sample='for field, value in iter_fields(node): if field not in '
                  'skip: recurse')
    from .. import shapes as SH
    vparam = SH.param(rec.node, 1)
    arms = SH.isinstance_arms(rec.node, vparam) if vparam else []
    base_arm = [a for names, a in arms if 'Base' in names]
    seq_arm = [a for names, a in arms if names & {'tuple', 'list'}]
    if not arms:
        raise AnalysisError('C03.R2: _normalize_recursively no longer '
                            'dispatches on isinstance of its value')
    ok = bool(base_arm) and any(
        c.args and norm(c.args[0]) == vparam
        for c in SH.calls_in(base_arm[0].body, 'normalize')) and \
        bool(seq_arm) and any(
            SH.calls_in(l.body, 'normalize')
            for l in SH.loops_over(seq_arm[0].body, vparam))
    ctx.ob('C03.R2', '_normalize_recursively:nodes-and-lists', ok,
           'child nodes and lists of child nodes are not both normalised',
           rec.loc, sample='Base -> normalize; list/tuple -> each element')
    G_all = c01.grammar_fields(repo)
    reg = V.singledispatch_registry(repo, NORM, 'normalize')
    if len(reg) < 8:
        raise AnalysisError('C03.R2: normalize registry not found')
    fr = V.FieldReads(repo)
    handlers = {}
    for q, h in reg.items():
        handlers.setdefault(h.qualname, (h, []))[1].append(q)
    for hq, (h, classes) in sorted(handlers.items()):
        if h is gen:
            continue
        ctx.saw(h)
        p = h.params()[0]
        # fields handled explicitly: attribute reads/writes on the node and
        # field names passed as strings to helpers together with the node
        handled = set()
        for n in ast.walk(h.node):
            if isinstance(n, ast.Attribute) and isinstance(
                    n.value, ast.Name) and n.value.id == p:
                handled.add(n.attr)
            if isinstance(n, ast.Call) and any(
                    isinstance(a, ast.Name) and a.id == p for a in n.args):
                for a in list(n.args) + [k.value for k in n.keywords]:
                    s = const_str(a)
                    if s:
                        handled.add(s)
                callee = fr.resolve_callee(h, n)
                if callee is not None:
                    # string defaults of the helper's parameters name the
                    # field it works on when the caller does not say
                    given = {k.arg for k in n.keywords}
                    ar = callee.node.args
                    kwd = list(zip(ar.kwonlyargs, ar.kw_defaults))
                    pos = ar.posonlyargs + ar.args
                    kwd += list(zip(pos[len(pos) - len(ar.defaults):],
                                    ar.defaults))
                    for a_, d_ in kwd:
                        if d_ is not None and const_str(d_) and \
                                a_.arg not in given:
                            handled.add(const_str(d_))
                if callee is not None and callee is not gen:
                    ps = callee.params()
                    for i, a in enumerate(n.args):
                        if isinstance(a, ast.Name) and a.id == p and \
                                i < len(ps):
                            handled |= {x for x in fr.reads(callee, ps[i])
                                        if not x.startswith('<')}
        delegs = [c for c in ast.walk(h.node) if isinstance(c, ast.Call)
                  and call_name(c) == 'normalize_generic']
        for cq in classes:
            cn = cq.split('.')[-1]
            fields = repo.class_fields(cq)
            child = {f for f, (_o, a) in fields.items()
                     if _mentions_ast(repo, a.annotation)
                     and f in G_all.get(cq, {})}
            if delegs:
                sk = kwarg(delegs[0], 'skip')
                skip = set()
                if isinstance(sk, (ast.Tuple, ast.List, ast.Set)):
                    skip = {e.value for e in sk.elts
                            if isinstance(e, ast.Constant)}
                bad = skip - handled
                ctx.ob('C03.R2', f'{h.name}:{cn}:skip-subset-of-handled',
                       not bad,
                       f'{h.name} tells normalize_generic to skip '
                       f'{sorted(bad)} of {cn} without normalising them '
                       f'itself: names in those fields stay unqualified, so '
                       f'the stored text depends on the replaying session\'s '
                       f'module', h.loc, sample=f'skip={sorted(skip)}')
            else:
                bad = child - handled - {'span'}
                ctx.ob('C03.R2', f'{h.name}:{cn}:covers-children', not bad,
                       f'{h.name} neither delegates to normalize_generic '
                       f'nor handles child field(s) {sorted(bad)} of {cn}',
                       h.loc, sample=f'children={sorted(child)}')

    # ---- R2b: alias scoping ---------------------------------------------------
    # A WITH alias (or a result / iterator alias) is visible to later
    # clauses, never to its own definition: the definition is normalised
    # before the alias joins localnames.
    from ..cfg import CFG as _CFG
    for fname_ in ('_normalize_with_block', '_normalize_aliased_field'):
        nf = repo.func(f'{NORM}.{fname_}')
        ctx.saw(nf)
        g_ = _CFG(nf.node)
        ext = [n.id for n in g_.nodes if n.kind == 'stmt' and isinstance(
            n.ast, ast.Assign) and norm(n.ast.targets[0]) == 'localnames'
            and isinstance(n.ast.value, ast.BinOp)
            and 'localnames' in norm(n.ast.value)]
        ncalls = [n.id for n in g_.nodes if any(
            call_name(c) == 'normalize' for c in g_.node_calls(n))]
        heads = [n.id for n in g_.nodes if n.kind == 'for']
        if not ext or not ncalls:
            raise AnalysisError(f'C03.R2: alias scoping sites of {fname_} '
                                f'not found')
        bad = [e for e in ext
               if set(ncalls) & g_.reachable([e], avoid=heads)]
        ctx.ob('C03.R2', f'{fname_}:definition-before-alias', not bad,
               f'{fname_} adds the alias to localnames before normalising '
               f'the expression that defines it: a reference inside the '
               f'definition to a schema object of the same name (with User '
               f':= (select User ...)) stays unqualified in the stored '
               f'text, so DESCRIBE output resolves it against the replaying '
               f'session\'s module', nf.loc,
               sample='normalize(definition) ; localnames |= {alias}')

    # ---- R3 -----------------------------------------------------------------
    for lang, mods in (('sdl', ['edb.edgeql.parser.grammar.sdl',
                                'edb.edgeql.parser.grammar.commondl']),
                       ('ddl', ['edb.edgeql.parser.grammar.ddl',
                                'edb.edgeql.parser.grammar.commondl'])):
        sub = _Sub(ctx, f'C03.R3{lang}')
        c01.run(repo, sub, grammar_modules=mods, rule_prefix=f'C03.R3{lang}',
                only_rules={'R1', 'R2'} | ({'R7'} if lang == 'ddl' else set()))

    # ---- R4 -----------------------------------------------------------------
    ctx.floor('C03.R4', 3)
    dm = repo.module(DDL)
    reach = _reach(repo, dm)
    for fn, via in (('ddl_text_from_schema', 'ddl_text_from_delta'),
                    ('sdl_text_from_schema', 'sdl_text_from_delta'),
                    ('ddl_text_from_delta', 'text_from_delta'),
                    ('sdl_text_from_delta', 'text_from_delta'),
                    ('text_from_delta', 'statements_from_delta')):
        if fn not in dm.functions:
            raise AnalysisError(f'C03.R4: {fn} not found')
        ok = via in reach.get(fn, set()) and (
            'generate_source' in reach.get(fn, set()))
        ctx.ob('C03.R4', f'{fn}:via-{via}', ok,
               f'{fn} does not produce its text through {via} and '
               f'edgeql.generate_source (a second printer would have to '
               f'agree with the parser separately)',
               dm.functions[fn].loc, sample=f'{fn} -> {via} -> '
                                            f'generate_source')
    sfd = dm.functions.get('statements_from_delta')
    ok = sfd is not None and any(
        isinstance(c, ast.Call) and call_name(c) == 'ddlast_from_delta'
        for c in ast.walk(sfd.node))
    ctx.ob('C03.R4', 'statements_from_delta:from-ast', ok,
           'statements_from_delta does not go through ddlast_from_delta',
           sfd.loc if sfd else '', sample='ddlast_from_delta')

    # ---- R5 -------------------------------------------------------------------
    ctx.floor('C03.R5', 2)
    fa = repo.func('edb.schema.expr.Expression.from_ast')
    ctx.saw(fa)
    g = CFG(fa.node)
    norms = [n.id for n in g.nodes if any(
        norm(c.func) == 'qlcompiler.normalize' for c in g.node_calls(n))]
    gens = [n.id for n in g.nodes if any(
        norm(c.func) == 'qlcodegen.generate_source' for c in g.node_calls(n))]
    tests = [t for t in g.nodes if t.kind == 'test'
             and norm(t.ast) == 'not as_fragment']
    ok = bool(norms) and bool(gens) and len(tests) == 1
    if ok:
        # every path entry -> generate_source either normalised first or
        # took the as_fragment branch
        r = g.reachable([g.entry], avoid=norms,
                        avoid_edges={(tests[0].id, 'F')})
        ok = not (set(gens) & r) and all(
            g.edge_dominates(tests[0].id, 'T', x) for x in norms)
        # and the printed tree is the normalised one
        ok = ok and all(
            norm(c.args[0]) == 'qltree' for x in gens
            for c in g.node_calls(g.nodes[x])
            if norm(c.func) == 'qlcodegen.generate_source')
    ctx.ob('C03.R5', 'Expression.from_ast:normalise-then-print', ok,
           'Expression.from_ast can print the expression text before (or '
           'without) normalising names when as_fragment is false: the '
           'stored text would depend on the defining session\'s module '
           'aliases', fa.loc, sample='normalize(qltree) dominates '
                                     'generate_source(qltree)')
    # Expression(text=...) built from non-literal text outside expr.py
    n_lit = 0
    for m in repo.modules_in('edb.schema'):
        if m.name == 'edb.schema.expr':
            continue
        for c in module_calls(m).get('Expression', []):
            t = kwarg(c, 'text')
            if t is None:
                continue
            f = repo.enclosing_function(m, c)
            lit = isinstance(t, ast.Constant) or (
                isinstance(t, ast.Call) and call_name(t) == 'str'
                and False)
            # values derived from an existing Expression's own text are fine
            derived = isinstance(t, ast.Attribute) and t.attr == 'text'
            enumlabel = 'enum' in norm(t).lower() or isinstance(
                t, ast.JoinedStr) and False
            n_lit += 1
            who = f.qualname if f else m.name
            ok = lit or derived or _is_literalish(t) or who in TEXT_OK
            ctx.ob('C03.R5', f'{f.qualname if f else m.name}:'
                   f'Expression(text={norm(t)[:30]})', ok,
                   f'an Expression is stored from raw text `{norm(t)[:50]}` '
                   f'that did not go through Expression.from_ast '
                   f'(normalisation)', f'{m.rel()}:{c.lineno}',
                   sample='literal / copied text', nontrivial=False)

    # ---- R6 -------------------------------------------------------------------
    _sdl_order(repo, ctx)
    _r7(repo, ctx)
    _r8(repo, ctx)


TEXT_OK = {
    'edb.schema.reflection.reader._parse_expression':
        'reads back text that was stored (already normalised) in the '
        'reflection schema',
    'edb.schema.scalars.CreateScalarType._apply_field_ast':
        'temporary Expression used only to parse constant scalar '
        'arguments; not stored',
}


def _is_literalish(t: ast.AST) -> bool:
    """constant text or text taken from an existing expression"""
    if isinstance(t, ast.Constant):
        return True
    if isinstance(t, ast.JoinedStr):
        return all(isinstance(v, ast.Constant) or (
            isinstance(v, ast.FormattedValue)
            and '.text' in norm(v.value)) for v in t.values)
    s = norm(t)
    return s.endswith('.text') or s in ('text', 'expr.text', 'value.text',
                                        'self.text', 'v', 'expr_text')


def _mentions_ast(repo: Repo, ann: ast.AST) -> bool:
    """annotation mentions a qlast node class (child-bearing field)"""
    for n in ast.walk(ann):
        d = dotted(n) if isinstance(n, (ast.Name, ast.Attribute)) else None
        if d:
            q = f'{QLAST}.{d.split(".")[-1]}'
            if q in repo.classes and f'{QLAST}.Base' in repo.mro(q):
                return True
        if isinstance(n, ast.Constant) and isinstance(n.value, str):
            q = f'{QLAST}.{n.value.split(".")[-1].strip("[] ")}'
            if q in repo.classes and f'{QLAST}.Base' in repo.mro(q):
                return True
    return False


def _reach(repo: Repo, m) -> Dict[str, Set[str]]:
    """transitive callee short names per top-level function of module m"""
    direct: Dict[str, Set[str]] = {}
    for name, f in m.functions.items():
        direct[name] = {call_name(c).split('.')[-1]
                        for c in ast.walk(f.node)
                        if isinstance(c, ast.Call) and call_name(c)}
    out = {}
    for name in direct:
        seen = set()
        stack = [name]
        while stack:
            x = stack.pop()
            for y in direct.get(x, ()):
                if y not in seen:
                    seen.add(y)
                    stack.append(y)
        out[name] = seen
    return out


def _r7(repo: Repo, ctx) -> None:
    from ..absint import Facts, must_pass
    from ..model import inline_locals
    ctx.floor('C03.R7', 3)
    # (a) a function call is looked up in the schema whether or not it is
    #     module-qualified (std sub-modules are written without `std::`)
    nf = repo.func(f'{NORM}.normalize_FunctionCall')
    ctx.saw(nf)
    g = CFG(nf.node)
    look = [n.id for n in g.nodes if any(
        isinstance(c.func, ast.Attribute) and c.func.attr == 'get_functions'
        for c in g.node_calls(n))]
    if not look:
        raise AnalysisError('C03.R7: schema lookup of normalize_FunctionCall '
                            'not found')
    for label, facts in (
            ('qualified', {'isinstance(node.func, str)': False,
                           'isinstance(node.func, tuple)': True,
                           'node.func not in localnames': True,
                           'node.func in localnames': False}),
            ('unqualified', {'isinstance(node.func, str)': True,
                             'isinstance(node.func, tuple)': False,
                             'node.func not in localnames': True,
                             'node.func in localnames': False})):
        F = Facts(facts, nf.node)
        ok = must_pass(g, F, look) and bool(F.used)
        ctx.ob('C03.R7', f'normalize_FunctionCall:{label}-looked-up', ok,
               f'a {label} function name is not resolved against the '
               f'schema: `math::abs(x)` is stored (and DESCRIBEd) as written '
               f'instead of std::math::abs, and resolves differently in a '
               f'session that aliases or defines `math`', nf.loc,
               sample='schema.get_functions(name, module_aliases=..)')
    # (b) every lookup table of the SDL dependency context that is read is
    #     also filled
    from . import c11 as _c11
    _c11.dep_tables_rule(repo, ctx, 'C03.R7')
    # (c) whether a field is printed is decided against the recorded old
    #     value (CREATE deltas built for DESCRIBE have none)
    af = repo.func('edb.schema.delta.ObjectCommand._apply_fields_ast')
    ctx.saw(af)
    cmps = [c for c in ast.walk(af.node) if isinstance(c, ast.Compare)
            and len(c.ops) == 1 and isinstance(c.ops[0], ast.NotEq)
            and 'new_value' in norm(c)]
    if not cmps:
        raise AnalysisError('C03.R7: value comparison of _apply_fields_ast '
                            'not found')
    for c in cmps:
        other = c.left if 'new_value' in norm(c.comparators[0]) \
            else c.comparators[0]
        defs = [norm(a.value) for a in ast.walk(af.node)
                if isinstance(a, ast.Assign) and norm(a.targets[0]) ==
                norm(other)]
        ok = norm(other) == 'fop.old_value' or (
            defs and all('get_default' not in d for d in defs))
        ctx.ob('C03.R7', '_apply_fields_ast:old-value-as-recorded', ok,
               f'a field is left out of the DDL when its new value equals '
               f'`{norm(other)}` ({defs}): with the default substituted for '
               f'a missing old value, a field explicitly set to its default '
               f'is not printed, and on replay the object inherits a '
               f'different value from its parent', af.loc,
               sample='fop.old_value != new_value')


def _r8(repo: Repo, ctx) -> None:
    """C03.R8 what DESCRIBE prints can be replayed in the printed order and
    in any session.

    (a) delta_schemas hands the *whole* object delta to linearize_delta and
        only afterwards leaves the union types out: a union type is the only
        node that ties `link l -> A | B` to A and B, so dropping its command
        before the sort loses that ordering edge.
    (b) every TypeName built by typeref_to_ast / shell_to_ast carries the
        element name it was asked to carry (`name=_name`): an element of a
        named tuple printed without its name makes the tuple unparsable or a
        different (unnamed) type.
    (c) only a command nested in its referrer prints its name without a
        module; no other _deparse_name override blanks the module, because
        an unqualified name is resolved against the replaying session's
        current module."""
    ctx.floor('C03.R8', 6)
    ds = repo.func('edb.schema.ddl.delta_schemas')
    ctx.saw(ds)
    g = CFG(ds.node)
    lin = [n.id for n in g.nodes if n.kind == 'stmt' and n.ast is not None
           and any(isinstance(c, ast.Call) and norm(c.func).endswith(
               'linearize_delta') for c in ast.walk(n.ast))]
    flt = [n.id for n in g.nodes if n.ast is not None and n.kind in (
        'stmt', 'test') and 'is_union_type' in norm(
        n.ast.test if n.kind == 'test' and hasattr(n.ast, 'test') else n.ast)
        and n.kind == 'test']
    if not lin or not flt:
        raise AnalysisError('C03.R8: linearize_delta call / union-type '
                            'filter of delta_schemas not found')
    after = g.reachable(flt)
    ctx.ob('C03.R8', 'delta_schemas:union-types-dropped-after-sorting',
           not (set(lin) & after),
           'delta_schemas removes the commands of union types before '
           'linearize_delta runs: the only dependency path from a link with '
           'a union target to the component types goes through the union '
           'type, so the emitted DDL can create the link before a component '
           'type exists and replay fails', ds.loc,
           sample='linearize_delta(objects) precedes the is_union_type test')
    # (b)
    n = 0
    for fq in ('edb.schema.utils.typeref_to_ast',
               'edb.schema.utils.shell_to_ast'):
        f = repo.func(fq)
        ctx.saw(f)
        if '_name' not in f.params():
            raise AnalysisError(f'C03.R8: {fq} has no _name parameter')
        tops = [a.value for a in ast.walk(f.node) if isinstance(
            a, (ast.Assign, ast.Return)) and a.value is not None]
        for c in tops:
            # (the type expression handed back, not the pieces nested in it)
            if isinstance(c, ast.Call) and norm(c.func) == 'qlast.TypeName':
                n += 1
                v = kwarg(c, 'name')
                ctx.ob('C03.R8', f'{f.name}:TypeName@'
                       f'{norm(kwarg(c, "maintype") or c)[:40]}:carries-name',
                       v is not None and norm(v) == '_name',
                       f'{f.name} builds a TypeName without `name=_name`: '
                       f'when this type is an element of a named tuple the '
                       f'element name is lost (`tuple<array<str>, rev: '
                       f'int64>` mixes named and unnamed elements and is '
                       f'rejected; a one-element named tuple silently '
                       f'becomes unnamed)', f'{f.module.rel()}:{c.lineno}',
                       sample='name=_name')
    if n < 8:
        raise AnalysisError('C03.R8: TypeName constructions not found')
    # (c)
    ALLOWED = {
        'edb.schema.delta.ObjectCommand._deparse_name':
            'base: non-qualified names have no module',
        'edb.schema.referencing.NamedReferencedInheritingObjectCommand'
        '._deparse_name':
            'nested in its referrer: the name is local to the parent',
    }
    k = 0
    for qn, f in repo.functions.items():
        if f.name != '_deparse_name' or not f.module.name.startswith(
                'edb.schema'):
            continue
        k += 1
        ctx.saw(f)
        blanks = [norm(a) for a in ast.walk(f.node) if isinstance(
            a, ast.Assign) and any(isinstance(t, ast.Attribute) and
                                   t.attr == 'module' for t in a.targets)]
        ok = not blanks or qn.split('@')[0] in ALLOWED
        ctx.ob('C03.R8', f'{qn.split("edb.schema.")[-1]}:keeps-module',
               ok,
               f'{qn} rewrites the module of a deparsed name ({blanks}): '
               f'the printed name is then resolved against the current '
               f'module of whoever replays the text, and binds to a '
               f'same-named user object when there is one', f.loc,
               sample='module untouched')
    if k < 3:
        raise AnalysisError('C03.R8: _deparse_name overrides not found')


def _parent_of(root: ast.AST, node: ast.AST):
    for p in ast.walk(root):
        for c in ast.iter_child_nodes(p):
            if c is node:
                return p
    return None


def _sdl_order(repo: Repo, ctx) -> None:
    """DESCRIBE SCHEMA AS SDL is valid input only if sdl_to_ddl orders the
    declarations by their dependencies: C11's rules, under C03.R6."""
    from . import c11
    c11.run(repo, _Sub(ctx, 'C03.R6'))


class _Sub:
    """Ctx proxy that forwards obligations of C01's rules under C03's rule
    ids (so that C03 evidence carries its own counts)."""

    def __init__(self, ctx, rule):
        self._c = ctx
        self._rule = rule

    def __getattr__(self, k):
        return getattr(self._c, k)

    def ob(self, rule, *a, **kw):
        return self._c.ob(self._rule, *a, **kw)

    def fail(self, rule, *a, **kw):
        return self._c.fail(self._rule, *a, **kw)

    def floor(self, rule, n):
        self._c.floor(self._rule, min(n, 10))
