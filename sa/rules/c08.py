"""C08 — declared capabilities cover what a statement does.

  R1 statement class -> capability dispatch: exhaustive and family-correct
  R2 every DML IR construction is dominated by a dml_exprs record;
     modifying function calls are recorded; declared volatility enforced
  R3 provenance dml_exprs -> has_dml -> MODIFICATIONS -> unit -> group
  R4 Capability enum sanity
"""
from __future__ import annotations

import ast
from typing import Dict, List, Optional, Set, Tuple

from ..cfg import CFG
from ..model import (AnalysisError, FuncInfo, Repo, call_name, dotted, kwarg,
                     module_calls, norm, walk_no_nested)

COMP = 'edb.server.compiler.compiler'
ENUMS = 'edb.server.compiler.enums'
DBS = 'edb.server.compiler.dbstate'
QLAST = 'edb.edgeql.ast'
IRAST = 'edb.ir.ast'


def caps_of(expr: ast.AST) -> Set[str]:
    """Capability member names mentioned in an expression."""
    out = set()
    for n in ast.walk(expr):
        d = dotted(n) if isinstance(n, ast.Attribute) else None
        if d and d.startswith('enums.Capability.'):
            out.add(d.split('.')[-1])
        if isinstance(n, ast.Call) and norm(n.func) == 'enums.Capability' \
                and n.args and isinstance(n.args[0], ast.Constant) \
                and n.args[0].value == 0:
            out.add('0')
    return out


def _run_main(repo: Repo, ctx) -> None:
    ctx.explanation = (
        'Decides for the server compiler: R1 the isinstance dispatch of '
        '_compile_dispatch_ql, abstractly evaluated over the whole qlast '
        'class hierarchy, sends every DDL/migration command to a branch '
        'returning DDL (+TRANSACTION for migration commands with a '
        'transaction action), transaction statements to TRANSACTION, '
        'session commands to SESSION_CONFIG, CONFIGURE to the capability of '
        'its scope, and everything else to MODIFICATIONS iff has_dml; R2 '
        'every construction of a mutating IR statement in the EdgeQL '
        'compiler is dominated by a dml_exprs record, modifying function '
        'calls are recorded under exactly the Modifying test, mutating '
        'statements infer MODIFYING volatility and a function\'s declared '
        'volatility may not be lower than inferred; R3 has_dml is '
        'bool(ir.dml_exprs) of the same IR, MODIFICATIONS is guarded only '
        'by has_dml, capabilities flow unmodified into the unit and are '
        'aggregated with |= only; R4 the flag enum is well-formed. '
        'Correctness of function-body volatility inference itself is NOT '
        'decided.')
    ctx.not_decided = ['volatility inference of function bodies',
                       'SQL protocol statements (compile_sql)']
    disp = repo.func(f'{COMP}._compile_dispatch_ql')
    ctx.saw(disp)
    cm = disp.module
    qparam = disp.params()[1]

    # ---- parse the chain -----------------------------------------------
    branches: List[Tuple[List[str], list]] = []
    node = None
    for st in disp.node.body:
        if isinstance(st, ast.If):
            node = st
            break
    if node is None:
        raise AnalysisError('C08: dispatch chain not found')
    else_body = None
    while node is not None:
        t = node.test
        if not (isinstance(t, ast.Call) and norm(t.func) == 'isinstance'
                and norm(t.args[0]) == qparam):
            raise AnalysisError(f'C08: unexpected dispatch test '
                                f'{norm(t)[:60]}')
        classes = _resolve_classes(repo, cm, t.args[1])
        branches.append((classes, node.body))
        if len(node.orelse) == 1 and isinstance(node.orelse[0], ast.If):
            node = node.orelse[0]
        else:
            else_body = node.orelse
            node = None
    if len(branches) < 5 or not else_body:
        raise AnalysisError('C08: dispatch chain has fewer than 5 arms')

    def branch_for(q: str) -> int:
        mro = repo.mro(q)
        for i, (classes, _) in enumerate(branches):
            if any(c in mro for c in classes):
                return i
        return len(branches)

    def branch_caps(i: int) -> List[Set[str]]:
        body = branches[i][1] if i < len(branches) else else_body
        out = []
        for r in [n for st in body for n in ast.walk(st)
                  if isinstance(n, ast.Return)]:
            v = r.value
            if isinstance(v, ast.Tuple) and len(v.elts) == 2:
                c = v.elts[1]
                caps = caps_of(c)
                if isinstance(c, ast.Name):
                    # local: union of everything assigned / or-ed into it
                    for st in body:
                        for n in ast.walk(st):
                            if isinstance(n, ast.Assign) and norm(
                                    n.targets[0]) == c.id:
                                caps |= caps_of(n.value)
                            if isinstance(n, ast.AugAssign) and norm(
                                    n.target) == c.id:
                                caps |= {'|' + x for x in caps_of(n.value)}
                out.append(caps)
        return out

    # ---- R1 ---------------------------------------------------------------
    ctx.floor('C08.R1', 60)
    base = f'{QLAST}.Base'
    stmt_roots = [f'{QLAST}.Command', f'{QLAST}.Query',
                  f'{QLAST}.DDLCommand', f'{QLAST}.Transaction',
                  f'{QLAST}.ConfigOp']
    sess = set(_resolve_classes(
        repo, cm, ast.parse('qlast.SessionCommand_tuple', mode='eval').body))
    concrete = [q for q in repo.subclasses(base, strict=True)
                if q.startswith(QLAST + '.')
                and not repo.subclasses(q, strict=True)
                and not getattr(repo.classes[q], 'abstract_node', False)]
    domain = [q for q in concrete if any(r in repo.mro(q)
                                         for r in stmt_roots) or q in sess]
    if len(domain) < 80:
        raise AnalysisError(f'C08.R1: statement domain too small '
                            f'({len(domain)})')
    fam_counts: Dict[str, int] = {}
    for q in domain:
        nm = q.split('.')[-1]
        mro = repo.mro(q)
        i = branch_for(q)
        caps_list = branch_caps(i)
        allcaps = set().union(*caps_list) if caps_list else set()
        if f'{QLAST}.DDLCommand' in mro:
            fam = 'ddl'
            if nm == 'DescribeCurrentMigration':
                ok = True
                why = 'read-only description'
            else:
                # every return that can carry this statement has DDL; the
                # only zero return in the migration arm is its final else
                ok = all(('DDL' in c) or c == {'0'} for c in caps_list) and \
                    any('DDL' in c for c in caps_list)
                zero = [c for c in caps_list if c == {'0'}]
                if zero:
                    ok = ok and f'{QLAST}.MigrationCommand' in mro and \
                        len(zero) == 1
                why = f'branch {i} returns {sorted(map(sorted, caps_list))}'
        elif f'{QLAST}.Transaction' in mro:
            fam = 'transaction'
            ok = bool(caps_list) and all(c == {'TRANSACTION'}
                                         for c in caps_list)
            why = f'branch {i} returns {sorted(map(sorted, caps_list))}'
        elif q in sess:
            fam = 'session'
            ok = bool(caps_list) and all(c == {'SESSION_CONFIG'}
                                         for c in caps_list)
            why = f'branch {i} returns {sorted(map(sorted, caps_list))}'
        elif f'{QLAST}.ConfigOp' in mro:
            fam = 'config'
            ok = _config_branch_ok(branches[i][1]) if i < len(branches) \
                else False
            why = 'scope -> capability table'
        else:
            fam = 'query'
            body = branches[i][1] if i < len(branches) else else_body
            ok, why = _query_branch_ok(body, nm)
        fam_counts[fam] = fam_counts.get(fam, 0) + 1
        ctx.ob('C08.R1', f'class={nm}', ok,
               f'{nm} ({fam} family) is dispatched to a branch whose '
               f'capability is wrong for it: {why}', disp.loc,
               sample=f'{fam}: {why}')
    ctx.extra['families'] = fam_counts
    # migration arm: TRANSACTION added iff the unit carries a tx action
    mig = branches[0][1]
    ok = any(isinstance(n, ast.If) and norm(n.test) == 'query.tx_action'
             and any('TRANSACTION' in caps_of(s) for s in n.body)
             for st in mig for n in ast.walk(st))
    ctx.ob('C08.R1', 'migration:tx-action', ok,
           'migration commands that start/commit a transaction do not add '
           'TRANSACTION', disp.loc, sample='if query.tx_action: |= TRANSACTION')
    # branch order: the migration arm must precede the generic DDL arm
    order = [c[0].split('.')[-1] for c, _ in branches if c]
    ctx.extra['branch_order'] = order

    # ---- R2 ---------------------------------------------------------------------
    ctx.floor('C08.R2', 6)
    mut = f'{IRAST}.MutatingStmt'
    mut_classes = {q.split('.')[-1] for q in repo.subclasses(mut)}
    if len(mut_classes) < 3:
        raise AnalysisError('C08.R2: MutatingStmt subclasses not found')
    n_sites = 0
    for m in repo.modules_in('edb.edgeql.compiler'):
        for cls in sorted(mut_classes):
            for c in module_calls(m).get(cls, []):
                if repo.resolve_expr(m, c.func) not in repo.subclasses(mut):
                    continue
                fn = repo.enclosing_function(m, c)
                if fn is None:
                    continue
                n_sites += 1
                ctx.saw(fn)
                g = CFG(fn.node)
                site = [n.id for n in g.nodes if c in g.node_calls(n)]
                recs = [n.id for n in g.nodes if any(
                    norm(x.func) == 'ctx.env.dml_exprs.append'
                    for x in g.node_calls(n))]
                ok = bool(site) and bool(recs) and all(
                    g.always_before(s, recs) for s in site)
                ctx.ob('C08.R2', f'{fn.qualname}:{cls}', ok,
                       f'{cls} is constructed on a path that has not '
                       f'recorded the statement in ctx.env.dml_exprs: the '
                       f'unit would lack MODIFICATIONS',
                       f'{m.rel()}:{c.lineno}',
                       sample='dml_exprs.append dominates construction')
    if n_sites < 3:
        raise AnalysisError('C08.R2: DML IR construction sites not found')
    fc = repo.func('edb.edgeql.compiler.func.compile_FunctionCall')
    ctx.saw(fc)
    recs = [n for n in ast.walk(fc.node) if isinstance(n, ast.If) and any(
        isinstance(x, ast.Call) and norm(x.func) ==
        'ctx.env.dml_exprs.append' for s in n.body for x in ast.walk(s))]
    ok = len(recs) == 1 and norm(recs[0].test) == \
        'func.get_volatility(env.schema) == ft.Volatility.Modifying'
    ctx.ob('C08.R2', 'compile_FunctionCall:records-modifying', ok,
           'calls to functions declared Modifying are not recorded in '
           'dml_exprs (or under a different test)', fc.loc,
           sample=norm(recs[0].test) if recs else None)
    vol = repo.module('edb.edgeql.compiler.inference.volatility')
    found = False
    for fn in vol.functions.values():
        for d in fn.node.decorator_list:
            pass
    for fn in repo.functions.values():
        if fn.module is not vol:
            continue
        ann = fn.node.args.args[0].annotation if fn.node.args.args else None
        if ann is not None and 'MutatingStmt' in norm(ann):
            found = True
            rets = [norm(r.value) for r in walk_no_nested(fn.node)
                    if isinstance(r, ast.Return)]
            ok = bool(rets) and all('MODIFYING' in r.upper() or
                                    'Modifying' in r for r in rets)
            ctx.ob('C08.R2', f'volatility:{fn.name}', ok,
                   f'mutating statements do not infer Modifying volatility '
                   f'(returns {rets})', fn.loc, sample=rets)
    if not found:
        raise AnalysisError('C08.R2: volatility handler for MutatingStmt '
                            'not found')
    # bindings carry a volatility computed with exclude_dml=True (DML counts
    # as stable there); volatility inference must re-infer the binding
    # expressions and never reuse that stored value
    stored_excl = False
    for mm in repo.modules_in('edb.edgeql.compiler'):
        if mm is vol:
            continue
        for c in module_calls(mm).get('infer_volatility', []):
            v = kwarg(c, 'exclude_dml')
            if v is not None and norm(v) == 'True':
                stored_excl = True
    for fn in repo._funcs_of(vol):
        for n in ast.walk(fn.node):
            it = None
            tgt = None
            if isinstance(n, ast.For) and norm(n.iter).endswith('.bindings'):
                it, tgt, scope = n.iter, n.target, n
            elif isinstance(n, ast.comprehension) and norm(
                    n.iter).endswith('.bindings'):
                it, tgt, scope = n.iter, n.target, None
            if it is None:
                continue
            second = None
            if isinstance(tgt, ast.Tuple) and len(tgt.elts) == 2:
                second = norm(tgt.elts[1])
            ok = second == '_' or not stored_excl
            if second not in (None, '_'):
                # is the stored volatility actually used?
                root = scope if scope is not None else fn.node
                used = any(isinstance(x, ast.Name) and x.id == second
                           and isinstance(x.ctx, ast.Load)
                           for x in ast.walk(root))
                ok = not used or not stored_excl
            ctx.ob('C08.R2', f'volatility:{fn.name}:bindings', ok,
                   f'{fn.name} reuses the volatility stored beside a WITH '
                   f'binding; that value is computed with exclude_dml=True '
                   f'(DML counted as stable), so a function body that '
                   f'writes only inside a WITH binding is not inferred '
                   f'Modifying and its calls carry no MODIFICATIONS',
                   f'{fn.module.rel()}:{it.lineno}',
                   sample='binding expressions re-inferred (stored value '
                          'ignored)')

    sf = repo.module('edb.schema.functions')
    cmp_ok = False
    for n in ast.walk(sf.tree):
        if isinstance(n, ast.Compare) and 'volatility' in norm(n).lower() \
                and isinstance(n.ops[0], (ast.Lt, ast.Gt, ast.LtE, ast.GtE)):
            cmp_ok = True
    ctx.ob('C08.R2', 'schema.functions:declared-vs-inferred', cmp_ok,
           'declared function volatility is no longer compared with the '
           'inferred one', sf.rel(), sample='comparison present')

    # ---- R3 provenance --------------------------------------------------------------
    ctx.floor('C08.R3', 5)
    qcalls = []
    for c in module_calls(cm).get('Query', []):
        if norm(c.func) == 'dbstate.Query' and kwarg(c, 'has_dml') is not None:
            qcalls.append(c)
    if not qcalls:
        raise AnalysisError('C08.R3: dbstate.Query(has_dml=...) not found')
    for c in qcalls:
        v = norm(kwarg(c, 'has_dml'))
        fn = repo.enclosing_function(cm, c)
        ok = v == 'bool(ir.dml_exprs)'
        # `ir` is the result of compiling this very statement
        if ok and fn is not None:
            binds = [n for n in walk_no_nested(fn.node)
                     if isinstance(n, ast.Assign)
                     and norm(n.targets[0]) == 'ir']
            ok = len(binds) >= 1 and all(
                'compile_ast_to_ir' in norm(b.value) for b in binds)
        ctx.ob('C08.R3', f'{fn.name if fn else "?"}:has_dml', ok,
               f'has_dml={v}: not derived from the dml_exprs of the IR '
               f'compiled for this statement', f'{cm.rel()}:{c.lineno}',
               sample=v)
    # MODIFICATIONS guarded only by has_dml
    for i, (classes, body) in list(enumerate(branches)) + [
            (len(branches), ([], else_body))]:
        for st in body:
            for n in ast.walk(st):
                if isinstance(n, ast.If) and any(
                        'MODIFICATIONS' in caps_of(s) for s in n.body):
                    t = n.test
                    conj = t.values if isinstance(t, ast.BoolOp) and \
                        isinstance(t.op, ast.And) else [t]
                    texts = [norm(x) for x in conj]
                    ok = 'query.has_dml' in texts and all(
                        x == 'query.has_dml' or x.startswith(
                            'isinstance(query, ') for x in texts)
                    ctx.ob('C08.R3', f'_compile_dispatch_ql:guard@{i}', ok,
                           f'MODIFICATIONS is added under `{norm(t)[:80]}`, '
                           f'not exactly query.has_dml', disp.loc,
                           sample=texts)
    # capabilities flow unmodified into the unit
    mk = repo.func(f'{COMP}._make_query_unit')
    uc = [c for c in ast.walk(mk.node) if isinstance(c, ast.Call)
          and norm(c.func) == 'dbstate.QueryUnit']
    ok = len(uc) == 1 and norm(kwarg(uc[0], 'capabilities')) == 'capabilities'
    rewr = [n for n in ast.walk(mk.node) if isinstance(
        n, (ast.Assign, ast.AugAssign)) and any(
        norm(t).endswith('capabilities') for t in (
            n.targets if isinstance(n, ast.Assign) else [n.target]))]
    bad = [norm(n) for n in rewr if not (
        isinstance(n, ast.AugAssign) and isinstance(n.op, ast.BitOr))]
    ctx.ob('C08.R3', '_make_query_unit:capabilities', ok and not bad,
           f'QueryUnit.capabilities is not the dispatched value '
           f'({bad})', mk.loc, sample='capabilities=capabilities')
    # caller passes the dispatch result
    for f in repo._funcs_of(cm):
        for c in ast.walk(f.node):
            if isinstance(c, ast.Call) and call_name(c) == \
                    '_make_query_unit':
                ok = norm(kwarg(c, 'capabilities')) == 'capabilities' and \
                    any(isinstance(n, ast.Assign) and isinstance(
                        n.targets[0], ast.Tuple) and norm(
                            n.targets[0].elts[1]) == 'capabilities'
                        and call_name(n.value) == '_compile_dispatch_ql'
                        for n in ast.walk(f.node))
                ctx.ob('C08.R3', f'{f.name}:passes-dispatch-result', ok,
                       'the unit does not receive the capabilities '
                       'returned by _compile_dispatch_ql', f.loc,
                       sample='comp, capabilities = _compile_dispatch_ql')
    grp = repo.cls(f'{DBS}.QueryUnitGroup')
    app = repo.find_method(grp.qualname, 'append')
    upd = [n for n in ast.walk(app.node) if isinstance(
        n, (ast.Assign, ast.AugAssign)) and norm(
        n.targets[0] if isinstance(n, ast.Assign) else n.target) ==
        'self.capabilities']
    ok = len(upd) == 1 and isinstance(upd[0], ast.AugAssign) and isinstance(
        upd[0].op, ast.BitOr) and norm(upd[0].value) == \
        'query_unit.capabilities'
    ctx.ob('C08.R3', 'QueryUnitGroup.append:aggregates', ok,
           'group capabilities are not the union of the units\' '
           'capabilities', app.loc,
           sample='self.capabilities |= query_unit.capabilities')
    # nothing else narrows capabilities in the compiler module
    for f in repo._funcs_of(cm):
        for n in walk_no_nested(f.node):
            if isinstance(n, ast.AugAssign) and 'capabilit' in norm(
                    n.target).lower() and isinstance(
                        n.op, (ast.BitAnd, ast.BitXor, ast.Sub)):
                ctx.fail('C08.R3', f'{f.name}:narrows',
                         f'capabilities narrowed: {norm(n)}',
                         f'{cm.rel()}:{n.lineno}')

    # ---- R4 enum sanity ----------------------------------------------------------------
    ctx.floor('C08.R4', 3)
    cap = repo.cls(f'{ENUMS}.Capability')
    vals = {}
    for k, v in cap.assign_fields.items():
        if isinstance(v, ast.BinOp) and isinstance(v.op, ast.LShift) and \
                isinstance(v.left, ast.Constant) and isinstance(
                    v.right, ast.Constant):
            vals[k] = v.left.value << v.right.value
    ok = len(vals) >= 5 and len(set(vals.values())) == len(vals) and all(
        x & (x - 1) == 0 for x in vals.values())
    ctx.ob('C08.R4', 'Capability:distinct-bits', ok,
           f'capability flags are not distinct single bits: {vals}',
           cap.loc, sample=vals)
    w = cap.assign_fields.get('WRITE')
    names = {x.id for x in ast.walk(w) if isinstance(x, ast.Name)} if w \
        is not None else set()
    ctx.ob('C08.R4', 'Capability:WRITE', names == {
        'MODIFICATIONS', 'DDL', 'PERSISTENT_CONFIG'},
        f'WRITE = {sorted(names)}', cap.loc, sample=sorted(names))
    ok = all(k in vals for k in ('MODIFICATIONS', 'SESSION_CONFIG',
                                 'TRANSACTION', 'DDL', 'PERSISTENT_CONFIG'))
    ctx.ob('C08.R4', 'Capability:members', ok, f'members {sorted(vals)}',
           cap.loc, sample=sorted(vals))


def _resolve_classes(repo: Repo, m, e: ast.AST) -> List[str]:
    if isinstance(e, ast.Tuple):
        out = []
        for x in e.elts:
            out += _resolve_classes(repo, m, x)
        return out
    q = repo.resolve_expr(m, e)
    if q in repo.classes:
        return [q]
    # module-level tuple alias
    if q:
        modname, _, attr = q.rpartition('.')
        mm = repo.modules.get(modname)
        if mm is not None and isinstance(mm.assigns.get(attr), ast.Tuple):
            return _resolve_classes(repo, mm, mm.assigns[attr])
    raise AnalysisError(f'C08: cannot resolve dispatch class {norm(e)}')


def _config_branch_ok(body) -> bool:
    """SESSION -> SESSION_CONFIG; GLOBAL -> SESSION_CONFIG (0 only under
    ctx.notebook); anything else -> PERSISTENT_CONFIG."""
    top = [st for st in body if isinstance(st, ast.If)]
    if not top:
        return False
    n = top[0]
    if norm(n.test) != 'ql.scope is qltypes.ConfigScope.SESSION':
        return False
    if caps_of(ast.Module(body=n.body, type_ignores=[])) != {
            'SESSION_CONFIG'}:
        return False
    if len(n.orelse) != 1 or not isinstance(n.orelse[0], ast.If):
        return False
    g = n.orelse[0]
    if norm(g.test) != 'ql.scope is qltypes.ConfigScope.GLOBAL':
        return False
    inner = [s for s in g.body if isinstance(s, ast.If)]
    if len(inner) != 1 or norm(inner[0].test) != 'ctx.notebook':
        return False
    if caps_of(ast.Module(body=inner[0].orelse, type_ignores=[])) != {
            'SESSION_CONFIG'}:
        return False
    if caps_of(ast.Module(body=g.orelse, type_ignores=[])) != {
            'PERSISTENT_CONFIG'}:
        return False
    return True


def _query_branch_ok(body, nm: str):
    """caps starts at 0 and gains MODIFICATIONS under has_dml (or, for
    the listed maintenance statement, stays 0)."""
    assigns = [n for st in body for n in ast.walk(st)
               if isinstance(n, ast.Assign) and norm(n.targets[0]) == 'caps']
    augs = [n for st in body for n in ast.walk(st)
            if isinstance(n, ast.AugAssign) and norm(n.target) == 'caps']
    if not assigns or any(caps_of(a.value) != {'0'} for a in assigns):
        return False, 'caps does not start from Capability(0)'
    if nm == 'AdministerStmt':
        return True, 'maintenance statement: no data capability (reviewed)'
    ok = len(augs) == 1 and caps_of(augs[0].value) == {'MODIFICATIONS'} \
        and isinstance(augs[0].op, ast.BitOr)
    return ok, ('caps |= MODIFICATIONS under has_dml' if ok else
                'no `caps |= MODIFICATIONS` in the branch')


def run(repo: Repo, ctx) -> None:
    _run_main(repo, ctx)
    _r5(repo, ctx)
    _r6(repo, ctx)
    _r7(repo, ctx)


VOL = 'edb.edgeql.compiler.inference.volatility'
# (handler, field): mandatory children whose volatility does not reach the
# result on some path today -- audited
VOL_CHILD_OK = {
    ('__infer_set', 'expr'):
        'a set that is a known singleton path is IMMUTABLE by definition; '
        'its expression was inferred where the singleton was bound',
}


def _r5(repo: Repo, ctx) -> None:
    from .. import visitors as V
    from ..absint import Facts, must_pass
    ctx.floor('C08.R5', 12)
    # (a) the volatility of a node covers every mandatory child on every
    #     path (an effect in any operand is an effect of the whole)
    reg = V.singledispatch_registry(repo, VOL, '_infer_volatility_inner')
    if len(reg) < 15:
        raise AnalysisError('C08.R5: volatility registry not found')
    for q, h in sorted(reg.items()):
        if q not in repo.classes:
            continue
        ctx.saw(h)
        p0 = h.params()[0]
        g = CFG(h.node)
        rets = [r for r in ast.walk(h.node) if isinstance(r, ast.Return)]
        # a handler returning a constant classification has no children to
        # combine (VOLATILE for config commands, IMMUTABLE for constants)
        fields = repo.class_fields(q)
        for f_, (_own, ann) in sorted(fields.items()):
            a = norm(ann.annotation)
            if not any(t in a for t in ('Set', 'Base', 'Expr', 'Stmt')) or \
                    'Optional' in a or 'List' in a or 'Dict' in a or \
                    'Sequence' in a or 'Tuple' in a or 'Mapping' in a:
                continue
            uses = [n.id for n in g.nodes if n.ast is not None and any(
                isinstance(c, ast.Call) and any(
                    norm(x) == f'{p0}.{f_}' or norm(x).startswith(
                        f'{p0}.{f_}.') for arg in list(c.args) + [
                        k.value for k in c.keywords] for x in ast.walk(arg))
                and 'volatility' in (call_name(c) or '')
                for e in g.node_exprs(n) for c in ast.walk(e))]
            if not uses:
                continue          # the handler does not combine this child
            F = Facts({f'{p0}.{f_} is not None': True, f'{p0}.{f_}': True},
                      h.node)
            ok = must_pass(g, F, uses)
            key = (h.name, f_)
            if not ok and key in VOL_CHILD_OK:
                ctx.ob('C08.R5', f'{h.name}:{f_}', True, loc=h.loc,
                       sample='audited: ' + VOL_CHILD_OK[key],
                       nontrivial=False)
                continue
            ctx.ob('C08.R5', f'{h.name}:{f_}', ok,
                   f'{h.name} combines the volatility of {p0}.{f_} on some '
                   f'paths only: an expression whose {f_} deletes or '
                   f'inserts can be inferred Stable/Immutable, so a '
                   f'function built on it is stored with the wrong '
                   f'volatility and calls to it are compiled without the '
                   f'MODIFICATIONS capability', h.loc,
                   sample=f'every path infers {p0}.{f_}')
    # (b) altering only the volatility of a function re-checks its body
    ca = repo.func('edb.schema.functions.FunctionCommand.'
                   'canonicalize_attributes')
    ctx.saw(ca)
    sets = [c for c in ast.walk(ca.node) if isinstance(c, ast.Call)
            and norm(c.func) == 'self.set_attribute_value' and c.args
            and norm(c.args[0]) == "'nativecode'"]
    if len(sets) != 1 or len(sets[0].args) < 2:
        raise AnalysisError('C08.R5: nativecode re-injection of '
                            'canonicalize_attributes not found')
    v = norm(sets[0].args[1])
    ctx.ob('C08.R5', 'canonicalize_attributes:body-recompiled',
           v.endswith('.not_compiled()'),
           f'ALTER FUNCTION ... SET volatility re-injects the body as `{v}`: '
           f'an already compiled expression is not compiled again, so the '
           f'check of the body against the new volatility is skipped and a '
           f'deleting function can be declared Volatile/Stable (calls then '
           f'lack MODIFICATIONS)', ca.loc, sample=v)
    # (c) a migration command that compiles a transaction statement
    #     reports that statement's action
    DDLM = 'edb.server.compiler.ddl'
    n = 0
    for f in repo._funcs_of(repo.module(DDLM)):
        g = CFG(f.node)
        for node in g.nodes:
            if node.kind != 'stmt' or not isinstance(node.ast, ast.Assign):
                continue
            v = node.ast.value
            if not (isinstance(v, ast.Call) and norm(v.func).endswith(
                    '_compile_ql_transaction')):
                continue
            var = norm(node.ast.targets[0])
            n += 1
            ctx.saw(f)
            reach = g.reachable([node.id])
            ctors = [k for k in g.nodes if k.id in reach and any(
                kwarg(c, 'tx_action') is not None
                for c in g.node_calls(k))]
            ok = bool(ctors)
            for k in ctors:
                for c in g.node_calls(k):
                    e = kwarg(c, 'tx_action')
                    if e is None:
                        continue
                    if norm(e) == f'{var}.action':
                        continue
                    if isinstance(e, ast.Name):
                        asg = [x.id for x in g.nodes if x.kind == 'stmt'
                               and isinstance(x.ast, ast.Assign)
                               and norm(x.ast.targets[0]) == e.id
                               and norm(x.ast.value) == f'{var}.action']
                        if asg and g.always_after(node.id, asg,
                                                  exits={k.id}):
                            continue
                    ok = False
            ctx.ob('C08.R5', f'{f.name}:tx_action-forwarded', ok,
                   f'{f.name} compiles a transaction statement but the '
                   f'command it returns does not carry that statement\'s '
                   f'action as tx_action: the unit starts / ends a '
                   f'transaction without the TRANSACTION capability',
                   f.loc, sample=f'tx_action={var}.action')
    if n < 4:
        raise AnalysisError(f'C08.R5: only {n} migration commands compile a '
                            f'transaction statement')


def _r6(repo: Repo, ctx) -> None:
    from ..absint import Facts, closed_edges, open_nodes
    ctx.floor('C08.R6', 5)
    # (a) SQL over the binary protocol: every DML statement, with or without
    #     RETURNING, is given MODIFICATIONS before the unit is applied
    cs = repo.func('edb.server.compiler.sql._compile_sql')
    ctx.saw(cs)
    g = CFG(cs.node)
    mods = [n.id for n in g.nodes if n.kind == 'stmt' and isinstance(
        n.ast, ast.AugAssign) and norm(n.ast.target) == 'unit.capabilities'
        and 'MODIFICATIONS' in norm(n.ast.value)]
    done = [n.id for n in g.nodes if any(
        norm(c.func) in ('tx_state.apply', 'sql_units.append')
        for c in g.node_calls(n))]
    heads = [n.id for n in g.nodes if n.kind == 'for'
             and any(x is n.ast for x in cs.node.body)]
    if not mods or not done or not heads:
        raise AnalysisError('C08.R6: _compile_sql anchors not found')
    PG = 'edb.pgsql.ast'
    for q in sorted(repo.subclasses(f'{PG}.DMLQuery')):
        if not q.startswith(PG) or repo.subclasses(q, strict=True):
            continue
        for ret in (True, False):
            F = Facts({'stmt.returning_list': ret}, cs.node)
            F.inst['stmt'] = {c.split('.')[-1] for c in repo.mro(q)}
            ce = closed_edges(g, F)
            start = [s_ for s_, lab in g.nodes[heads[0]].succ if lab == 'T']
            seen = g.reachable(start, avoid=set(mods) | {heads[0]},
                               avoid_edges=ce) | set(start)
            ok = not (set(done) & seen)
            ctx.ob('C08.R6', f'_compile_sql:{q.split(".")[-1]}:returning='
                   f'{ret}', ok,
                   f'a SQL {q.split(".")[-1]} with returning_list={ret} '
                   f'reaches the end of its unit without `capabilities |= '
                   f'MODIFICATIONS`: a connection restricted to read-only '
                   f'statements would be allowed to run it', cs.loc,
                   sample='DMLQuery -> MODIFICATIONS on every path')
    # (b) ANALYZE keeps what the analysed query does
    ex = repo.func(f'{COMP}._compile_ql_explain')
    ctx.saw(ex)
    rets = [r for r in ast.walk(ex.node) if isinstance(r, ast.Return)
            and r.value is not None]
    ok = bool(rets)
    for r in rets:
        v = r.value
        if isinstance(v, ast.Call) and norm(v.func) == 'dataclasses.replace' \
                and v.args and norm(v.args[0]) == 'query':
            continue
        if isinstance(v, ast.Call) and kwarg(v, 'has_dml') is not None and \
                norm(kwarg(v, 'has_dml')) == 'query.has_dml':
            continue
        ok = False
    ctx.ob('C08.R6', '_compile_ql_explain:keeps-has_dml', ok,
           'the Query returned for ANALYZE is not derived from the compiled '
           'query (dataclasses.replace(query, ..)) and does not pass '
           'has_dml on: `analyze insert ...` run with execute := true '
           'modifies data without the MODIFICATIONS capability', ex.loc,
           sample='dataclasses.replace(query, ...)')
    # (c) a declared volatility below the inferred one is rejected, whatever
    #     the declared value is
    cf = repo.func('edb.schema.functions.FunctionCommand.'
                   'compile_this_function')
    ctx.saw(cf)
    g = CFG(cf.node)
    F = Facts({'spec_volatility is not None': True,
               'spec_volatility is None': False,
               'spec_volatility < ir.volatility': True,
               'context.compat_ver_is_before((1, 0, verutils.VersionStage.'
               'ALPHA, 8))': False}, cf.node)
    on = open_nodes(g, F)
    ok = g.exit not in on and 'spec_volatility < ir.volatility' in F.used
    ctx.ob('C08.R6', 'compile_this_function:declared-below-inferred-rejected',
           ok, 'a function whose declared volatility is lower than the one '
           'inferred from its body is accepted for some declared values '
           '(e.g. Volatile with a deleting body): calls are then compiled '
           'without MODIFICATIONS', cf.loc,
           sample='spec < inferred -> InvalidFunctionDefinitionError')


def _r7(repo: Repo, ctx) -> None:
    """C08.R7
    (a) volatility memo: `__infer_set` stores a *provisional* volatility for
        a Set before it has looked at the set's shape (to cut recursion); the
        entry point therefore has to overwrite the entry with the final
        result (`cache[ir] = result`), not keep what is there
        (`setdefault`).  Otherwise every later lookup of a Set whose shape
        contains DML answers with the pre-shape value, a writing function
        body is not inferred Modifying, and calls to it carry no
        MODIFICATIONS.
    (b) SQL units: every statement with a transaction action gets the
        TRANSACTION capability where the action is determined
        (`unit.tx_action is not None`), not from the per-unit control flags,
        which do not exist for RELEASE SAVEPOINT."""
    from ..absint import Facts
    ctx.floor('C08.R7', 2)
    VOL = 'edb.edgeql.compiler.inference.volatility'
    vm = repo.module(VOL)
    entry = vm.functions.get('_infer_volatility')
    if entry is None:
        raise AnalysisError('C08.R7: _infer_volatility not found')
    ctx.saw(entry)
    prov = [f.name for f in repo._funcs_of(vm) if f is not entry and any(
        isinstance(a, ast.Assign) and isinstance(
            a.targets[0], ast.Subscript) and norm(
            a.targets[0].value).endswith('inferred_volatility')
        for a in ast.walk(f.node))]
    final = [a for a in ast.walk(entry.node) if isinstance(a, ast.Assign)
             and isinstance(a.targets[0], ast.Subscript) and norm(
                 a.targets[0].value).endswith('inferred_volatility')]
    keeps = [norm(c)[:50] for c in ast.walk(entry.node)
             if isinstance(c, ast.Call) and isinstance(c.func, ast.Attribute)
             and c.func.attr == 'setdefault' and norm(
                 c.func.value).endswith('inferred_volatility')]
    ctx.ob('C08.R7', '_infer_volatility:final-result-overwrites',
           not prov or (bool(final) and not keeps),
           f'{prov} store a provisional volatility in the memo, but '
           f'_infer_volatility does not overwrite it with the final result '
           f'({keeps or "no store"}): the provisional (pre-shape) value '
           f'survives and DML inside a shape is not seen by later lookups',
           entry.loc, sample='env.inferred_volatility[ir] = result')
    # (b)
    cs = repo.func('edb.server.compiler.sql._compile_sql')
    ctx.saw(cs)
    hits = []
    for t in ast.walk(cs.node):
        if isinstance(t, ast.If) and any(
                isinstance(a, ast.AugAssign) and isinstance(a.op, ast.BitOr)
                and 'TRANSACTION' in norm(a.value) and norm(
                    a.target).endswith('.capabilities')
                for a in t.body):
            unit = [norm(a.target).rsplit('.', 1)[0] for a in t.body
                    if isinstance(a, ast.AugAssign)][0]
            fx = Facts({f'{unit}.tx_action is not None': True},
                       fn_node=cs.node)
            hits.append(fx.eval(t.test))
    ctx.ob('C08.R7', '_compile_sql:transaction-capability-follows-tx_action',
           any(v is True for v in hits),
           'SQL units no longer get the TRANSACTION capability under '
           '`unit.tx_action is not None` in _compile_sql: actions without a '
           'per-unit control flag (RELEASE SAVEPOINT) are reported with no '
           'capability at all', cs.loc,
           sample='if unit.tx_action is not None: caps |= TRANSACTION')
