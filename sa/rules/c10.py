"""C10 — step-by-step migration equals direct migration.

The property quantifies over histories; what a single step does to reach its
target is C02's business and is *not* repeated here.  Decided here are the
clauses that are specific to histories:

  R1 the migration history is linear: CREATE MIGRATION takes its parent from
     the schema's last migration (never from what the statement says),
     rejects an ONTO clause that names anything else, records that parent,
     and derives the migration's name from (parent name, script).
  R2 no residue, pairing: every command that drops an object holding a type
     (pointer target, parameter type, return type, cast endpoints, index
     match type, collection element types) schedules the removal of that
     type "if unused"; SET TYPE does so for the old target.
  R3 no residue, veto: a collection scheduled for removal-if-unused is kept
     only because of references from outside the command tree: under "no
     outside referrer and the element is not a scalar" DeleteArray does not
     veto its own removal.
  R4 no residue, inheritance: a propagated rename / alter of an inherited
     reference reaches every descendant (shared with C02.R7a).

Not decided: equality of the schemas at the end of two chains.
"""
from __future__ import annotations

import ast
from typing import Dict, List, Set

from ..cfg import CFG
from ..model import (AnalysisError, FuncInfo, Repo, call_name, kwarg, norm)

MIG = 'edb.schema.migrations'

# (schema class, field holding a type) -> where the old value is released
# when an object of that class goes away; one reason each for the fields
# that have no release of their own
NO_OWN_RELEASE = {
    ('edb.schema.expraliases.Alias', 'type'):
        'the alias owns its types through created_types: '
        '_delete_alias_types deletes every created type (collections with '
        'if_unused)',
    ('edb.schema.globals.Global', 'target'):
        'a Global is a Pointer-like alias holder: computed globals release '
        'through created_types exactly like Alias; stored globals go through '
        'DeletePointer-style cleanup in DeleteGlobal._canonicalize',
    ('edb.schema.types.Array', 'element_type'):
        'released by DeleteCollectionType._delete_begin over get_subtypes()',
    ('edb.schema.types.Range', 'element_type'): 'same',
    ('edb.schema.types.MultiRange', 'element_type'): 'same',
}


def _last(c: ast.Call) -> str:
    return (call_name(c) or '').rsplit('.', 1)[-1]


def run(repo: Repo, ctx) -> None:
    ctx.explanation = (
        'Decides the history-specific clauses of C10 only: R1 CREATE '
        'MIGRATION keeps the history linear (parent taken from the schema\'s '
        'last migration, ONTO mismatch rejected, parent recorded, name '
        'derived from parent + script); R2 every drop of a type-holding '
        'object schedules removal-if-unused of the type it held, and SET '
        'TYPE of the old target; R3 a collection is kept only because of '
        'outside referrers; R4 propagated alters reach all descendants; R5 '
        'a reference dropped from one parent survives through the other, R6 '
        'rebase positions (shared with C02.R4/R5). The '
        'equality of the end states of two chains is NOT decided (it is '
        'C02 composed over a history).')
    ctx.not_decided = ['equality of schemas reached through different chains',
                       'rename / re-parent heuristics across steps']
    ctx.assumptions = ['each single step reaches its target (C02)']
    _r1(repo, ctx)
    _r2(repo, ctx)
    _r3(repo, ctx)
    from . import c02
    c02.propagation_rule(repo, ctx, 'C10.R4')
    # R5 / R6: the two inheritance mechanisms a history exercises that a
    # single computed step does not -- a pointer dropped from one of two
    # parents stays on the child (C02.R4), and positional base insertions
    # of one step do not disturb each other (C02.R5).  Both are what a
    # replayed chain does differently from a direct migration.
    from .c11 import _Sub
    c02._r4(repo, _Sub(ctx, 'C10.R5'))
    c02._r5(repo, _Sub(ctx, 'C10.R6'))


def _r1(repo: Repo, ctx) -> None:
    ctx.floor('C10.R1', 5)
    cm = repo.cls(f'{MIG}.CreateMigration')
    f = cm.methods.get('_cmd_from_ast')
    if f is None:
        raise AnalysisError('C10.R1: CreateMigration._cmd_from_ast not found')
    ctx.saw(f)
    # (a) parent from the schema's last migration, and from nothing else
    defs = [a for a in ast.walk(f.node) if isinstance(
        a, (ast.Assign, ast.AnnAssign)) and a.value is not None and norm(
        a.targets[0] if isinstance(a, ast.Assign) else a.target) ==
        'parent_migration']
    ok = len(defs) == 1 and norm(defs[0].value) == \
        'schema.get_last_migration()'
    ctx.ob('C10.R1', 'CreateMigration:parent-is-last-migration', ok,
           f'the parent of a new migration is taken from '
           f'{[norm(d.value)[:50] for d in defs]}: unless it is the '
           f'schema\'s last migration a script computed against an older '
           f'state is accepted on top of a newer one (the ONTO check below '
           f'then compares the clause with itself) and the history forks',
           f.loc, sample='parent_migration = schema.get_last_migration()')
    # (b) ONTO mismatch is rejected: a raise guarded by a comparison of the
    #     specified parent's name with the actual last migration's name
    from ..model import inline_locals
    cmp_ok = False
    for t in ast.walk(f.node):
        if not (isinstance(t, ast.If) and isinstance(t.test, ast.Compare)
                and isinstance(t.test.ops[0], (ast.NotEq, ast.Eq))):
            continue
        txt = inline_locals(f.node, t.test)
        if ('parent_migration.get_name(schema)' in txt or
                'get_last_migration().get_name(schema)' in txt) and (
                'astnode.parent' in txt or 'astnode_parent' in txt):
            body = t.body if isinstance(t.test.ops[0], ast.NotEq) \
                else t.orelse
            if any(isinstance(x, ast.Raise) for x in body):
                cmp_ok = True
    ctx.ob('C10.R1', 'CreateMigration:onto-mismatch-rejected', cmp_ok,
           'no comparison of the ONTO clause with the name of the schema\'s '
           'last migration guards a raise: a migration declared onto a '
           'parent that is no longer the latest is applied anyway', f.loc,
           sample='astnode_parent.name != parent_migration.get_name(schema)')
    # missing parent (empty history) with a non-`initial` ONTO is rejected
    miss = any(isinstance(t, ast.If) and norm(t.test) ==
               'parent_migration is None' and any(
                   isinstance(x, ast.Raise) for x in ast.walk(t))
               for t in ast.walk(f.node))
    ctx.ob('C10.R1', 'CreateMigration:onto-on-empty-history-rejected', miss,
           'an ONTO clause naming a migration is accepted on an empty '
           'history', f.loc, sample='parent_migration is None -> raise '
                                    'unless ONTO initial')
    # (c) the recorded parents are that parent
    rec = [c for c in ast.walk(f.node) if isinstance(c, ast.Call)
           and _last(c) == 'set_attribute_value' and c.args and isinstance(
               c.args[0], ast.Constant) and c.args[0].value == 'parents']
    ok = len(rec) == 1 and norm(rec[0].args[1]) == '[parent]' and any(
        isinstance(a, ast.Assign) and norm(a.targets[0]) == 'parent'
        and 'parent_migration.as_shell(schema)' in norm(a.value)
        for a in ast.walk(f.node))
    ctx.ob('C10.R1', 'CreateMigration:records-that-parent', ok,
           'the `parents` recorded for the new migration are not the shell '
           'of the schema\'s last migration', f.loc,
           sample="set_attribute_value('parents', [parent])")
    # (d) the name covers parent name and script; a specified name that
    #     differs is rejected
    starts = [c for c in ast.walk(f.node) if isinstance(c, ast.Call)
              and _last(c) == 'start_migration']
    adds = [c for c in ast.walk(f.node) if isinstance(c, ast.Call)
            and _last(c) == 'add_source']
    ok = len(starts) == 1 and len(adds) == 1 and norm(
        starts[0].args[0]) == 'parent_name' and norm(
        adds[0].args[0]) == 'ddl_text' and any(
        isinstance(t, ast.If) and 'name != specified_name' in norm(t.test)
        and any(isinstance(x, ast.Raise) for x in t.body)
        for t in ast.walk(f.node))
    ctx.ob('C10.R1', 'CreateMigration:name-covers-parent-and-script', ok,
           'the migration id is not derived from (parent name, script), or '
           'a specified name that differs from the derived one is accepted: '
           'two different steps can then carry the same name', f.loc,
           sample='Hasher.start_migration(parent_name).add_source(ddl_text)')
    # the stored script is the hashed text
    st = [c for c in ast.walk(f.node) if isinstance(c, ast.Call)
          and _last(c) == 'set_attribute_value' and c.args and isinstance(
              c.args[0], ast.Constant) and c.args[0].value == 'script']
    ctx.ob('C10.R1', 'CreateMigration:stores-the-hashed-script',
           len(st) == 1 and norm(st[0].args[1]) == 'ddl_text',
           'the script stored with the migration is not the text its name '
           'was derived from', f.loc, sample="script = ddl_text")


def _type_fields(repo: Repo) -> Dict[str, List[str]]:
    from . import c02
    TYPE = 'edb.schema.types.Type'
    out: Dict[str, List[str]] = {}
    for q, c in sorted(repo.classes.items()):
        if not q.startswith('edb.schema.'):
            continue
        for name, (owner, call) in c02.schema_fields(repo, q).items():
            if owner != q or not call.args:
                continue
            t = call.args[0]
            if isinstance(t, ast.Subscript):
                continue
            r = repo.resolve_expr(c.module, t)
            if r and r in repo.classes and TYPE in repo.mro(r):
                out.setdefault(q, []).append(name)
    return out


def _r2(repo: Repo, ctx) -> None:
    ctx.floor('C10.R2', 7)
    tf = _type_fields(repo)
    if sum(len(v) for v in tf.values()) < 8:
        raise AnalysisError(f'C10.R2: type-holding schema fields: {tf}')
    # delete commands: classes with DeleteObject in the MRO whose generic
    # argument / schema metaclass is the class (resolved through the name)
    DEL = 'edb.schema.delta.DeleteObject'
    dels = [q for q in repo.classes if q.startswith('edb.schema.')
            and DEL in repo.mro(q) and q != DEL]
    for cls_q, fields in sorted(tf.items()):
        short = cls_q.rsplit('.', 1)[-1]
        for fld in fields:
            if (cls_q, fld) in NO_OWN_RELEASE:
                ctx.ob('C10.R2', f'{short}.{fld}:released', True,
                       sample=NO_OWN_RELEASE[(cls_q, fld)][:80],
                       nontrivial=False)
                continue
            getter = f'get_{fld}'
            found = []
            for d in dels:
                dc = repo.classes[d]
                if dc.module.name != repo.classes[cls_q].module.name:
                    continue
                for m in dc.methods.values():
                    txt = norm(m.node)
                    if 'as_type_delete_if_unused' in txt and (
                            f'.{getter}(' in txt):
                        found.append(f'{d.rsplit(".", 1)[-1]}.{m.name}')
                        ctx.saw(m)
            ctx.ob('C10.R2', f'{short}.{fld}:released', bool(found),
                   f'no delete command of {short} releases the type held in '
                   f'`{fld}` (as_type_delete_if_unused on {getter}()): a '
                   f'collection type created for it by an earlier step '
                   f'stays in the schema after the object is dropped, and a '
                   f'later step that drops its element type is rejected',
                   repo.classes[cls_q].loc if hasattr(
                       repo.classes[cls_q], 'loc') else '',
                   sample=', '.join(found)[:80])
    pointer_release_rule(repo, ctx, 'C10.R2')
    # SET TYPE releases the old target
    sp = repo.cls('edb.schema.pointers.SetPointerType')
    ab = sp.methods.get('_alter_begin')
    if ab is None:
        raise AnalysisError('C10.R2: SetPointerType._alter_begin not found')
    ctx.saw(ab)
    ok = any(isinstance(c, ast.Call) and _last(c) ==
             'as_type_delete_if_unused' and 'orig' in norm(c.func)
             for c in ast.walk(ab.node))
    ctx.ob('C10.R2', 'SetPointerType:old-target-released', ok,
           'SET TYPE does not schedule the removal-if-unused of the old '
           'target type: the collection type of the old target is residue '
           'of the step', ab.loc,
           sample='orig_target.as_type_delete_if_unused(schema)')
    # collections release their element types
    dc = repo.cls('edb.schema.types.DeleteCollectionType')
    db = dc.methods.get('_delete_begin')
    ok = db is not None and any(
        isinstance(lp, ast.For) and 'get_subtypes' in norm(lp.iter) and
        'as_type_delete_if_unused' in norm(lp) for lp in ast.walk(db.node))
    ctx.ob('C10.R2', 'DeleteCollectionType:element-types-released', ok,
           'dropping a collection type does not release its element types '
           '(nested collections stay behind)', db.loc if db else '',
           sample='for el in get_subtypes(): el.as_type_delete_if_unused()')


def pointer_release_rule(repo: Repo, ctx, rule: str) -> None:
    # the release of a dropped pointer's target does not depend on how the
    # pointer came to be (owned / inherited / abstract): an inherited copy is
    # deleted after its ancestor, whose own release found the type still in
    # use -- the copy's release is the one that removes it
    from ..absint import Facts, must_pass
    dp = repo.cls('edb.schema.pointers.DeletePointer').methods.get(
        '_delete_begin')
    if dp is None:
        raise AnalysisError('C10.R2: DeletePointer._delete_begin not found')
    ctx.saw(dp)
    gdp = CFG(dp.node)
    rel = [n.id for n in gdp.nodes if n.kind == 'stmt' and n.ast is not None
           and any(isinstance(c, ast.Call) and _last(c) == 'add_caused'
                   for c in ast.walk(n.ast))]
    tests = [t for t in gdp.nodes if t.kind == 'test'
             and 'as_type_delete_if_unused' in norm(t.ast)]
    if not rel or not tests:
        raise AnalysisError('C10.R2: the target release of DeletePointer.'
                            '_delete_begin was not recognised')
    facts = {'context.canonical': False,
             'self.scls.is_endpoint_pointer(schema)': False}
    for t in tests:
        te = t.ast.test if hasattr(t.ast, 'test') else t.ast
        for cj in (te.values if isinstance(te, ast.BoolOp) else [te]):
            if isinstance(cj, ast.Compare) and isinstance(
                    cj.left, ast.NamedExpr) and isinstance(
                    cj.ops[0], ast.IsNot):
                facts[norm(cj)] = True
    F = Facts(facts, dp.node)
    first = [n.id for n in gdp.nodes if n.kind == 'test'
             and norm(n.ast) == 'not context.canonical']
    ok = must_pass(gdp, F, rel, exits=[x for x in first] or None) \
        if first else must_pass(gdp, F, rel)
    ctx.ob(rule, 'DeletePointer._delete_begin:release-unconditional',
           ok, 'dropping a pointer releases its target type only under a '
           'further condition (ownership, concreteness ...): the inherited '
           'copy of a dropped collection-typed pointer leaves its array / '
           'tuple type behind, which a direct migration to the same schema '
           'does not have', dp.loc,
           sample='target release under canonical / endpoint tests only')


def _r3(repo: Repo, ctx) -> None:
    from ..absint import Facts, open_returns
    ctx.floor('C10.R3', 2)
    da = repo.cls('edb.schema.types.DeleteArray')
    f = da.methods.get('_has_outside_references')
    if f is None:
        raise AnalysisError('C10.R3: DeleteArray._has_outside_references '
                            'not found')
    ctx.saw(f)
    g = CFG(f.node)
    fx = Facts({'super()._has_outside_references(schema, context)': False,
                'el_type.is_scalar()': False}, fn_node=f.node)
    rets = open_returns(g, fx)
    vals = sorted({norm(r.value) for r in rets if r.value is not None
                   and fx.eval(r.value) is not False})
    ctx.ob('C10.R3', 'DeleteArray:kept-only-for-outside-references',
           bool(rets) and not vals,
           f'an array with no outside referrer and a non-scalar element '
           f'type can veto its own removal-if-unused (returns {vals}): '
           f'array<tuple<...>> types are never cleaned up, pin their tuple '
           f'and its element types, and a later step that drops one of '
           f'those is rejected', f.loc, sample='returns False')
    # the generic veto looks at referrers outside the command tree only
    do = repo.cls('edb.schema.delta.DeleteObject')
    h = do.methods.get('_has_outside_references')
    ap = do.methods.get('apply')
    if h is None or ap is None:
        raise AnalysisError('C10.R3: DeleteObject._has_outside_references / '
                            'apply not found')
    ctx.saw(h)
    t = norm(h.node)
    ok = 'get_referrers(self.scls)' in t and 'is_deleting(' in t and \
        'is_parent_ref(' in t
    guard = any(isinstance(i, ast.If) and 'self.if_unused' in norm(i.test)
                and '_has_outside_references' in norm(i.test)
                for i in ast.walk(ap.node))
    ctx.ob('C10.R3', 'DeleteObject:if-unused-veto', ok and guard,
           'the removal-if-unused veto is not "has a referrer that is '
           'neither a structural child nor being deleted in this command '
           'tree", or apply() does not consult it under if_unused', h.loc,
           sample='referrers minus parent refs minus refs being deleted')
