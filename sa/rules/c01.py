"""C01 — EdgeQL text survives a print / re-parse round trip.

  R1 printer exhaustiveness over grammar-constructed node classes
  R2 every field the grammar can set is read by the class's visitor
  R3 bracket pairing on every (condition-consistent) path of each visitor
  R4 literal alphabet agreement (= C18.R1–R3, evaluated here as well)
  R5 words passed to _write_keywords are keywords of the lexer
"""
from __future__ import annotations

import ast
import itertools
import os
import re
from typing import Dict, List, Optional, Set, Tuple

from .. import visitors as V
from ..cfg import CFG
from ..model import (AnalysisError, FuncInfo, Repo, const_str, dotted, norm,
                     walk_no_nested)

QLAST = 'edb.edgeql.ast'
QLCG = 'edb.edgeql.codegen'
GRAMMAR = [f'edb.edgeql.parser.grammar.{x}' for x in (
    'expressions', 'statements', 'ddl', 'sdl', 'commondl', 'config',
    'session', 'start')]

# classes the grammar builds that are printed inline by their parent's
# visitor (never reach node_visit themselves)
INLINE_COMPONENTS = {
    'FunctionCode': 'printed by visit_CreateFunction/_function_code',
    'CastCode': 'printed by visit_CreateCast',
    'OperatorCode': 'printed by visit_CreateOperator',
    'NestedQLBlock': 'body of CREATE MIGRATION / extension package, '
                     'printed by the owning visitor',
    'OptionFlag': 'printed by visit_Options',
    'ShapeOperation': 'printed by visit_ShapeElement (node.operation.op)',
    'StrInterpFragment': 'printed by visit_StrInterp',
    'CommittedSchema': 'marker object of START MIGRATION TO COMMITTED '
                       'SCHEMA, printed by visit_StartMigration',
}

# (class, field) the grammar sets and the printer legitimately never reads
FIELD_EXCEPTIONS = {
    ('*', 'span'): 'source position, not part of the program',
    ('CreateExtensionPackage', 'commands'):
        'the SET fields are part of body.text, which the printer emits '
        'verbatim for parsed programs',
    ('CreateExtensionPackageMigration', 'commands'):
        'same: covered by body.text',
    ('CreateScalarType', 'final'):
        'legacy FINAL flag of pre-1.0 dumps; semantically inert and '
        'rejected outside dump restore',
}


def grammar_fields(repo: Repo, modules=GRAMMAR):
    return V.constructed(repo, modules, 'qlast', QLAST)


def constant_fields(repo: Repo, modules=GRAMMAR) -> Dict[Tuple[str, str],
                                                        Set[str]]:
    """(class, field) -> set of normalised constant values passed at all
    grammar construction sites ('<expr>' for non-constants)."""
    out: Dict[Tuple[str, str], Set[str]] = {}
    for mn in modules:
        m = repo.modules.get(mn)
        if m is None:
            continue
        for n in ast.walk(m.tree):
            if isinstance(n, ast.Call):
                q = V._family_class(repo, m, n.func, QLAST)
                if not q:
                    continue
                for k in n.keywords:
                    if not k.arg:
                        continue
                    v = k.value
                    if isinstance(v, ast.Constant):
                        val = repr(v.value)
                    else:
                        val = '<expr>'
                    out.setdefault((q, k.arg), set()).add(val)
    return out


def printer_reads(repo: Repo, gen, fr: V.FieldReads, cls_q: str
                  ) -> Optional[Set[str]]:
    nm = cls_q.split('.')[-1]
    v = gen.methods.get('visit_' + nm)
    if v is None:
        return None
    reads = set(fr.reads(v, v.params()[1]))
    return reads


def run(repo: Repo, ctx, grammar_modules=None, rule_prefix='C01',
        only_rules=None) -> None:
    if rule_prefix == 'C01':
        ctx.explanation = (
            'Decides agreement between the EdgeQL printer (writer) and the '
            'grammar + lexer (reader) on what a program consists of: R1 '
            'every node class a grammar reduction can construct has a '
            'visit_<Class> method (the source generator dispatches on the '
            'exact class name) or is a listed inline component; R2 every '
            'field a grammar reduction can set to a non-constant value is '
            'read by that class\'s visitor, transitively through helpers '
            'and closures; R3 literal brackets written by each visitor '
            'balance on every condition-consistent path; R4 literal '
            'alphabet agreement with the Rust lexer (shared with C18); R5 '
            'words written through _write_keywords are lexer keywords. '
            'Sufficiency of parenthesisation per operator pair, token '
            'fusion between sub-trees and byte-identity of the second print '
            'are NOT decided.')
        ctx.not_decided = ['parenthesisation sufficiency per operator pair',
                           'whitespace / token fusion between sub-trees',
                           'byte-identical second print']
    global _REPO_FOR_ENUMS
    _REPO_FOR_ENUMS = repo
    gm = grammar_modules or GRAMMAR
    gen = repo.cls(f'{QLCG}.EdgeQLSourceGenerator')
    fr = V.FieldReads(repo, owner=gen)
    G = grammar_fields(repo, gm)
    consts = constant_fields(repo, gm)
    base = f'{QLAST}.Base'
    domain = sorted(q for q in G if base in repo.mro(q))
    if len(domain) < (100 if gm is GRAMMAR or len(gm) > 3 else 10):
        raise AnalysisError(f'{rule_prefix}: only {len(domain)} '
                            f'grammar-constructed classes found')
    R = lambda r: f'{rule_prefix}.{r}'  # noqa

    # ---- R1 -------------------------------------------------------------
    if only_rules is None or 'R1' in only_rules:
        ctx.floor(R('R1'), 20)
        for q in domain:
            nm = q.split('.')[-1]
            has = ('visit_' + nm) in gen.methods
            inline = nm in INLINE_COMPONENTS
            site = G[q]['<ctor>'][0]
            if inline:
                ctx.ob(R('R1'), f'class={nm}', not has or True,
                       loc=f'{site[0]}:{site[1]}',
                       sample='inline: ' + INLINE_COMPONENTS[nm],
                       nontrivial=False)
                continue
            ctx.ob(R('R1'), f'class={nm}', has,
                   f'the grammar constructs qlast.{nm} '
                   f'({site[0]}:{site[1]}) but the printer has no '
                   f'visit_{nm}: an accepted program containing it cannot '
                   f'be printed', f'{site[0]}:{site[1]}',
                   sample=f'visit_{nm}')

    # ---- R2 -------------------------------------------------------------
    if only_rules is None or 'R2' in only_rules:
        ctx.floor(R('R2'), 100)
        for q in domain:
            nm = q.split('.')[-1]
            reads = printer_reads(repo, gen, fr, q)
            if reads is None:
                continue
            ctx.saw(gen.methods['visit_' + nm])
            declared = set(repo.class_fields(q))
            for f, sites in sorted(G[q].items()):
                if f.startswith('<'):
                    continue
                if ('*', f) in FIELD_EXCEPTIONS or (nm, f) in \
                        FIELD_EXCEPTIONS:
                    continue
                vals = consts.get((q, f), {'<expr>'})
                if len(vals) == 1 and '<expr>' not in vals:
                    # the grammar always sets the same constant: nothing
                    # for print∘parse to lose
                    ctx.ob(R('R2'), f'{nm}.{f}', True,
                           loc=f'{sites[0][0]}:{sites[0][1]}',
                           sample=f'constant {next(iter(vals))} at every '
                                  f'grammar site', nontrivial=False)
                    continue
                ok = f in reads or ('<str>' + f) in reads
                undeclared = f not in declared
                msg = (f'the grammar sets {nm}.{f} '
                       f'({sites[0][0]}:{sites[0][1]}) but visit_{nm} never '
                       f'reads it: print∘parse loses it')
                if undeclared:
                    msg = (f'the grammar passes `{f}=` to qlast.{nm} '
                           f'({sites[0][0]}:{sites[0][1]}), which is not a '
                           f'declared field of the class (AST nodes accept '
                           f'unknown keywords silently): the value is '
                           f'dropped at parse time')
                ctx.ob(R('R2'), f'{nm}.{f}', ok and not undeclared, msg,
                       f'{sites[0][0]}:{sites[0][1]}',
                       sample=f'read by visit_{nm}')

    # ---- R2 per production: under the constants a grammar production
    # fixes, the visitor path taken still reads every field that production
    # sets to a non-constant value
    if only_rules is None or 'R2' in only_rules:
        n_sites = 0
        for mn in gm:
            m = repo.modules.get(mn)
            if m is None:
                continue
            for c in ast.walk(m.tree):
                if not isinstance(c, ast.Call):
                    continue
                q = V._family_class(repo, m, c.func, QLAST)
                if not q or base not in repo.mro(q):
                    continue
                nm = q.split('.')[-1]
                v = gen.methods.get('visit_' + nm)
                if v is None:
                    continue
                consts: Dict[str, object] = {}
                for f, (_own, ann) in repo.class_fields(q).items():
                    if ann.value is not None:
                        if isinstance(ann.value, ast.Constant):
                            consts[f] = ann.value.value
                        elif isinstance(ann.value, ast.Call) and 'field' \
                                in norm(ann.value.func):
                            consts[f] = []
                nonconst = []
                for k in c.keywords:
                    if not k.arg:
                        continue
                    if isinstance(k.value, ast.Constant):
                        consts[k.arg] = k.value.value
                    else:
                        consts.pop(k.arg, None)
                        if _is_static_name(k.value):
                            continue     # enum member / module constant
                        nonconst.append(k.arg)
                if not nonconst:
                    continue
                n_sites += 1
                rd = _reads_under(fr, v, v.params()[1], consts)
                for f in nonconst:
                    if ('*', f) in FIELD_EXCEPTIONS or (nm, f) in \
                            FIELD_EXCEPTIONS:
                        continue
                    if f not in repo.class_fields(q):
                        continue
                    ok = f in rd
                    if ok:
                        continue
                    fixed = {k_: v_ for k_, v_ in consts.items()
                             if any(kk.arg == k_ for kk in c.keywords)}
                    ctx.ob(R('R2'), f'{nm}.{f}@production', False,
                           f'the production at {m.rel()}:{c.lineno} builds '
                           f'{nm} with {f} set and {fixed} fixed; on the '
                           f'path visit_{nm} takes for those constants it '
                           f'never reads {f}: this form loses the clause '
                           f'when printed', f'{m.rel()}:{c.lineno}')
        ctx.ob(R('R2'), 'per-production-sites', n_sites >= (
            200 if len(gm) > 3 else 5),
            f'only {n_sites} grammar construction sites evaluated', '',
            sample=f'{n_sites} productions partially evaluated against '
                   f'their visitor')

    if only_rules is None or 'R7' in only_rules:
        rewritten_node_rule(repo, ctx, gen, R('R7'))

    if rule_prefix != 'C01':
        return

    # ---- R3 brackets -------------------------------------------------------
    ctx.floor('C01.R3', 100)
    for name, f in sorted(gen.methods.items()):
        res = bracket_balance(f)
        if res is None:
            continue
        ok, detail = res
        ctx.ob('C01.R3', f'{name}:brackets', ok,
               f'{name}: literal brackets do not balance on the path '
               f'{detail}', f.loc, sample=detail if not ok else 'balanced',
               nontrivial=detail != 'no brackets')

    # ---- R6 contexts in which parentheses are omitted -------------------------
    # A compound expression may drop its parentheses only in reviewed parent
    # contexts (top level / statement level).  Dropping them under another
    # operator changes how the text re-parses.
    ctx.floor('C01.R6', 2)
    OMIT_OK = {
        '_needs_parentheses': {
            'DDL': 'statement inside a DDL command body',
            'ExplainStmt': 'the query of ANALYZE is a statement',
            'ForQuery': 'non-UNION FOR body is a statement',
        },
        'visit_IfElse': {
            'SelectQuery': 'only the implicit top-level SELECT '
                           '(parent.implicit and no grand-parent)',
        },
    }
    for name, f in sorted(gen.methods.items()):
        targets = []
        for n in walk_no_nested(f.node):
            if isinstance(n, ast.Assign) and len(n.targets) == 1 and \
                    norm(n.targets[0]).lower().startswith('parenthes'):
                targets.append(n.value)
        if name == '_needs_parentheses':
            targets += [r.value for r in walk_no_nested(f.node)
                        if isinstance(r, ast.Return) and r.value is not None]
        if not targets:
            continue
        omit = set()
        for t in targets:
            _omission_classes(t, False, omit)
        allowed = OMIT_OK.get(name, {})
        for cls in sorted(omit):
            ok = cls in allowed
            ctx.ob('C01.R6', f'{name}:omits-parens-under={cls}', ok,
                   f'{name} omits the parentheses of a compound expression '
                   f'when its parent is a {cls}: nested under another '
                   f'expression the text re-parses with a different '
                   f'grouping (not in the reviewed list of statement-level '
                   f'contexts)', f.loc, sample=allowed.get(cls))
    # an exemption for a parent class with several expression children
    # names the child it is about (parent.<field> is node)
    np_ = gen.methods.get('_needs_parentheses')
    if np_ is None:
        raise AnalysisError('C01.R6: _needs_parentheses not found')
    for grp in ast.walk(np_.node):
        if not (isinstance(grp, ast.BoolOp) and isinstance(grp.op, ast.And)):
            continue
        classes = []
        for v in grp.values:
            if isinstance(v, ast.Call) and dotted(v.func) == 'isinstance' \
                    and len(v.args) == 2 and norm(v.args[0]) == 'parent' \
                    and not isinstance(v.args[1], ast.Tuple):
                classes.append(norm(v.args[1]).split('.')[-1])
        for cn in classes:
            q = f'{QLAST}.{cn}'
            if q not in repo.classes:
                continue
            kids = [f_ for f_, (_o, a) in repo.class_fields(q).items()
                    if any(t in norm(a.annotation) for t in (
                        'Expr', 'Query', 'Statement'))
                    and f_ not in ('aliases',)]
            named = {norm(v.left).split('.')[-1] for v in grp.values
                     if isinstance(v, ast.Compare) and len(v.ops) == 1
                     and isinstance(v.ops[0], ast.Is)
                     and norm(v.comparators[0]) == 'node'
                     and norm(v.left).startswith('parent.')}
            ok = len(kids) < 2 or bool(named)
            ctx.ob('C01.R6', f'_needs_parentheses:{cn}:names-the-child', ok,
                   f'the parenthesis exemption under {cn} applies to every '
                   f'child of it ({sorted(kids)}), not to one named child: '
                   f'a statement in another position (e.g. the iterator of '
                   f'a UNION-less FOR) is printed bare, which the grammar '
                   f'rejects or groups differently', np_.loc,
                   sample=f'children={sorted(kids)} restricted to '
                          f'{sorted(named)}')
    ctx.ob('C01.R6', 'operators-always-parenthesised',
           all(_always_parens(gen.methods[m_]) for m_ in (
               'visit_BinOp', 'visit_IsOp', 'visit_TypeOp')
               if m_ in gen.methods),
           'a binary-operator visitor no longer wraps its output in '
           'parentheses unconditionally', gen.loc,
           sample='BinOp / IsOp / TypeOp: ( left OP right )')

    # ---- R8 data written between quote delimiters is escaped ---------------------
    quote_sink_rule(repo, ctx, gen, 'C01.R8')
    # ---- R9 every enum value the grammar can set has a spelling ------------------
    enum_member_rule(repo, ctx, gen, gm, 'C01.R9')
    # ---- R10 prefix operations as left operands keep their parentheses ------------
    prefix_left_operand_rule(repo, ctx, gen, 'C01.R10')
    detached_operand_rule(repo, ctx, gen, 'C01.R10')
    # ---- R11 clause order follows the grammar -----------------------------------
    clause_order_rule(repo, ctx, gen, 'C01.R11')
    identifier_field_rule(repo, ctx, gen, gm, 'C01.R12')
    unnamed_object_separator_rule(repo, ctx, gen, 'C01.R13')
    all_abbreviation_rule(repo, ctx, gen, 'C01.R14')

    # ---- R4 (shared with C18) --------------------------------------------------
    from . import c18
    from ..report import Ctx
    sub = Ctx('C18', ctx.tier)
    c18.run(repo, sub)
    for fnd in sub.findings:
        if fnd.rule in ('C18.R1', 'C18.R2', 'C18.R3', 'C18.R4') and (
                'pgsql' not in fnd.construct
                and 'dbops' not in fnd.construct):
            ctx.fail('C01.R4', fnd.construct, fnd.message, fnd.loc)
    n_ok = sum(1 for s in sub.samples if s.get('ok'))
    ctx.floor('C01.R4', 1)
    ctx.ob('C01.R4', 'literal-alphabet', True,
           sample=f'{sub.obligations} obligations of C18.R1-R3 evaluated; '
                  f'{len(sub.findings)} findings')

    # ---- R5 keywords -----------------------------------------------------------
    ctx.floor('C01.R5', 50)
    kwpath = os.path.join(repo.root, 'edb/edgeql-parser/src/keywords.rs')
    rel = 'edb/edgeql-parser/src/keywords.rs'
    try:
        kwsrc = repo.overlay.get(rel) or open(kwpath).read()
    except OSError:
        raise AnalysisError('keywords.rs not found')
    kws = set()
    for mm in re.finditer(r'phf_set!\s*[\(\{](.*?)[\)\}]\s*;', kwsrc, re.S):
        kws |= set(re.findall(r'"([^"]+)"', mm.group(1)))
    if len(kws) < 100:
        raise AnalysisError('C01.R5: keyword sets not extracted')
    allowed_nonkw = {'initial': 'pseudo-parent name in CREATE MIGRATION … '
                                'ONTO initial'}
    words: Dict[str, str] = {}
    for f in gen.methods.values():
        for c in ast.walk(f.node):
            if isinstance(c, ast.Call) and norm(c.func) == \
                    'self._write_keywords':
                for a in c.args:
                    parts = []
                    if isinstance(a, ast.Constant) and isinstance(
                            a.value, str):
                        parts = [a.value]
                    elif isinstance(a, ast.JoinedStr):
                        parts = [v.value for v in a.values
                                 if isinstance(v, ast.Constant)]
                    for p in parts:
                        for w in re.findall(r'[A-Za-z_]+', p):
                            words.setdefault(w.lower(),
                                             f'{f.module.rel()}:{c.lineno}')
    idf = identifier_fields(repo, gm)
    # only literal text goes through the keyword writer: it folds the case
    # of everything it is given, so node data (a name) would be case-folded
    for f in gen.methods.values():
        for c in ast.walk(f.node):
            if isinstance(c, ast.Call) and norm(c.func) == \
                    'self._write_keywords':
                data = []
                for a in c.args:
                    for x in ast.walk(a):
                        if isinstance(x, ast.Attribute) and isinstance(
                                x.value, ast.Name) and x.value.id == 'node' \
                                and _field_kind(repo, gen, f, x.attr, idf) \
                                in ('identifier', 'node'):
                            data.append(f'node.{x.attr}')
                if data:
                    ctx.ob('C01.R5', f'{f.name}:keyword-writer-gets-data',
                           False,
                           f'{f.name} hands {data} to _write_keywords, which '
                           f'upper/lower-cases its arguments: a '
                           f'case-sensitive name is printed in a different '
                           f'case (`beforeImport` -> `beforeimport`) and two '
                           f'names that differ only in case print alike',
                           f'{f.module.rel()}:{c.lineno}')
    for w, loc in sorted(words.items()):
        ok = w in kws or w in allowed_nonkw
        ctx.ob('C01.R5', f'keyword={w}', ok,
               f'the printer writes `{w.upper()}` as a keyword, but the '
               f'lexer has no such keyword: the text re-parses as an '
               f'identifier or is rejected', loc, sample='keyword')


def _is_static_name(e: ast.AST) -> bool:
    d = dotted(e)
    return d is not None and not d.startswith(('kids', 'self'))


_UNK = object()
_REPO_FOR_ENUMS = None


def _enum_const(e: ast.AST):
    """value of `pkg.Enum.MEMBER` when Enum is a repo class whose MEMBER is
    assigned a constant"""
    d = dotted(e)
    if not d or d.count('.') < 1 or _REPO_FOR_ENUMS is None:
        return _UNK
    cls, mem = d.split('.')[-2:]
    cands = [c for q, c in _REPO_FOR_ENUMS.classes.items()
             if q.endswith('.' + cls) and mem in c.assign_fields]
    vals = {c.assign_fields[mem].value for c in cands
            if isinstance(c.assign_fields[mem], ast.Constant)}
    return vals.pop() if len(vals) == 1 else _UNK


def _tv(test, p, consts):
    """three-valued evaluation of a visitor test under known constants"""
    if isinstance(test, ast.UnaryOp) and isinstance(test.op, ast.Not):
        v = _tv(test.operand, p, consts)
        return _UNK if v is _UNK else (not v)
    if isinstance(test, ast.BoolOp):
        vals = [_tv(v, p, consts) for v in test.values]
        if isinstance(test.op, ast.And):
            if any(v is False for v in vals):
                return False
            if all(v is True for v in vals):
                return True
            return _UNK
        if any(v is True for v in vals):
            return True
        if all(v is False for v in vals):
            return False
        return _UNK
    if isinstance(test, ast.Attribute) and isinstance(
            test.value, ast.Name) and test.value.id == p:
        if test.attr in consts:
            return bool(consts[test.attr])
        return _UNK
    if isinstance(test, ast.Compare) and len(test.ops) == 1 and isinstance(
            test.left, ast.Attribute) and isinstance(
                test.left.value, ast.Name) and test.left.value.id == p \
            and (isinstance(test.comparators[0], ast.Constant)
                 or _enum_const(test.comparators[0]) is not _UNK):
        f = test.left.attr
        if f in consts:
            c = test.comparators[0].value if isinstance(
                test.comparators[0], ast.Constant) else _enum_const(
                test.comparators[0])
            v = consts[f]
            op = test.ops[0]
            if isinstance(op, ast.Is):
                return v is c
            if isinstance(op, ast.IsNot):
                return v is not c
            if isinstance(op, ast.Eq):
                return v == c
            if isinstance(op, ast.NotEq):
                return v != c
    return _UNK


def _reads_under(fr, fn, p, consts) -> Set[str]:
    """Fields of parameter p read on the paths of fn consistent with the
    given field constants (helpers the node is passed to are taken
    path-insensitively)."""
    out: Set[str] = set()

    def expr(e):
        for n in ast.walk(e):
            if isinstance(n, ast.Attribute) and isinstance(
                    n.value, ast.Name) and n.value.id == p:
                out.add(n.attr)
            if isinstance(n, ast.Call):
                if dotted(n.func) in ('getattr', 'hasattr') and len(
                        n.args) >= 2 and isinstance(n.args[0], ast.Name) \
                        and n.args[0].id == p and const_str(n.args[1]):
                    out.add(const_str(n.args[1]))
                pos = [i for i, a in enumerate(n.args)
                       if isinstance(a, ast.Name) and a.id == p]
                if pos:
                    t = fr.resolve_callee(fn, n)
                    if t is not None:
                        ps = t.params()
                        off = 1 if t.cls is not None else 0
                        for i in pos:
                            if i + off < len(ps):
                                out.update(fr.reads(t, ps[i + off]))
                    for a in n.args:
                        if const_str(a):
                            out.add(const_str(a))

    def block(stmts):
        for st in stmts:
            if isinstance(st, ast.If):
                expr(st.test)
                v = _tv(st.test, p, consts)
                if v is True:
                    block(st.body)
                elif v is False:
                    block(st.orelse)
                else:
                    block(st.body)
                    block(st.orelse)
            elif isinstance(st, (ast.For, ast.While)):
                expr(st.iter if isinstance(st, ast.For) else st.test)
                block(st.body)
                block(st.orelse)
            elif isinstance(st, ast.With):
                for i in st.items:
                    expr(i.context_expr)
                block(st.body)
            elif isinstance(st, ast.Try):
                block(st.body)
                for h in st.handlers:
                    block(h.body)
                block(st.orelse)
                block(st.finalbody)
            elif isinstance(st, (ast.FunctionDef, ast.AsyncFunctionDef)):
                block(st.body)
            else:
                expr(st)
    block(fn.node.body)
    return out


# ----------------------------------------------------------------------

_BR = {'(': ('p', 1), ')': ('p', -1), '[': ('s', 1), ']': ('s', -1),
       '{': ('c', 1), '}': ('c', -1)}


def _lit_brackets(call: ast.Call) -> Dict[str, int]:
    out: Dict[str, int] = {}
    for a in call.args:
        parts = []
        if isinstance(a, ast.Constant) and isinstance(a.value, str):
            parts = [a.value]
        elif isinstance(a, ast.JoinedStr):
            parts = [v.value for v in a.values if isinstance(v, ast.Constant)
                     and isinstance(v.value, str)]
        for p in parts:
            for ch in p:
                if ch in _BR:
                    k, d = _BR[ch]
                    out[k] = out.get(k, 0) + d
    return out


class _N:
    def __init__(self, node):
        self.node = node


def bracket_balance(f):
    """(ok, detail) — evaluate the net literal-bracket count of a visitor
    under every consistent valuation of its branch conditions."""
    writes = [c for c in ast.walk(f.node) if isinstance(c, ast.Call)
              and norm(c.func) in ('self.write', 'self._write_keywords')]
    if not any(_lit_brackets(c) for c in writes):
        return True, 'no brackets'
    conds: List[str] = []

    def collect(stmts):
        for st in stmts:
            if isinstance(st, ast.If):
                t = norm(st.test)
                if t not in conds:
                    conds.append(t)
                collect(st.body)
                collect(st.orelse)
            elif isinstance(st, (ast.For, ast.While, ast.With, ast.Try)):
                collect(getattr(st, 'body', []))
                collect(getattr(st, 'orelse', []))
                for h in getattr(st, 'handlers', []):
                    collect(h.body)
                collect(getattr(st, 'finalbody', []))
    collect(f.node.body)
    relevant = conds
    if len(relevant) > 14:
        # too many: only conditions whose branches contain bracket writes
        def has_br(st):
            return any(isinstance(c, ast.Call) and norm(c.func) in (
                'self.write', 'self._write_keywords') and _lit_brackets(c)
                for c in ast.walk(st))
        keep = []
        def collect2(stmts):
            for st in stmts:
                if isinstance(st, ast.If):
                    if has_br(st) and norm(st.test) not in keep:
                        keep.append(norm(st.test))
                    collect2(st.body)
                    collect2(st.orelse)
                elif isinstance(st, (ast.For, ast.While, ast.With, ast.Try)):
                    collect2(getattr(st, 'body', []))
                    collect2(getattr(st, 'orelse', []))
        collect2(f.node.body)
        relevant = keep[:14]

    class Ret(Exception):
        pass

    def ev(stmts, val, net):
        for st in stmts:
            if isinstance(st, ast.If):
                t = norm(st.test)
                b = val.get(t, True)
                ev(st.body if b else st.orelse, val, net)
            elif isinstance(st, (ast.For, ast.While)):
                inner: Dict[str, int] = {}
                try:
                    ev(st.body, val, inner)
                except Ret:
                    pass
                if any(inner.values()):
                    raise ValueError(f'loop body at L{st.lineno} is not '
                                     f'bracket-neutral: {inner}')
                ev(st.orelse, val, net)
            elif isinstance(st, ast.With):
                ev(st.body, val, net)
            elif isinstance(st, ast.Try):
                ev(st.body, val, net)
                ev(st.orelse, val, net)
                ev(st.finalbody, val, net)
            elif isinstance(st, ast.Return):
                _count(st, net)
                raise Ret()
            elif isinstance(st, ast.Raise):
                net['__dead__'] = 1
                raise Ret()
            elif isinstance(st, (ast.FunctionDef, ast.AsyncFunctionDef,
                                 ast.ClassDef)):
                continue
            else:
                _count(st, net)

    def _count(st, net):
        for c in ast.walk(st):
            if isinstance(c, (ast.Lambda,)):
                continue
            if isinstance(c, ast.Call) and norm(c.func) in (
                    'self.write', 'self._write_keywords'):
                for k, d in _lit_brackets(c).items():
                    net[k] = net.get(k, 0) + d

    n = len(relevant)
    for bits in itertools.product((True, False), repeat=n):
        val = dict(zip(relevant, bits))
        net: Dict[str, int] = {}
        try:
            ev(f.node.body, val, net)
        except Ret:
            pass
        except ValueError as e:
            return False, str(e)
        if net.pop('__dead__', 0):
            continue
        bad = {k: v for k, v in net.items() if v}
        if bad:
            path = ', '.join(f'{c[:40]}={b}' for c, b in val.items())
            return False, f'[{path}] net={bad}'
    # nested closures (after_name callbacks) must be neutral on their own
    def nested(node):
        for ch in ast.iter_child_nodes(node):
            if isinstance(ch, (ast.FunctionDef, ast.AsyncFunctionDef)):
                yield ch
            elif not isinstance(ch, ast.ClassDef):
                yield from nested(ch)
    for sub in nested(f.node):
        r = bracket_balance(_N(sub))
        if r is not None and not r[0]:
            return False, f'closure {sub.name}: {r[1]}'
    return True, f'{2 ** n} valuations of {n} conditions'


def _omission_classes(e, negated: bool, out: Set[str]) -> None:
    """classes tested with isinstance(<parent...>, C) in positions where the
    test being true makes the `parenthesise` value false."""
    if isinstance(e, ast.UnaryOp) and isinstance(e.op, ast.Not):
        _omission_classes(e.operand, not negated, out)
    elif isinstance(e, ast.BoolOp):
        for v in e.values:
            _omission_classes(v, negated, out)
    elif isinstance(e, ast.Call) and dotted(e.func) == 'isinstance' and \
            len(e.args) == 2 and 'parent' in norm(e.args[0]):
        if negated:
            t = e.args[1]
            for x in (t.elts if isinstance(t, ast.Tuple) else [t]):
                out.add(norm(x).split('.')[-1])
    elif isinstance(e, ast.Call) and norm(e.func) == \
            'self._needs_parentheses':
        pass


def _always_parens(f) -> bool:
    body = [st for st in f.node.body if not (isinstance(st, ast.Expr)
            and isinstance(st.value, ast.Constant))]
    def lit(st, ch):
        return isinstance(st, ast.Expr) and isinstance(
            st.value, ast.Call) and norm(st.value.func) == 'self.write' \
            and len(st.value.args) == 1 and isinstance(
                st.value.args[0], ast.Constant) and st.value.args[0].value \
            == ch
    opens = [i for i, st in enumerate(body) if lit(st, '(')]
    closes = [i for i, st in enumerate(body) if lit(st, ')')]
    return bool(opens) and bool(closes) and opens[0] <= 2 and \
        closes[-1] == len(body) - 1


def rewritten_node_rule(repo: Repo, ctx, gen, rule: str) -> None:
    """A visitor that replaces its node by a rewritten copy
    (`node = self._helper(node)` where the helper returns
    node.replace(F=...)) takes every decision about F on the rewritten node:
    a value computed from node.F before the rebinding describes a node that
    is not the one printed."""
    ctx.floor(rule, 3)
    changes = {}
    for name, h in gen.methods.items():
        flds = set()
        for c in ast.walk(h.node):
            if isinstance(c, ast.Call) and isinstance(c.func, ast.Attribute) \
                    and c.func.attr == 'replace' and isinstance(
                        c.func.value, ast.Name) and c.func.value.id in \
                    h.params():
                flds |= {k.arg for k in c.keywords if k.arg}
        rets_param = any(isinstance(r, ast.Return) and r.value is not None
                         and isinstance(r.value, (ast.Call, ast.Name))
                         for r in ast.walk(h.node))
        if flds and rets_param:
            changes[name] = flds
    n_sites = 0
    for name, f in sorted(gen.methods.items()):
        if name in changes:
            continue
        calls = [c for c in walk_no_nested(f.node) if isinstance(c, ast.Call)
                 and isinstance(c.func, ast.Attribute)
                 and norm(c.func.value) == 'self'
                 and c.func.attr in changes and len(c.args) == 1
                 and isinstance(c.args[0], ast.Name)]
        for call in calls:
            var = call.args[0].id
            flds = changes[call.func.attr]
            n_sites += 1
            g = CFG(f.node)
            rebind = [a for a in walk_no_nested(f.node)
                      if isinstance(a, ast.Assign) and a.value is call
                      and len(a.targets) == 1 and norm(a.targets[0]) == var]
            rb = g.nodes_of(rebind[0]) if rebind else []
            stale = []
            for n in g.nodes:
                if n.kind not in ('stmt', 'test') or n.id in rb:
                    continue
                for x in g.node_exprs(n):
                    for at in ast.walk(x):
                        if isinstance(at, ast.Attribute) and at.attr in flds \
                                and norm(at.value) == var and isinstance(
                                    at.ctx, ast.Load):
                            if not rb or not g.always_before(n.id, rb):
                                stale.append((at.attr, getattr(
                                    n.ast, 'lineno', 0)))
            how = (f'`{norm(rebind[0])[:50]}` replaces the node'
                   if rebind else
                   f'the rewritten copy `{norm(call)[:45]}` is only handed '
                   f'on, {var} itself stays unrewritten')
            ctx.ob(rule, f'{name}:{call.func.attr}', not stale,
                   f'{name} reads {var}.{sorted({s_ for s_, _ in stale})} '
                   f'on the original node ({how}): the decision is taken on '
                   f'a node without the rewritten {sorted(flds)} (for '
                   f'pointers: the EXTENDING bases moved into the command '
                   f'block), so the clause it guards is printed for the '
                   f'wrong node or not at all', f.loc,
                   sample=f'all reads of {sorted(flds)} after the rebinding')
    if n_sites < 3:
        raise AnalysisError(f'{rule}: node-rewriting visitors not found '
                            f'({n_sites})')


def quote_sink_rule(repo: Repo, ctx, gen, rule: str) -> None:
    """A visitor that opens and closes a quoted literal itself writes, in
    between, only constants, sub-visits and values that went through an
    escaping function."""
    ctx.floor(rule, 2)
    n = 0
    for name, f in sorted(gen.methods.items()):
        writes = []
        for c in walk_no_nested(f.node):
            if isinstance(c, ast.Call) and norm(c.func) == 'self.write':
                writes.append(c)
        writes.sort(key=lambda c: (c.lineno, c.col_offset))

        def is_quote(a):
            return isinstance(a, ast.Constant) and isinstance(
                a.value, str) and a.value[-1:] in ("'", '"') and len(
                a.value) <= 3
        args = [(c, a) for c in writes for a in c.args]
        qpos = [i for i, (_c, a) in enumerate(args) if is_quote(a)]
        if len(qpos) < 2:
            continue
        n += 1
        ctx.saw(f)
        lo, hi = qpos[0], qpos[-1]
        bad = []
        for _c, a in args[lo + 1:hi]:
            if isinstance(a, (ast.Constant, ast.JoinedStr)) and not any(
                    isinstance(x, ast.FormattedValue) for x in ast.walk(a)):
                continue
            from ..model import inline_locals
            flat = inline_locals(f.node, a)
            if any(isinstance(x, ast.Call) and (
                    any(w in norm(x.func).lower()
                        for w in ('escape', 'quote'))
                    or norm(x.func).endswith('_RE.sub'))
                    for x in ast.walk(ast.parse(flat, mode='eval'))):
                continue
            bad.append(norm(a)[:40])
        ctx.ob(rule, f'{name}:escaped-between-quotes', not bad,
               f'{name} writes {bad} between the quote delimiters it emits '
               f'without passing it through an escaping function: a quote, '
               f'backslash or control character in that text ends the '
               f'literal early or changes what it reads back as', f.loc,
               sample='constants / escape_string(...) only')
    if n < 2:
        raise AnalysisError(f'{rule}: quoting visitors not found ({n})')


def detached_operand_rule(repo: Repo, ctx, gen, rule: str) -> None:
    """DETACHED binds tighter than path steps (P_DETACHED above P_DOT)."""
    pm = repo.module('edb.edgeql.parser.grammar.precedence')
    order = [c.name for c in pm.tree.body if isinstance(c, ast.ClassDef)]
    if 'P_DOT' not in order or 'P_DETACHED' not in order:
        raise AnalysisError(f'{rule}: P_DOT / P_DETACHED not found')
    tighter = order.index('P_DETACHED') > order.index('P_DOT')
    vd = gen.methods.get('visit_DetachedExpr')
    if vd is None:
        raise AnalysisError(f'{rule}: visit_DetachedExpr not found')
    t = norm(vd.node)
    wraps = 'qlast.Path' in t and "self.write('(')" in t and \
        "self.write(')')" in t
    ctx.ob(rule, 'visit_DetachedExpr:path-operand', wraps or not tighter,
           'DETACHED binds tighter than `.` in the grammar but '
           'visit_DetachedExpr prints a multi-step path operand bare: '
           '`DETACHED Foo.bar` re-parses as (DETACHED Foo).bar', vd.loc,
           sample='DETACHED (Foo.bar)')


def enum_member_rule(repo: Repo, ctx, gen, gm, rule: str) -> None:
    """If the grammar sets node.F to members of an enum and the visitor only
    *compares* node.F with members (never prints its value), every member
    the grammar uses must occur in the visitor."""
    ctx.floor(rule, 1)
    set_members = {}     # (class, field) -> {Enum.Member}
    for mn in gm:
        m = repo.modules.get(mn)
        if m is None:
            continue
        for c in ast.walk(m.tree):
            if not (isinstance(c, ast.Call) and dotted(c.func) and
                    dotted(c.func).startswith('qlast.')):
                continue
            cls = dotted(c.func).split('.', 1)[1]
            for k in c.keywords:
                d = dotted(k.value) if k.arg else None
                if d and d.startswith('qlast.') and d.count('.') == 2:
                    enum_q = f'{QLAST}.{d.split(".")[1]}'
                    ec = repo.classes.get(enum_q)
                    if ec is not None and any('Enum' in b for b in
                                              repo.mro(enum_q)):
                        set_members.setdefault((cls, k.arg), set()).add(
                            d.split('.', 1)[1])
    n = 0
    fr = V.FieldReads(repo, owner=gen, value_only=True)
    for (cls, fld), members in sorted(set_members.items()):
        f = gen.methods.get(f'visit_{cls}')
        if f is None:
            continue
        # does the visitor use the value itself (prints / forwards it)?
        if fld in fr.reads(f, f.params()[1] if len(f.params()) > 1
                           else 'node'):
            # a value read: only comparisons still count as compare-only
            pass
        compared = set()
        valued = False
        for n_ in ast.walk(f.node):
            if isinstance(n_, ast.Attribute) and n_.attr == fld and \
                    isinstance(n_.value, ast.Name):
                par = _parent_of(f.node, n_)
                if isinstance(par, ast.Compare):
                    for x in [par.left] + par.comparators:
                        d = dotted(x)
                        if d and d.startswith('qlast.'):
                            compared.add(d.split('.', 1)[1])
                        if isinstance(x, (ast.Tuple, ast.List, ast.Set)):
                            for e in x.elts:
                                d = dotted(e)
                                if d and d.startswith('qlast.'):
                                    compared.add(d.split('.', 1)[1])
                elif isinstance(par, (ast.If, ast.IfExp, ast.BoolOp,
                                      ast.UnaryOp)):
                    continue          # truthiness only
                else:
                    valued = True
        # an if/elif chain over the field that ends in a plain `else`
        # spells the remaining members generically
        def chain_has_else(test_node):
            for i_ in ast.walk(f.node):
                if isinstance(i_, ast.If) and any(
                        x is test_node for x in ast.walk(i_.test)):
                    cur = i_
                    while len(cur.orelse) == 1 and isinstance(
                            cur.orelse[0], ast.If):
                        cur = cur.orelse[0]
                    return bool(cur.orelse)
                if isinstance(i_, ast.IfExp) and any(
                        x is test_node for x in ast.walk(i_.test)):
                    return True
            return False
        generic = any(
            isinstance(n_, ast.Attribute) and n_.attr == fld
            and isinstance(n_.value, ast.Name) and chain_has_else(n_)
            for n_ in ast.walk(f.node))
        if valued or not compared or generic:
            continue
        n += 1
        ctx.saw(f)
        missing = sorted(members - compared)
        ctx.ob(rule, f'visit_{cls}:{fld}', not missing,
               f'the grammar sets {cls}.{fld} to {sorted(members)} but '
               f'visit_{cls} only has a spelling for {sorted(compared)}: '
               f'{missing} is silently dropped from the printed text', f.loc,
               sample=f'{sorted(compared)} cover {sorted(members)}')
    if n < 1:
        raise AnalysisError(f'{rule}: only {n} compare-only enum fields')


def _parent_of(root: ast.AST, node: ast.AST):
    for p in ast.walk(root):
        for c in ast.iter_child_nodes(p):
            if c is node:
                return p
    return None


def prefix_left_operand_rule(repo: Repo, ctx, gen, rule: str) -> None:
    """Prefix operators bind looser than most infix operators, and infix
    visitors print `( left OP right )`: a prefix operation in the left
    position regroups unless it carries parentheses of its own."""
    ctx.floor(rule, 2)
    un = gen.methods.get('visit_UnaryOp')
    if un is None:
        raise AnalysisError(f'{rule}: visit_UnaryOp not found')
    self_paren = _always_parens(un)
    for name in ('visit_BinOp', 'visit_IsOp'):
        f = gen.methods.get(name)
        if f is None:
            raise AnalysisError(f'{rule}: {name} not found')
        ctx.saw(f)
        direct = [c for c in ast.walk(f.node) if isinstance(c, ast.Call)
                  and norm(c.func) == 'self.visit' and c.args
                  and norm(c.args[0]).endswith('.left')]
        via = [c for c in ast.walk(f.node) if isinstance(c, ast.Call)
               and isinstance(c.func, ast.Attribute)
               and norm(c.func.value) == 'self' and c.args
               and norm(c.args[0]).endswith('.left')
               and c.func.attr != 'visit']
        wraps = False
        for c in via:
            h = gen.methods.get(c.func.attr)
            if h is None:
                continue
            from .. import shapes as SH
            hp = SH.param(h.node, 0)
            # the test is the isinstance call itself: a further condition
            # (only symbolic operators, ...) leaves some prefix operators
            # bare
            for names, t in SH.isinstance_arms(h.node, hp):
                if 'UnaryOp' not in names:
                    continue
                w = [norm(x.args[0]) for b in t.body for x in ast.walk(b)
                     if isinstance(x, ast.Call) and norm(x.func) ==
                     'self.write' and x.args]
                if "'('" in w and "')'" in w:
                    wraps = True
        ok = self_paren or (not direct and wraps)
        ctx.ob(rule, f'{name}:left-operand', ok,
               f'{name} prints its left operand bare and visit_UnaryOp does '
               f'not parenthesise itself: `(-a ^ 2)`, `(NOT (a) ?? b)` are '
               f'read back as -(a ^ 2), NOT (a ?? b) because the prefix '
               f'operator has lower precedence', f.loc,
               sample='left operand wrapped when it is a UnaryOp')


def clause_order_rule(repo: Repo, ctx, gen, rule: str) -> None:
    """CREATE <object> <name> [EXTENDING ...] [IF NOT EXISTS]: wherever a
    production has both clauses, the printer emits them in that order."""
    ctx.floor(rule, 1)
    gm = repo.module('edb.edgeql.parser.grammar.ddl')
    orders = set()
    import re
    for n in ast.walk(gm.tree):
        txt = None
        if isinstance(n, ast.FunctionDef) and n.name.startswith('reduce_'):
            txt = n.name + ' ' + (ast.get_docstring(n) or '')
        if txt and 'Extending' in txt and 'IfNotExists' in txt:
            orders.add(txt.index('Extending') < txt.index('IfNotExists'))
    if not orders:
        raise AnalysisError(f'{rule}: no production with EXTENDING and IF '
                            f'NOT EXISTS found')
    if orders != {True}:
        raise AnalysisError(f'{rule}: productions disagree on the order')
    co = gen.methods.get('_visit_CreateObject')
    if co is None:
        raise AnalysisError(f'{rule}: _visit_CreateObject not found')
    g = CFG(co.node)
    an = [n.id for n in g.nodes if any(norm(c.func) == 'after_name'
                                       for c in g.node_calls(n))]
    ine = [n.id for n in g.nodes if any(
        'IF NOT EXISTS' in norm(c) for c in g.node_calls(n))]
    if not an or not ine:
        raise AnalysisError(f'{rule}: after_name / IF NOT EXISTS writes of '
                            f'_visit_CreateObject not found')
    # no path on which IF NOT EXISTS is written and after_name() follows
    late = [a for a in an if any(a in g.reachable([i]) for i in ine)]
    ctx.ob(rule, '_visit_CreateObject:extending-before-if-not-exists',
           not late,
           '_visit_CreateObject writes IF NOT EXISTS before the after_name '
           'hook (which prints EXTENDING for roles): the grammar has '
           'EXTENDING first, so `create role r if not exists extending a` '
           'is rejected by the parser', co.loc,
           sample='after_name() precedes IF NOT EXISTS')


IDENT_SYMBOLS = {'Identifier', 'PtrIdentifier', 'AnyIdentifier', 'IDENT'}


def identifier_fields(repo: Repo, gm) -> Dict[Tuple[str, str], str]:
    """(qlast class, field) -> reduction, for fields a reduction fills with
    the text of an identifier token: `kids[i].val` where the i-th symbol of
    the production is Identifier / PtrIdentifier / AnyIdentifier, or an
    attribute of another nonterminal's value that is itself filled that way
    (`kids[1].val.alias` with OptionallyAliasedExpr.alias <- AliasedExpr
    .alias <- Identifier), followed to a fixpoint.  The lexer has already
    removed the backticks, so the value is the bare name and may contain
    anything a quoted identifier may contain."""
    out: Dict[Tuple[str, str], str] = {}
    nt_attrs: Dict[str, Set[str]] = {}      # nonterminal -> ident attrs
    reducers = []
    for mn in gm:
        m = repo.modules.get(mn)
        if m is None:
            continue
        for cls in [c for c in ast.walk(m.tree)
                    if isinstance(c, ast.ClassDef)]:
            for fn in cls.body:
                if isinstance(fn, ast.FunctionDef) and fn.name.startswith(
                        'reduce_'):
                    reducers.append((cls, fn))
    for _round in range(4):
        before = (len(out), sum(len(v) for v in nt_attrs.values()))
        for cls, fn in reducers:
            doc = ast.get_docstring(fn) or ''
            if '%reduce' in doc:
                syms = doc.split('%reduce', 1)[1].replace('\\', ' ').split()
            else:
                syms = fn.name[len('reduce_'):].split('_')
            pos = [x.arg for x in fn.args.args[1:]]
            var = fn.args.vararg.arg if fn.args.vararg else None
            local = {}
            for a_ in ast.walk(fn):
                if isinstance(a_, ast.Assign) and len(a_.targets) == 1 and \
                        isinstance(a_.targets[0], ast.Name):
                    local[a_.targets[0].id] = a_.value

            def kid_sym(b):
                if isinstance(b, ast.Subscript) and isinstance(
                        b.value, ast.Name) and b.value.id == var and \
                        isinstance(b.slice, ast.Constant) and isinstance(
                        b.slice.value, int):
                    i = b.slice.value
                    return syms[i] if -len(syms) <= i < len(syms) else None
                if isinstance(b, ast.Name) and b.id in pos:
                    i = pos.index(b.id)
                    return syms[i] if i < len(syms) else None
                return None

            def is_ident(e, depth=0):
                if depth > 3:
                    return False
                if isinstance(e, ast.Name) and e.id in local:
                    return is_ident(local[e.id], depth + 1)
                if isinstance(e, ast.Attribute) and e.attr in (
                        'val', 'clean_value'):
                    return kid_sym(e.value) in IDENT_SYMBOLS
                if isinstance(e, ast.Attribute):
                    v = e.value
                    if isinstance(v, ast.Name) and v.id in local:
                        v = local[v.id]
                    if isinstance(v, ast.Attribute) and v.attr == 'val':
                        sy = kid_sym(v.value)
                        return sy is not None and e.attr in nt_attrs.get(
                            sy, ())
                return False
            for c in ast.walk(fn):
                if not isinstance(c, ast.Call):
                    continue
                d = dotted(c.func)
                is_val = any(isinstance(a_, ast.Assign) and a_.value is c
                             and norm(a_.targets[0]) == 'self.val'
                             for a_ in ast.walk(fn))
                for kw in c.keywords:
                    if not kw.arg or not is_ident(kw.value):
                        continue
                    if d and d.startswith('qlast.'):
                        out.setdefault((d.split('.', 1)[1], kw.arg),
                                       f'{cls.name}.{fn.name}')
                    if is_val:
                        nt_attrs.setdefault(cls.name, set()).add(kw.arg)
        if (len(out), sum(len(v) for v in nt_attrs.values())) == before:
            break
    return out


def _field_kind(repo: Repo, gen, f, fld: str, idf) -> str:
    """'identifier' (identifier token text), 'node' (an AST node object),
    'enum' or 'other' for field `fld` of the class visitor `f` prints"""
    cls = f.name[len('visit_'):] if f.name.startswith('visit_') else None
    if cls is None:
        return 'other'
    if (cls, fld) in idf:
        return 'identifier'
    q = f'{QLAST}.{cls}'
    if q not in repo.classes:
        return 'other'
    fields = repo.class_fields(q)
    if fld not in fields:
        return 'other'
    ann = fields[fld][1].annotation
    names = [dotted(x) for x in ast.walk(ann)
             if isinstance(x, (ast.Name, ast.Attribute))]
    for d in names:
        if not d:
            continue
        r = repo.resolve(repo.modules[QLAST], d)
        if r in repo.classes:
            mro = repo.mro(r)
            if any(b.endswith('Enum') or b.endswith('.StrEnum')
                   for b in mro):
                return 'enum'
            if f'{QLAST}.Base' in mro:
                return 'node'
    return 'other'


def identifier_field_rule(repo: Repo, ctx, gen, gm, rule: str) -> None:
    """A field that holds the text of an identifier token is written through
    an identifier-quoting function (ident_to_str / quote_ident /
    param_to_str): the parser accepts a back-quoted name with spaces,
    keywords or upper-case letters there, and the bare text does not
    re-parse (or re-parses as something else)."""
    idf = identifier_fields(repo, gm)
    if len(idf) < 5:
        raise AnalysisError(f'{rule}: only {len(idf)} identifier-valued '
                            f'fields found in the grammar')
    ctx.floor(rule, 5)
    for (cls, fld), red in sorted(idf.items()):
        f = gen.methods.get(f'visit_{cls}')
        if f is None:
            continue
        ctx.saw(f)
        p = f.params()[1] if len(f.params()) > 1 else 'node'
        raw = []
        for c in ast.walk(f.node):
            if not (isinstance(c, ast.Call) and norm(c.func) in (
                    'self.write', 'self._write_keywords')):
                continue
            for a in c.args:
                # uses of node.<fld> in this argument that are not inside a
                # call of a quoting function
                def scan(e, quoted):
                    if isinstance(e, ast.Call):
                        q = quoted or any(
                            w in norm(e.func).lower()
                            for w in ('ident_to_str', 'quote', 'param_to_str',
                                      'escape'))
                        for x in list(e.args) + [k.value for k in e.keywords]:
                            scan(x, q)
                        return
                    if isinstance(e, ast.Attribute) and e.attr == fld and \
                            norm(e.value) == p and not quoted:
                        raw.append(c.lineno)
                    for x in ast.iter_child_nodes(e):
                        scan(x, quoted)
                scan(a, False)
        ctx.ob(rule, f'visit_{cls}:{fld}-quoted', not raw,
               f'{cls}.{fld} holds the text of an identifier token (set in '
               f'{red}) but visit_{cls} writes it as it is: a name that '
               f'needs back-quotes (`my sp`, a reserved word, ...) is '
               f'printed bare and the text is rejected or read differently',
               f'{f.module.rel()}:{raw[0] if raw else f.node.lineno}',
               sample=f'ident_to_str(node.{fld})')



def _first_write(fn_node):
    """(kind, text) of the first thing a local printing callback emits:
    'space' (a literal that begins with white space, a block / newline
    request), 'word' (a literal that begins with anything else), 'subtree'
    (a visit), None when nothing is recognised"""
    for st in fn_node.body:
        for c in [x for x in ast.walk(st) if isinstance(x, ast.Call)]:
            f = norm(c.func)
            if f in ('self._block_ws',):
                return 'space', f
            if f in ('self.write', 'self._write_keywords') and c.args:
                a = c.args[0]
                if isinstance(a, ast.Constant) and isinstance(a.value, str):
                    return ('space' if a.value[:1].isspace() else 'word',
                            a.value)
                if isinstance(a, ast.JoinedStr) and a.values and isinstance(
                        a.values[0], ast.Constant):
                    v = str(a.values[0].value)
                    return ('space' if v[:1].isspace() else 'word', v)
                return 'word', norm(a)[:30]
            if f in ('self.visit', 'self.visit_list') or f.startswith(
                    'self.visit_') or f.startswith('self._visit'):
                return 'subtree', f
        if isinstance(st, ast.Assign) and any(
                norm(t) == 'self.new_lines' for t in st.targets):
            return 'space', 'new_lines'
    return None, ''


def unnamed_object_separator_rule(repo, ctx, gen, rule):
    """The DDL object helpers write `<VERB> <object keywords>`, then -- only
    when the object is named -- a blank and the name, then whatever the
    caller's `after_name` callback prints.  With `named=False` nothing
    separates the last keyword from the callback's first output, so that
    output has to begin with white space itself; otherwise the keyword and
    the next token fuse (`alter castfrom std::str`, `index match
    forstd::str`) and the printed text does not lex back into the same
    tokens."""
    ctx.floor(rule, 4)
    n = 0
    for name, f in sorted(gen.methods.items()):
        for c in ast.walk(f.node):
            if not (isinstance(c, ast.Call) and norm(c.func) in (
                    'self._visit_CreateObject', 'self._visit_AlterObject',
                    'self._visit_DropObject')):
                continue
            from ..model import kwarg
            nk = kwarg(c, 'named')
            an = kwarg(c, 'after_name')
            if not (isinstance(nk, ast.Constant) and nk.value is False) \
                    or an is None:
                continue
            cb = None
            if isinstance(an, ast.Name):
                for x in ast.walk(f.node):
                    if isinstance(x, ast.FunctionDef) and x.name == an.id:
                        cb = x
            elif isinstance(an, ast.Lambda):
                cb = ast.FunctionDef(name='<lambda>', args=an.args,
                                     body=[ast.Expr(value=an.body)],
                                     decorator_list=[])
            if cb is None:
                raise AnalysisError(f'{rule}: after_name callback of {name} '
                                    f'not resolvable')
            kind, what = _first_write(cb)
            if kind is None:
                raise AnalysisError(f'{rule}: first output of the '
                                    f'after_name callback of {name} not '
                                    f'recognised')
            n += 1
            ctx.saw(f)
            kws = [a.value for a in c.args[1:]
                   if isinstance(a, ast.Constant)]
            ctx.ob(rule, f'{name}:separator-after-keywords', kind == 'space',
                   f'{name} prints the object keywords {kws} with '
                   f'named=False and its after_name callback starts with '
                   f'{"the word " + repr(what) if kind == "word" else "a sub-tree (" + what + ")"}'
                   f': nothing separates `{kws[-1] if kws else "?"}` from '
                   f'what follows, the two fuse into one token and the '
                   f'printed statement does not parse back',
                   f'{f.module.rel()}:{c.lineno}',
                   sample=f'{kws} + {kind}:{what[:20]}')
    if n < 4:
        raise AnalysisError(f'{rule}: only {n} unnamed DDL object visitors')



def all_abbreviation_rule(repo: Repo, ctx, gen, rule: str) -> None:
    """the printer abbreviates a list of kinds to `all` only when the list
    *is* the whole enumeration.  The guard has to imply set equality: an
    equality with the enumeration's listing, or an equality of lengths when
    the list cannot hold duplicates by construction (a comprehension that
    filters the enumeration, a set).  The grammar accepts a kind more than
    once (`allow select, select, insert`), so a length test on a list that
    keeps duplicates prints `all` for a policy that does not allow all."""
    ctx.floor(rule, 1)
    n = 0
    for name, f in sorted(gen.methods.items()):
        rets = [r for r in ast.walk(f.node) if isinstance(r, ast.Return)
                and isinstance(r.value, ast.Constant)
                and r.value.value == 'all']
        if not rets:
            continue
        ctx.saw(f)
        defs: Dict[str, List[ast.AST]] = {}
        for st in ast.walk(f.node):
            if isinstance(st, ast.Assign) and len(st.targets) == 1 and \
                    isinstance(st.targets[0], ast.Name):
                defs.setdefault(st.targets[0].id, []).append(st.value)

        def enum_listing(e) -> Optional[str]:
            # list(E) / tuple(E) / E / [*E] with E an enum reference
            if isinstance(e, ast.Call) and norm(e.func) in (
                    'list', 'tuple', 'set', 'frozenset') and len(e.args) == 1:
                return enum_listing(e.args[0])
            if isinstance(e, ast.Attribute) and e.attr[:1].isupper():
                return norm(e)
            if isinstance(e, ast.Name) and e.id in defs and \
                    len(defs[e.id]) == 1:
                return enum_listing(defs[e.id][0])
            return None

        def no_duplicates(e, depth=3) -> Optional[bool]:
            if isinstance(e, ast.ListComp) and len(e.generators) == 1:
                return enum_listing(e.generators[0].iter) is not None
            if isinstance(e, (ast.Set, ast.SetComp)):
                return True
            if isinstance(e, ast.Call):
                fn = norm(e.func)
                if fn in ('set', 'frozenset', 'dict.fromkeys'):
                    return True
                if fn in ('sorted', 'list', 'tuple', 'reversed') and e.args:
                    return no_duplicates(e.args[0], depth)
                return None                     # unknown producer
            if isinstance(e, ast.Name):
                if e.id in defs and depth:
                    rs = [no_duplicates(v, depth - 1) for v in defs[e.id]
                          if not (isinstance(v, ast.Name) and v.id == e.id)]
                    if any(r is None for r in rs):
                        return None
                    return bool(rs) and all(rs)
                return False                    # a parameter: as given
            return None
        for r in rets:
            guards = [i for i in ast.walk(f.node) if isinstance(i, ast.If)
                      and any(r is x for st in i.body for x in ast.walk(st))]
            if not guards:
                raise AnalysisError(f"{rule}: {name} returns 'all' "
                                    f"unconditionally")
            t = guards[-1].test
            n += 1
            verdict: Optional[bool] = None
            why = norm(t)[:70]
            if isinstance(t, ast.Compare) and len(t.ops) == 1 and \
                    isinstance(t.ops[0], ast.Eq):
                a, b = t.left, t.comparators[0]
                la = isinstance(a, ast.Call) and norm(a.func) == 'len'
                lb = isinstance(b, ast.Call) and norm(b.func) == 'len'
                if la and lb:
                    ea, eb = enum_listing(a.args[0]), enum_listing(b.args[0])
                    lst = a.args[0] if ea is None else b.args[0]
                    if (ea is None) != (eb is None):
                        verdict = no_duplicates(lst)
                elif not la and not lb:
                    if enum_listing(a) is not None or \
                            enum_listing(b) is not None:
                        verdict = True
            if verdict is None:
                raise AnalysisError(f"{rule}: cannot decide whether the "
                                    f"guard `{why}` of `return 'all'` in "
                                    f"{name} implies that every member is "
                                    f"listed")
            ctx.ob(rule, f'{name}:all-means-every-member', verdict,
                   f"{name} prints `all` when `{why}`, a comparison of "
                   f"lengths on a list that keeps what it was given: a kind "
                   f"listed twice makes up for one that is missing, and the "
                   f"text re-parses to a different set of kinds", f.loc,
                   sample=why)
    if n < 1:
        raise AnalysisError(f"{rule}: no `return 'all'` abbreviation found")
