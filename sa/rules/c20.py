"""C20 — dependency ordering (edb/common/topological.py).

Decides the DFS *shape* clauses R1–R5 of DESIGN §3/C20; does not decide the
soft-cycle tolerance counters.
"""
from __future__ import annotations

import ast

from ..cfg import CFG
from ..model import (AnalysisError, Repo, call_name, dotted, kwarg, norm,
                     walk_no_nested, module_calls, module_nodes)

MOD = 'edb.common.topological'


def _cannot_raise(d: str) -> bool:
    # container bookkeeping that cannot fail for hashable items; `.remove`
    # of an element whose `.add` dominates it cannot raise either (the only
    # removes in this function are the paired ones R1 is about)
    return d in ('len', 'tuple', 'isinstance') or d.endswith(
        ('.add', '.append', '.remove'))


def _mcall(node, recv=None, meth=None):
    """Match `recv.meth(args)` expression statements/calls."""
    if isinstance(node, ast.Expr):
        node = node.value
    if not isinstance(node, ast.Call) or not isinstance(node.func,
                                                        ast.Attribute):
        return None
    r = dotted(node.func.value) or norm(node.func.value)
    if recv is not None and r != recv:
        return None
    if meth is not None and node.func.attr != meth:
        return None
    return r, node.func.attr, node.args


def _is_lookup(e: ast.AST, mapname: str, key: str) -> bool:
    """`m[k]`, `m.get(k, <empty>)` or `m.get(k) or <empty>`: the entries
    recorded for k in m (an absent key has none either way)"""
    if isinstance(e, ast.BoolOp) and isinstance(e.op, ast.Or) and e.values:
        e = e.values[0]
    t = norm(e)
    if t == f'{mapname}[{key}]':
        return True
    return isinstance(e, ast.Call) and norm(e.func) == f'{mapname}.get' \
        and bool(e.args) and norm(e.args[0]) == key


def run(repo: Repo, ctx) -> None:
    ctx.explanation = (
        'Decides shape clauses of the DFS in edb.common.topological.sort_ex: '
        'R1 visiting/visiting_weak add-remove pairing on all exits; R2 an '
        'item is emitted only after the loops over its hard and loop-control '
        'adjacency completed, exactly when marked visited, under the '
        'not-visited guard and after the cycle test; R3 deps/merge feed the '
        'hard adjacency, weak_deps only the weak adjacency, unresolved names '
        'raise unless allowed; R4 every key is visited and the result is '
        'built from the emission order only; R5 callers pass hard/soft sets '
        'to the matching field and never swallow CycleError. Does NOT decide '
        'the soft-cycle tolerance logic (len(visiting_weak) tests).')
    ctx.not_decided = ['soft-cycle tolerance counters',
                       'determinism of OrderedSet iteration itself']
    ctx.assumptions = ['set.add/list.append do not raise; x.remove(item) after a dominating x.add(item) does not raise']

    sort_ex = repo.func(f'{MOD}.sort_ex')
    visit = repo.func(f'{MOD}.sort_ex.visit')
    ctx.saw(sort_ex)
    ctx.saw(visit)
    g = CFG(visit.node, cannot_raise=_cannot_raise)
    loc = lambda n: f'{visit.module.rel()}:{g.nodes[n].lineno}'  # noqa
    item = visit.node.args.args[0].arg

    # ---- R1 pairing -------------------------------------------------
    adds = {}
    removes = {}
    for n in g.nodes:
        if n.kind != 'stmt' or n.ast is None:
            continue
        m = _mcall(n.ast)
        if not m:
            continue
        recv, meth, args = m
        if meth == 'add' and len(args) == 1 and norm(args[0]) == item \
                and recv.startswith('visiting'):
            adds.setdefault(recv, []).append(n.id)
        if meth in ('remove', 'discard') and len(args) == 1 \
                and norm(args[0]) == item and recv.startswith('visiting'):
            removes.setdefault(recv, []).append(n.id)
    ctx.floor('C20.R1', 2)
    if 'visiting' not in adds:
        raise AnalysisError('C20.R1: no visiting.add(item) in sort_ex.visit')
    for recv, add_nodes in sorted(adds.items()):
        for a in add_nodes:
            # condition correlation: if the add is dominated by the T edge of
            # a test on a name that is never reassigned, F edges of tests on
            # the same expression are infeasible afterwards.
            infeasible = set()
            for t in g.nodes:
                if t.kind == 'test' and g.edge_dominates(t.id, 'T', a):
                    cond = norm(t.ast)
                    if not _reassigned(visit.node, cond):
                        for t2 in g.nodes:
                            if t2.kind == 'test' and norm(t2.ast) == cond:
                                infeasible.add((t2.id, 'F'))
            ok = g.always_after(a, removes.get(recv, []),
                                first_labels={'n'}, avoid_edges=infeasible)
            path = None
            if not ok:
                path = g.describe_path(g.path_avoiding(
                    a, {g.exit, g.raise_}, avoid=removes.get(recv, []),
                    first_labels={'n'}))
            ctx.ob('C20.R1', f'{visit.qualname}:{recv}.add', ok,
                   f'{recv}.add({item}) is not matched by {recv}.remove'
                   f'({item}) on every exit', loc(a),
                   sample=f'{recv}.add paired with {len(removes.get(recv, []))}'
                          f' remove copies on all exits',
                   detail={'path': path})

    # ---- R2 emit after hard edges ----------------------------------
    ctx.floor('C20.R2', 5)
    emits = [n.id for n in g.nodes if n.kind == 'stmt' and n.ast is not None
             and (_mcall(n.ast, None, 'append') or (None,))[0] == 'order']
    if not emits:
        raise AnalysisError('C20.R2: order.append(item) not found')
    # loops over the hard adjacency maps whose body recurses
    def loops_over(mapname):
        out = []
        for n in g.nodes:
            if n.kind == 'for' and _is_lookup(n.ast.iter, mapname, item):
                body_calls = [call_name(c) for st in n.ast.body
                              for c in ast.walk(st)
                              if isinstance(c, ast.Call)]
                if visit.name in body_calls:
                    out.append(n.id)
        return out
    hard = loops_over('adj')
    ctrl = loops_over('loop_control')
    weak = loops_over('weak_adj')
    if not hard:
        raise AnalysisError('C20.R2: loop `for n in adj[item]: visit(n)` '
                            'not found')
    for e in emits:
        for nm, loops in (('adj', hard), ('loop_control', ctrl)):
            ok = bool(loops) and all(
                g.edge_dominates(l, 'F', e) for l in loops)
            ctx.ob('C20.R2', f'{visit.qualname}:emit-after-{nm}', ok,
                   f'order.append({item}) is reachable without completing '
                   f'the loop over {nm}[{item}]', loc(e),
                   sample=f'order.append dominated by exhaustion of '
                          f'{nm}[{item}] loop')
        # paired with visited.add(item): emit <=> mark
        marks = [n.id for n in g.nodes if n.kind == 'stmt' and n.ast is not None
                 and _mcall(n.ast, 'visited', 'add')]
        ok = bool(marks) and g.always_after(e, marks, exits={g.exit},
                                            first_labels={'n'}) \
            and all(g.always_before(m, [e]) for m in marks)
        ctx.ob('C20.R2', f'{visit.qualname}:emit-iff-visited', ok,
               'order.append(item) and visited.add(item) are not paired',
               loc(e), sample='order.append <-> visited.add on all normal paths')
        # guarded by `item not in visited`
        # (path fact: for an item already in `visited` the emission is
        # not reachable, whichever way the membership test is written)
        from ..absint import Facts, open_nodes
        Fv = Facts({f'{item} in visited': True}, visit.node)
        onv = open_nodes(g, Fv)
        ok = bool(Fv.used) and e not in onv
        ctx.ob('C20.R2', f'{visit.qualname}:emit-guarded-by-not-visited', ok,
               'order.append(item) not dominated by `item not in visited`',
               loc(e), sample='guard `item not in visited` dominates emission')
        # cycle test precedes and raises CycleError
        cyc = [t.id for t in g.nodes if t.kind == 'test'
               and norm(t.ast) == f'{item} in visiting']
        ok = False
        for t in cyc:
            tsucc = [s for s, lab in g.nodes[t].succ if lab == 'T']
            r = g.reachable([t], labels=None,
                            avoid_edges={(t, 'F')}) | set(tsucc)
            raises = [x for x in r if g.nodes[x].kind == 'stmt'
                      and isinstance(g.nodes[x].ast, ast.Raise)
                      and 'CycleError' in norm(g.nodes[x].ast)]
            # T branch must not reach normal exit or the emission
            if raises and g.exit not in r and e not in r \
                    and g.edge_dominates(t, 'F', e):
                ok = True
        ctx.ob('C20.R2', f'{visit.qualname}:cycle-test-precedes', ok,
               '`item in visiting` -> raise CycleError does not dominate '
               'the emission', loc(e),
               sample='`item in visiting` raises CycleError before any work')
    # the recursion in the weak loop passes weak_link=True, hard loops pass
    # the caller's weak_link through
    for l in weak:
        for st in g.nodes[l].ast.body:
            for c in ast.walk(st):
                if isinstance(c, ast.Call) and call_name(c) == visit.name:
                    v = kwarg(c, 'weak_link')
                    ok = isinstance(v, ast.Constant) and v.value is True
                    ctx.ob('C20.R2', f'{visit.qualname}:weak-recursion-flag',
                           ok, 'recursion over weak_adj does not mark the '
                           'link weak', f'{visit.module.rel()}:{c.lineno}',
                           sample='visit(n, weak_link=True) in weak loop')
    for l in hard + ctrl:
        for st in g.nodes[l].ast.body:
            for c in ast.walk(st):
                if isinstance(c, ast.Call) and call_name(c) == visit.name:
                    v = kwarg(c, 'weak_link')
                    ok = v is not None and norm(v) == 'weak_link'
                    ctx.ob('C20.R2', f'{visit.qualname}:hard-recursion-flag',
                           ok, 'recursion over a hard edge does not '
                           'propagate weak_link unchanged',
                           f'{visit.module.rel()}:{c.lineno}',
                           sample='visit(n, weak_link=weak_link) in hard loop')

    # ---- R3 edge classification ------------------------------------
    ctx.floor('C20.R3', 4)
    expected = {'deps': 'adj', 'merge': 'adj', 'weak_deps': 'weak_adj',
                'loop_control': 'loop_control'}
    seen_fields = {}
    # the graph loop: for item_name, item in graph.items()
    outer = None
    for st in sort_ex.node.body:
        if isinstance(st, ast.For) and 'graph' in norm(st.iter):
            tgt = st.target
            if isinstance(tgt, ast.Tuple) and len(tgt.elts) == 2:
                outer = st
                break
    if outer is None:
        raise AnalysisError('C20.R3: graph.items() loop not found in sort_ex')
    key_var = norm(outer.target.elts[0])
    ent_var = norm(outer.target.elts[1])
    for lp in [n for n in ast.walk(outer) if isinstance(n, ast.For)
               and n is not outer]:
        it = norm(lp.iter)
        if not it.startswith(ent_var + '.'):
            continue
        field = it[len(ent_var) + 1:]
        var = norm(lp.target)
        sinks = set()
        raises_unresolved = False
        guard_ok = False
        def alias_of(name, lp=lp):
            """the map a local stands for when every binding of it in the
            loop is `M[key]`, `M.get(key..)`, `M.setdefault(key..)` or
            `x = M[key] = <new set>` (fetch-or-create)"""
            maps = set()
            for a in ast.walk(lp):
                if isinstance(a, ast.Assign) and any(
                        norm(t) == name for t in a.targets):
                    m_ = None
                    for c_ in [a.value] + [t for t in a.targets
                                           if norm(t) != name]:
                        if isinstance(c_, ast.Subscript) and norm(
                                c_.slice) == key_var:
                            m_ = norm(c_.value)
                        elif isinstance(c_, ast.Call) and isinstance(
                                c_.func, ast.Attribute) and c_.func.attr in (
                                'get', 'setdefault') and c_.args and norm(
                                c_.args[0]) == key_var:
                            m_ = norm(c_.func.value)
                    if m_ is None:
                        return None
                    maps.add(m_)
            return maps.pop() if len(maps) == 1 else None
        aliases = {}
        for c in ast.walk(lp):
            if isinstance(c, ast.Call) and isinstance(c.func, ast.Attribute) \
                    and c.func.attr == 'add' and len(c.args) == 1 \
                    and norm(c.args[0]) == var:
                recv = c.func.value
                if isinstance(recv, ast.Subscript) \
                        and norm(recv.slice) == key_var:
                    sinks.add(norm(recv.value))
                elif isinstance(recv, ast.Name) and alias_of(recv.id):
                    aliases[recv.id] = alias_of(recv.id)
                    sinks.add(aliases[recv.id])
                else:
                    sinks.add(norm(recv))
        for n in ast.walk(lp):
            if isinstance(n, ast.If):
                # if X in graph: add  elif not allow_unresolved: raise
                if norm(n.test) == f'{var} in graph':
                    oe = n.orelse
                    if len(oe) == 1 and isinstance(oe[0], ast.If) \
                            and norm(oe[0].test) == 'not allow_unresolved' \
                            and any(isinstance(x, ast.Raise)
                                    and 'UnresolvedReferenceError' in norm(x)
                                    for x in oe[0].body):
                        raises_unresolved = True
                    guard_ok = True
        # every element that is a key of the graph reaches the add: the only
        # tests on the way are `<var> in graph` / `allow_unresolved`, and the
        # loop has no continue / break
        extra_guards = []
        for n in ast.walk(lp):
            if isinstance(n, (ast.Continue, ast.Break)):
                extra_guards.append(type(n).__name__.lower())
            if isinstance(n, ast.If):
                t = norm(n.test)
                if t not in (f'{var} in graph', 'not allow_unresolved',
                             'allow_unresolved', f'{var} not in graph') \
                        and not any(t in (f'{a_} is None', f'not {a_}',
                                          f'{a_} is not None', a_)
                                    for a_ in aliases):
                    extra_guards.append(t)
        ctx.ob('C20.R3', f'{sort_ex.qualname}:every-resolved={field}',
               not extra_guards,
               f'the loop over DepGraphEntry.{field} skips elements under '
               f'{extra_guards}: a declared edge to a key of the graph is '
               f'dropped (an item can be emitted before something it '
               f'depends on, or a real cycle goes unreported)',
               f'{sort_ex.module.rel()}:{lp.lineno}',
               sample=f'{field}: only `in graph` decides')
        seen_fields[field] = sinks
        exp = expected.get(field)
        ok = exp is not None and sinks == {exp}
        ctx.ob('C20.R3', f'{sort_ex.qualname}:field={field}', ok,
               f'DepGraphEntry.{field} flows into {sorted(sinks)}, expected '
               f'only {exp}', f'{sort_ex.module.rel()}:{lp.lineno}',
               sample=f'{field} -> {sorted(sinks)}')
        ctx.ob('C20.R3', f'{sort_ex.qualname}:unresolved={field}',
               guard_ok and raises_unresolved,
               f'unresolved {field} reference does not raise unless '
               f'allow_unresolved', f'{sort_ex.module.rel()}:{lp.lineno}',
               sample=f'{field}: `in graph` guard + UnresolvedReferenceError')
    for f in ('deps', 'merge', 'weak_deps'):
        if f not in seen_fields:
            ctx.fail('C20.R3', f'{sort_ex.qualname}:field={f}',
                     f'DepGraphEntry.{f} is not fed into any adjacency map',
                     sort_ex.loc)
    # the DepGraphEntry class still has those fields
    dge = repo.cls(f'{MOD}.DepGraphEntry')
    init = dge.methods.get('__init__')
    if init is None:
        raise AnalysisError('DepGraphEntry.__init__ not found')
    params = set(init.params())
    for f in ('deps', 'merge', 'weak_deps', 'loop_control', 'item'):
        if f not in params:
            raise AnalysisError(f'DepGraphEntry.__init__ has no `{f}`')

    # ---- R3b deterministic traversal -------------------------------------
    # every container whose iteration order drives the traversal is
    # insertion-ordered (OrderedSet / list / dict), never a hash-ordered set
    for mp in ('adj', 'weak_adj', 'loop_control'):
        inits = [n for n in sort_ex.node.body
                 if isinstance(n, (ast.Assign, ast.AnnAssign))
                 and norm(n.targets[0] if isinstance(n, ast.Assign)
                          else n.target) == mp]
        ok = len(inits) == 1 and norm(inits[0].value) == \
            'defaultdict(OrderedSet)'
        if not ok and len(inits) == 1 and norm(inits[0].value) in (
                '{}', 'dict()'):
            # a plain dict: the per-key containers are made where entries
            # are stored; look at what is stored under the map
            ctors = set()
            for a in ast.walk(sort_ex.node):
                if isinstance(a, ast.Assign):
                    for t in a.targets:
                        if isinstance(t, ast.Subscript) and norm(
                                t.value) == mp and isinstance(
                                a.value, ast.Call):
                            ctors.add(norm(a.value.func))
                if isinstance(a, ast.Call) and isinstance(
                        a.func, ast.Attribute) and a.func.attr == \
                        'setdefault' and norm(a.func.value) == mp and \
                        len(a.args) == 2 and isinstance(a.args[1], ast.Call):
                    ctors.add(norm(a.args[1].func))
            if not ctors:
                raise AnalysisError(
                    f'C20.R3: {mp} is a plain dict and no per-key container '
                    f'construction was found: cannot decide the order')
            ok = ctors == {'OrderedSet'}
        ctx.ob('C20.R3', f'{sort_ex.qualname}:ordered-adjacency={mp}', ok,
               f'adjacency map {mp} is initialised as '
               f'{norm(inits[0].value) if inits else None}: iterating a '
               f'hash-ordered set makes the result depend on the hash seed '
               f'(not deterministic for a given input)', sort_ex.loc,
               sample='defaultdict(OrderedSet)')
    vis = [n for n in sort_ex.node.body
           if isinstance(n, (ast.Assign, ast.AnnAssign))
           and norm(n.targets[0] if isinstance(n, ast.Assign)
                    else n.target) == 'visiting']
    ok = len(vis) == 1 and norm(vis[0].value) == 'OrderedSet()'
    ctx.ob('C20.R3', f'{sort_ex.qualname}:ordered-visiting', ok,
           '`visiting` is not an OrderedSet: the item reported in a '
           'CycleError would depend on hash order', sort_ex.loc,
           sample='OrderedSet()')

    # ---- R4 driver --------------------------------------------------
    ctx.floor('C20.R4', 2)
    driver = [st for st in sort_ex.node.body if isinstance(st, ast.For)
              and norm(st.iter) == 'graph']
    ok = False
    for st in driver:
        if len(st.body) == 1 and _mcall(st.body[0]) is None:
            c = st.body[0]
            if isinstance(c, ast.Expr) and isinstance(c.value, ast.Call) \
                    and call_name(c.value) == 'visit' \
                    and len(c.value.args) == 1 and not c.value.keywords \
                    and norm(c.value.args[0]) == norm(st.target) \
                    and not st.orelse:
                ok = True
    ctx.ob('C20.R4', f'{sort_ex.qualname}:driver-visits-every-key', ok,
           '`for key in graph: visit(key)` (unconditional, default flags) '
           'not found', sort_ex.loc, sample='for key in graph: visit(key)')
    rets = [n for n in walk_no_nested(sort_ex.node)
            if isinstance(n, ast.Return)]
    ok = len(rets) == 1 and rets[0].value is not None
    if ok:
        r = rets[0].value
        gens = [x for x in ast.walk(r) if isinstance(x, ast.comprehension)]
        ok = len(gens) == 1 and norm(gens[0].iter) == 'order' \
            and not gens[0].ifs
    ctx.ob('C20.R4', f'{sort_ex.qualname}:result-from-order', ok,
           'sort_ex result is not built by one unfiltered pass over `order`',
           sort_ex.loc, sample='return (... for key in order)')
    # order is only ever appended to in visit
    writers = []
    for n in ast.walk(sort_ex.node):
        if isinstance(n, ast.Call) and isinstance(n.func, ast.Attribute) \
                and norm(n.func.value) == 'order' \
                and n.func.attr not in ('append',):
            writers.append(n.func.attr)
        if isinstance(n, (ast.Assign, ast.AugAssign, ast.Delete)):
            tg = n.targets if hasattr(n, 'targets') else [n.target]
            for t in tg:
                if norm(t).startswith('order[') or (
                        norm(t) == 'order' and not (
                            isinstance(n, ast.Assign)
                            and norm(n.value) == '[]')):
                    writers.append('assign')
    ctx.ob('C20.R4', f'{sort_ex.qualname}:order-append-only', not writers,
           f'`order` is modified other than by append: {writers}',
           sort_ex.loc, sample='order only appended')
    # sort() returns the items of sort_ex in order
    srt = repo.func(f'{MOD}.sort')
    ctx.saw(srt)
    txt = norm(srt.node)
    ok = 'sort_ex(graph, allow_unresolved=allow_unresolved)' in txt and \
        any(isinstance(n, ast.Return) and 'for i in items' in norm(n)
            and 'sorted' not in norm(n) and 'reversed' not in norm(n)
            for n in ast.walk(srt.node))
    ctx.ob('C20.R4', f'{srt.qualname}:delegates', ok,
           'sort() does not return sort_ex items in order', srt.loc,
           sample='sort -> tuple(i[1].item for i in sort_ex(...))')

    # ---- R5 callers -------------------------------------------------
    ctx.floor('C20.R5', 4)
    n_sites = 0
    for m in repo.modules_in('edb'):
        if m.name.startswith('edb.tools'):
            continue
        for c in module_calls(m).get('DepGraphEntry', []):
            if True:
                d = dotted(c.func)
                if d and d.split('.')[-1] == 'DepGraphEntry':
                    n_sites += 1
                    bad = []
                    for k in c.keywords:
                        if k.arg in ('deps', 'merge') and \
                                'weak' in norm(k.value).lower():
                            bad.append(k.arg)
                        if k.arg == 'weak_deps':
                            v = norm(k.value).lower()
                            # a weak_deps argument must be named weak/soft or
                            # be an empty container
                            if not ('weak' in v or 'soft' in v
                                    or v in ('ordered.orderedset()',
                                             'orderedset()', 'set()')):
                                bad.append(k.arg)
                    ctx.ob('C20.R5',
                           f'{m.name}:DepGraphEntry@{_enclosing(m, c)}',
                           not bad,
                           f'hard/soft argument crossing in {bad}',
                           f'{m.rel()}:{c.lineno}',
                           sample={k.arg: norm(k.value)[:60]
                                   for k in c.keywords})
    # CycleError handlers outside topological.py must re-raise on every path
    for m in repo.modules_in('edb'):
        if m.name == MOD:
            continue
        for t in module_nodes(m, ast.Try):
            if not any(h.type is not None and 'CycleError' in norm(h.type)
                       for h in t.handlers):
                continue
            fn = repo.enclosing_function(m, t)
            if fn is None:
                continue
            if True:
                if True:
                    for h in t.handlers:
                        if h.type is not None and 'CycleError' in norm(h.type):
                            hg = CFG(_Wrap(h.body))
                            swallowed = hg.exit in hg.reachable([hg.entry])
                            ctx.saw(fn)
                            ctx.ob('C20.R5',
                                   f'{fn.qualname}:except-CycleError',
                                   not swallowed,
                                   'CycleError handler can complete without '
                                   'raising (cycle swallowed)',
                                   f'{m.rel()}:{h.lineno}',
                                   sample='handler re-raises on every path')

    _r6(repo, ctx)
    _r7(repo, ctx)
    _r8(repo, ctx, visit)


def _r6(repo: Repo, ctx) -> None:
    """What the callers hand to the sorter."""
    from ..absint import Facts, open_nodes
    ctx.floor('C20.R6', 5)
    # (a) the entry keeps the caller's containers (identity), defaulting only
    #     a missing one: callers fill them after construction and rely on
    #     their iteration order
    init = repo.func('edb.common.topological.DepGraphEntry.__init__')
    ctx.saw(init)
    g = CFG(init.node)
    for fld in ('deps', 'loop_control', 'weak_deps'):
        F = Facts({f'{fld} is None': False}, init.node)
        on = open_nodes(g, F)
        vals = [norm(leaf) for i in sorted(on)
                if g.nodes[i].kind == 'stmt' and isinstance(
                    g.nodes[i].ast, ast.Assign) and norm(
                    g.nodes[i].ast.targets[0]) == f'self.{fld}'
                for leaf in F.leaves(g.nodes[i].ast.value)]
        ok = vals == [fld]
        ctx.ob('C20.R6', f'DepGraphEntry.__init__:{fld}-kept', ok,
               f'for a caller-supplied {fld} container the entry stores '
               f'`{vals}`, not the container itself: an empty (ordered) set '
               f'passed in and filled later is replaced by a private plain '
               f'set, so later additions are lost and iteration order '
               f'becomes hash order', init.loc, sample=vals)
    # (b) sorting by inheritance uses the transitive relation: the input may
    #     skip intermediate types
    sbi = repo.func('edb.schema.delta.sort_by_inheritance')
    ctx.saw(sbi)
    ctor = [c for c in ast.walk(sbi.node) if isinstance(c, ast.Call)
            and (call_name(c) or '').endswith('DepGraphEntry')]
    if len(ctor) != 1:
        raise AnalysisError('C20.R6: sort_by_inheritance graph construction '
                            'not found')
    d = kwarg(ctor[0], 'deps')
    dt = norm(d) if d is not None else ''
    ok = '.get_ancestors(' in dt and '.get_bases(' not in dt
    ctx.ob('C20.R6', 'sort_by_inheritance:transitive', ok,
           f'sort_by_inheritance orders by `{dt[:60]}`: with direct bases '
           f'only, two input objects related through a type that is not in '
           f'the input are unordered (descendant may come first)', sbi.loc,
           sample=dt[:60])
    srt = [c for c in ast.walk(sbi.node) if isinstance(c, ast.Call)
           and (call_name(c) or '').endswith('topological.sort')]
    ok = bool(srt) and norm(kwarg(srt[0], 'allow_unresolved') or
                            ast.Constant(False)) == 'True'
    ctx.ob('C20.R6', 'sort_by_inheritance:allow_unresolved', ok,
           'ancestors outside the input must be tolerated', sbi.loc,
           sample='allow_unresolved=True')
    # (c) hard dependency sets handed to the sorter are only ever extended
    ri = repo.func('edb.edgeql.declarative._register_item')
    ctx.saw(ri)
    shrink = []
    for n in ast.walk(ri.node):
        if isinstance(n, ast.Call) and isinstance(n.func, ast.Attribute) \
                and n.func.attr in ('discard', 'remove', 'pop', 'clear',
                                    'difference_update',
                                    'intersection_update') and norm(
                    n.func.value) in ('deps', 'node.deps'):
            shrink.append(norm(n))
        if isinstance(n, ast.AugAssign) and norm(n.target) in (
                'deps', 'node.deps') and isinstance(
                n.op, (ast.Sub, ast.BitAnd)):
            shrink.append(norm(n))
        if isinstance(n, ast.Assign) and norm(n.targets[0]) in (
                'deps', 'node.deps') and isinstance(
                n.value, ast.BinOp) and isinstance(
                n.value.op, (ast.Sub, ast.BitAnd)):
            shrink.append(norm(n))
    ctx.ob('C20.R6', '_register_item:hard-deps-only-grow', not shrink,
           f'_register_item removes entries from a hard dependency set '
           f'({shrink}): an edge the tracer found is withheld from the '
           f'sorter, so a cycle through it is not reported and the order '
           f'may violate it', ri.loc, sample='no removal from deps')
    merges = [n for n in ast.walk(ri.node) if isinstance(n, ast.AugAssign)
              and norm(n.target) == 'node.deps'
              and isinstance(n.op, ast.BitOr) and norm(n.value) == 'deps']
    ctx.ob('C20.R6', '_register_item:deps-reach-node', len(merges) == 1,
           'the computed dependency set is not merged into the graph node',
           ri.loc, sample='node.deps |= deps')


def _r7(repo: Repo, ctx) -> None:
    """(a) OrderedSet keeps its own insertion order: a method that rebuilds
           the backing map draws the keys from the set itself, the argument
           only filters (the sorter's inputs are narrowed with `&=`);
       (b) a self-reference seen for any element is reported: the flag is
           only ever set inside the loop, never reset;
       (c) in the delta linearizer the forward rename map (old -> new) is
           only consulted with a command's own (old) class name; names read
           from the new schema are translated back through the reverse
           map."""
    ctx.floor('C20.R7', 3)
    # (a)
    oc = repo.classes.get('edb.common.ordered.OrderedSet')
    if oc is None:
        raise AnalysisError('C20.R7: OrderedSet not found')
    GROW = {'__init__', 'update', 'add', '__ior__', 'copy'}
    n_m = 0
    for st in oc.node.body:
        if not isinstance(st, ast.FunctionDef):
            continue
        n_m += 1
        if st.name in GROW:
            continue
        params = [a.arg for a in st.args.args[1:]]
        for a in ast.walk(st):
            if not (isinstance(a, ast.Assign) and norm(a.targets[0]) in (
                    'self.map',)):
                continue
            comps = [c for c in ast.walk(a.value) if isinstance(
                c, (ast.DictComp, ast.ListComp, ast.SetComp,
                    ast.GeneratorExp))]
            for c in comps:
                it = norm(c.generators[0].iter)
                ok = it.startswith('self') and not any(
                    it == p_ or it.startswith(p_ + '.') for p_ in params)
                ctx.ob('C20.R7', f'OrderedSet.{st.name}:keeps-own-order', ok,
                       f'OrderedSet.{st.name} rebuilds the set by iterating '
                       f'`{it}`: the result takes the (hash) order of the '
                       f'other operand, so dependency sets narrowed with '
                       f'`&= set(...)` reach the sorter in an order that '
                       f'differs between processes', f'edb/common/ordered.py'
                       f':{st.lineno}', sample=it)
            if not comps and any(isinstance(x, ast.Name) and x.id in params
                                 for x in ast.walk(a.value)) and not any(
                    'self' in norm(x) for x in ast.walk(a.value)
                    if isinstance(x, ast.Attribute)):
                ctx.fail('C20.R7', f'OrderedSet.{st.name}:keeps-own-order',
                         f'OrderedSet.{st.name} replaces the backing map by '
                         f'`{norm(a.value)[:50]}`', f'edb/common/ordered.py'
                         f':{st.lineno}')
    inher = [norm(st) for st in oc.node.body if isinstance(st, ast.Assign)
             and 'MutableSet.__i' in norm(st.value)]
    ctx.ob('C20.R7', 'OrderedSet:in-place-operators', n_m >= 8, '',
           'edb/common/ordered.py', nontrivial=False,
           sample=f'{n_m} methods; inherited in-place operators (element-'
                  f'wise discard/add on self): {len(inher)}')
    # (b)
    sk = repo.func('edb.schema.delta.sort_by_cross_refs_key')
    ctx.saw(sk)
    raises = [r for r in ast.walk(sk.node) if isinstance(r, ast.If)
              and any(isinstance(x, ast.Raise) for x in r.body)
              and isinstance(r.test, ast.Name)]
    if len(raises) != 1:
        raise AnalysisError('C20.R7: self-reference report of '
                            'sort_by_cross_refs_key not found')
    flag = raises[0].test.id
    loops = [l for l in ast.walk(sk.node) if isinstance(l, ast.For)]
    sets = [(l, a) for l in loops for a in ast.walk(l)
            if isinstance(a, ast.Assign) and norm(a.targets[0]) == flag]
    if not sets:
        raise AnalysisError(f'C20.R7: `{flag}` is never set in the loop')
    for l, a in sets:
        cond = a not in l.body and not isinstance(a.value, ast.IfExp)
        falsy = isinstance(a.value, ast.Constant) and not a.value.value
        ctx.ob('C20.R7', f'sort_by_cross_refs_key:{flag}-sticky',
               cond and not falsy,
               f'`{norm(a)[:50]}` runs for every element: an element '
               f'without self-reference clears `{flag}`, so a '
               f'self-referencing object is reported only when it is the '
               f'last one in the input', sk.loc,
               sample=f'{flag} set under a condition, never cleared')
    # (c)
    to = repo.func('edb.schema.ordering._trace_op')
    ctx.saw(to)
    P = to.params()
    if 'renames' not in P or 'renames_r' not in P:
        raise AnalysisError('C20.R7: rename maps of _trace_op not found')
    n_f = 0
    for x in ast.walk(to.node):
        key = None
        if isinstance(x, ast.Subscript) and norm(x.value) == 'renames':
            key = x.slice
        elif isinstance(x, ast.Call) and norm(x.func) in (
                'renames.get', 'renames.__getitem__') and x.args:
            key = x.args[0]
        elif isinstance(x, ast.Compare) and isinstance(
                x.ops[0], (ast.In, ast.NotIn)) and norm(
                x.comparators[0]) == 'renames':
            key = x.left
        if key is None:
            continue
        n_f += 1
        ok = isinstance(key, ast.Attribute) and key.attr == 'classname'
        ctx.ob('C20.R7', f'_trace_op:forward-rename-key@L'
               f'{x.lineno - to.node.lineno}', ok,
               f'_trace_op looks `{norm(key)}` up in the forward rename map '
               f'(old -> new): a name read from the new schema is a new '
               f'name and must go through renames_r, otherwise the '
               f'dependency is filed under a key that is dropped before '
               f'sorting and a renamed referrer is altered before the '
               f'object it now refers to is created', to.loc,
               sample=norm(x)[:60])
    if n_f < 1:
        raise AnalysisError('C20.R7: no forward rename lookup in _trace_op')


def _r8(repo: Repo, ctx, visit) -> None:
    """C20.R8 necessary conditions of the soft-cycle tolerance (the counters
    themselves stay undecided).  A CycleError raised below a weak edge must
    travel up to the frame that was entered through the *first* weak edge;
    every frame in between was entered with the same inherited flag (hard
    edges pass weak_link on unchanged), so a swallow decision that reads
    only parameters forwarded unchanged along hard edges cannot tell those
    frames apart and would swallow the error in each of them: the item that
    closes the cycle is then emitted after its dependent, or never."""
    ctx.floor('C20.R8', 1)
    fn = visit.node
    params = {a.arg for a in fn.args.args + fn.args.kwonlyargs}
    # parameters forwarded unchanged in every recursive call outside the
    # weak loop
    unchanged = set(params)
    rec = [c for c in ast.walk(fn) if isinstance(c, ast.Call)
           and call_name(c) == visit.name]
    hard_calls = [c for c in rec if not (
        isinstance(kwarg(c, 'weak_link'), ast.Constant))]
    for c in hard_calls:
        for p in list(unchanged):
            v = kwarg(c, p)
            if v is None or norm(v) != p:
                unchanged.discard(p)
    # (the visited item itself differs per frame)
    unchanged.discard(fn.args.args[0].arg)
    n = 0
    # (the handler around the weak loop runs in the frame that *owns* the
    # weak edge: there the frame's own flag does decide, so only the handler
    # of the outermost try, which wraps the hard-edge loops, is examined)
    for tr in [_outer_try(fn)]:
        for h in (tr.handlers if tr is not None else []):
            if h.type is None or 'CycleError' not in norm(h.type):
                continue
            # the decision: an `if` whose one arm re-raises
            for st in h.body:
                if not isinstance(st, ast.If):
                    continue
                arms = [st.body, st.orelse]
                if not any(any(isinstance(x, ast.Raise) and x.exc is None
                               for x in a) for a in arms):
                    continue
                n += 1
                reads = {x.id for x in ast.walk(st.test)
                         if isinstance(x, ast.Name)}
                frame_only = bool(reads) and reads <= unchanged
                ctx.ob('C20.R8',
                       f'{visit.qualname}:swallow-decision@outer',
                       not frame_only,
                       f'the decision to ignore a CycleError reads only '
                       f'{sorted(reads)}, which every frame below a weak '
                       f'edge shares (hard edges forward it unchanged): the '
                       f'error is swallowed in the innermost such frame '
                       f'instead of the one entered through the weak edge, '
                       f'and a hard cycle below a weak edge is not reported',
                       f'{visit.module.rel()}:{st.lineno}',
                       sample=norm(st.test))
    if n < 1:
        raise AnalysisError('C20.R8: the CycleError swallow decision of '
                            'sort_ex.visit was not found')
    # deps of sort_by_cross_refs_key: referrers are in key space; the only
    # admissible filters are the parent-reference and self-reference
    # exclusions and membership in a container of *keys*
    sk = repo.func('edb.schema.delta.sort_by_cross_refs_key')
    keyp = 'key'
    for c in ast.walk(sk.node):
        if not (isinstance(c, ast.Call) and any(
                k.arg == 'deps' for k in c.keywords)):
            continue
        d = kwarg(c, 'deps')
        if not isinstance(d, (ast.SetComp, ast.ListComp, ast.GeneratorExp)):
            continue
        var = norm(d.generators[0].target)
        for cond in [x for g_ in d.generators for i in g_.ifs
                     for x in (i.values if isinstance(i, ast.BoolOp) and
                               isinstance(i.op, ast.And) else [i])]:
            t = norm(cond)
            ok = 'is_parent_ref' in t or t in (f'x != {var}', f'{var} != x')
            if not ok and isinstance(cond, ast.Compare) and isinstance(
                    cond.ops[0], ast.In) and norm(cond.left) == var:
                cont = norm(cond.comparators[0])
                # a container built by applying `key` to the inputs
                for a in ast.walk(sk.node):
                    if isinstance(a, ast.Assign) and norm(
                            a.targets[0]) == cont and f'{keyp}(' in norm(
                            a.value):
                        ok = True
                if cont == 'graph':
                    ok = True
            ctx.ob('C20.R8', f'sort_by_cross_refs_key:deps-filter={t[:40]}',
                   ok,
                   f'referrers (schema objects, i.e. keys) are filtered by '
                   f'`{t}`: unless that container holds keys, every '
                   f'dependency is dropped when the key is not the '
                   f'identity and the input order is returned', sk.loc,
                   sample=t)


def _outer_try(fn):
    """the try statement that wraps the hard-edge loops (the outermost)"""
    trs = [t for t in ast.walk(fn) if isinstance(t, ast.Try)]
    inner = {id(x) for t in trs for x in ast.walk(t) if x is not t and
             isinstance(x, ast.Try)}
    for t in trs:
        if id(t) not in inner:
            return t
    return None


class _Wrap:
    def __init__(self, body):
        self.body = body


def _reassigned(fn: ast.AST, name: str) -> bool:
    for n in walk_no_nested(fn):
        if isinstance(n, (ast.Assign, ast.AugAssign, ast.AnnAssign)):
            tg = n.targets if isinstance(n, ast.Assign) else [n.target]
            for t in tg:
                if norm(t) == name:
                    return True
    return False


def _enclosing(m, node) -> str:
    best = None
    for n in ast.walk(m.tree):
        if isinstance(n, (ast.FunctionDef, ast.AsyncFunctionDef)):
            if n.lineno <= node.lineno <= (n.end_lineno or n.lineno):
                if best is None or n.lineno >= best.lineno:
                    best = n
    return best.name if best else '<module>'
