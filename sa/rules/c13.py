"""C13 — generated SQL is parameter-consistent and deterministic (the
scoping clause is not decidable from source shape).

  R1 no nondeterminism source in the SQL compiler / code generators
  R2 no *new* order-sensitive iteration over hash-ordered containers
  R3 ParamRef numbers come only from the argmap; argmap numbering shape
  R4 alias generator is a pure per-hint counter
  R5 SQL printer covers every field the compiler sets on pgast nodes
"""
from __future__ import annotations

import ast
from typing import Dict, List, Optional, Set, Tuple

from .. import visitors as V
from ..cfg import CFG
from ..model import (AnalysisError, FuncInfo, Repo, call_name, dotted, kwarg,
                     module_calls, norm, walk_no_nested)

PGC = 'edb.pgsql.compiler'
SCOPE_MODS = ['edb.pgsql.codegen', 'edb.common.compiler',
              'edb.common.ast.codegen']
PGAST = 'edb.pgsql.ast'

NONDET_CALLS = ('random.', 'secrets.', 'os.urandom', 'uuid.uuid1',
                'uuid.uuid4', 'uuidgen.uuid4', 'uuidgen.uuid1mc',
                'time.time', 'time.monotonic', 'time.perf_counter',
                'time.time_ns', 'datetime.now', 'datetime.datetime.now',
                'datetime.utcnow')
NONDET_BUILTINS = ('id', 'hash')

# audited baseline of set iterations (function, iterable) -> reason.  This
# is an audit, NOT a proof of determinism for the listed sites.
SET_ITER_BASELINE = {
    ('edb.pgsql.compiler.clauses._compile_materialized_expr', 'mat_ids'):
        'registers one and the same rvar under every id; no emission order',
    ('edb.pgsql.compiler.relctx._pull_path_namespace', 's_paths'):
        'fills path maps keyed by (path_id, aspect); insertion order of '
        'those dicts is not printed',
    # (path_bonds of _plain_join / _lateral_union_join: shown to differ
    # between processes, repaired by making the field insertion-ordered;
    # no longer excused here)
    ('edb.pgsql.compiler.relctx.range_for_ptrref', 'component_refs'):
        'UNION arm order follows a set of PointerRef (hash mixes the class '
        'object): stable within a process; cannot be shown here',
    ('edb.pgsql.compiler.relgen.process_set_as_link_property_ref',
     'rptr_specialization'):
        'builds a set of ids; order-insensitive',
    ('edb.pgsql.compiler.dml.init_dml_stmt', 'top_typeref.union'):
        'FrozenSet[TypeRef]; TypeRef hashes by its uuid id: iteration '
        'order is process-independent',
    ('edb.pgsql.compiler.expr.compile_TypeCheckOp', 'expr.right.union'):
        'same: FrozenSet[TypeRef] hashed by id',
    ('edb.pgsql.compiler.relctx.range_for_typeref', 'typeref.union'):
        'same: FrozenSet[TypeRef] hashed by id',
    ('edb.pgsql.compiler.stmt.compile_SelectStmt',
     '{pgce.PathAspect.IDENTITY, pgce.PathAspect.VALUE}'):
        'two enum members, only used as dict keys',
    ('edb.pgsql.compiler.relctx.range_for_ptrref',
     'ptrref.intersection_components'):
        'next(iter(..)): picks an arbitrary component of an intersection '
        'pointer ("we just pick any one of them"); every choice is a valid '
        'table, which one may differ between processes (same candidate as '
        'component_refs)',
    ('edb.pgsql.compiler.relctx.add_type_rel_overlay', 'typeref.ancestors'):
        'FrozenSet[TypeRef] hashed by id; one overlay entry per ancestor, '
        'keyed by that ancestor',
    ('edb.pgsql.compiler.relctx.add_ptr_rel_overlay', 'typeref.ancestors'):
        'same as add_type_rel_overlay',
    ('edb.pgsql.compiler.relctx.include_specific_rvar', 'aspects'):
        'callers in relgen pass a set display of PathAspect members; the '
        'loop only registers the rvar in maps keyed by (path_id, aspect)',
}

# pgast fields that never have a textual form
PG_META_FIELDS = {
    'span', 'nullable', 'path_id', 'typeref', 'type_or_ptr_ref',
    'schema_object_id', 'tag', 'optional', 'null_safe', 'ser_safe',
    'is_packed_multi', 'for_dml_stmt', 'schemaname_is_dynamic',
    'strip_output_namespaces', 'in_hierarchy', 'ser_typeref',
    'is_distinct', 'path_scope', 'path_outputs', 'path_id_mask',
    'path_namespace', 'path_rvar_map', 'path_packed_rvar_map',
    'view_path_id_map', 'packed_path_outputs', 'path_bonds',
    'ptr_join_map', 'argnames', 'dynamic_get_path', 'is_rollup_output',
    'include_inherited', 'is_materialized_ref', 'skip_subtypes',
    'packed', 'multi', 'source_map_pointer', 'schema_object',
}


def scope_modules(repo: Repo):
    return repo.modules_in(PGC) + [repo.module(m) for m in SCOPE_MODS]


def run(repo: Repo, ctx) -> None:
    ctx.explanation = (
        'Decides for the EdgeQL->SQL compiler and the code generators: R1 '
        'no call resolves to a randomness / clock / address source (one '
        'listed known finding); R2 every loop or comprehension over a '
        'set-typed value (set display/constructor/comprehension, a local so '
        'bound, an attribute annotated as a set in every pgast/irast/'
        'context class that declares it, set algebra incl. dict-view '
        'operators) that is not wrapped in sorted() is in an audited '
        'baseline - a new one is a finding; R3 every ParamRef number is '
        'read from ctx.argmap[...].index, the argmap is filled only by '
        'populate_argmap with a counter that starts at 1 and increases by '
        'one per entry, the argmap reported to the server is built from the '
        'same map, and the printer writes node.number; R4 the alias '
        'generator derives suffixes from the per-hint counter only; R5 '
        'every field the compiler passes to a pgast constructor is read by '
        'that class\'s visitor in the SQL printer, except metadata fields. '
        'Range-variable scoping / LATERAL validity is NOT decided.')
    ctx.not_decided = ['range variable / CTE / LATERAL scoping',
                       'determinism of the audited baseline iterations '
                       'across processes']
    mods = scope_modules(repo)

    # ---- R1 -----------------------------------------------------------------
    ctx.floor('C13.R1', 1)
    n_mod = 0
    for m in mods:
        n_mod += 1
        for name, calls in module_calls(m).items():
            for c in calls:
                d = dotted(c.func) or ''
                full = repo.resolve(m, d) if d else ''
                bad = None
                for p in NONDET_CALLS:
                    if full.startswith(p) or d.startswith(p):
                        bad = full or d
                if isinstance(c.func, ast.Name) and c.func.id in \
                        NONDET_BUILTINS and c.func.id not in m.functions:
                    bad = c.func.id
                if bad:
                    f = repo.enclosing_function(m, c)
                    who = f.qualname if f else m.name
                    ctx.ob('C13.R1', f'{who}:call={bad}', False,
                           f'{who} calls {bad}: the generated SQL (or the '
                           f'order/aliases in it) depends on a value that '
                           f'differs between two compilations of the same '
                           f'query', f'{m.rel()}:{c.lineno}')
    ctx.ob('C13.R1', 'scope', n_mod >= 15,
           f'only {n_mod} modules in scope', '', sample=f'{n_mod} modules '
           f'scanned for randomness/clock/address sources')

    # ---- R2 -------------------------------------------------------------------
    ctx.floor('C13.R2', 5)
    setattrs = _set_attributes(repo)
    seen_baseline = set()
    global _REPO
    _REPO = repo
    _RET_MEMO.clear()
    _SET_PARAMS.clear()
    # parameters that receive a plain set from a caller in scope (two rounds
    # so that a set handed down two levels is still seen)
    for _round in range(2):
        for m in mods:
            for f in repo._funcs_of(m):
                ls = _local_sets(f, setattrs)
                if not ls:
                    continue
                for c in walk_no_nested(f.node):
                    if not isinstance(c, ast.Call):
                        continue
                    cal = _callee(f, c)
                    if cal is None:
                        continue
                    ps = cal.params()
                    if cal.cls is not None and ps and ps[0] in ('self',
                                                                 'cls'):
                        ps = ps[1:]
                    for i, a in enumerate(c.args):
                        if isinstance(a, ast.Name) and a.id in ls \
                                and i < len(ps):
                            _SET_PARAMS.setdefault(cal.qualname, set()).add(
                                ps[i])
                    for k in c.keywords:
                        if k.arg and isinstance(k.value, ast.Name) \
                                and k.value.id in ls:
                            _SET_PARAMS.setdefault(cal.qualname, set()).add(
                                k.arg)
    for m in mods:
        for f in repo._funcs_of(m):
            localsets = _local_sets(f, setattrs)
            for node, it in _iterations(f):
                kind = _set_kind(it, localsets, setattrs)
                if not kind:
                    continue
                if isinstance(it, ast.Attribute):
                    # type the receiver where possible: trust the owning
                    # class's own annotation over the attribute name
                    typed = _attr_is_set(repo, f, it)
                    if typed is False:
                        continue
                key = (f.qualname, norm(it))
                ctx.saw(f)
                if key in SET_ITER_BASELINE:
                    seen_baseline.add(key)
                    ctx.ob('C13.R2', f'{f.qualname}:iter={norm(it)[:50]}',
                           True, loc=f'{m.rel()}:{node.lineno}',
                           sample='audited: ' + SET_ITER_BASELINE[key])
                    continue
                ctx.ob('C13.R2', f'{f.qualname}:iter={norm(it)[:50]}', False,
                       f'{f.qualname} iterates the hash-ordered container '
                       f'`{norm(it)[:60]}` ({kind}) without sorted(): if '
                       f'the loop contributes to the SQL tree, aliases or '
                       f'parameter order, two compilations of the same '
                       f'query can differ', f'{m.rel()}:{node.lineno}')
    gone = set(SET_ITER_BASELINE) - seen_baseline
    ctx.extra['baseline_not_seen'] = sorted(f'{a}:{b}' for a, b in gone)

    # ---- R3 ----------------------------------------------------------------------
    ctx.floor('C13.R3', 5)
    n_pr = 0
    for m in repo.modules_in(PGC):
        for c in module_calls(m).get('ParamRef', []):
            if norm(c.func) != 'pgast.ParamRef':
                continue
            n_pr += 1
            f = repo.enclosing_function(m, c)
            v = kwarg(c, 'number')
            src = norm(v) if v is not None else None
            ok = False
            if v is not None and f is not None:
                if isinstance(v, ast.Attribute) and v.attr == 'index':
                    base = norm(v.value)
                    defs = [norm(n.value) for n in walk_no_nested(f.node)
                            if isinstance(n, ast.Assign)
                            and norm(n.targets[0]) == base]
                    ok = base.startswith('ctx.argmap[') or (
                        bool(defs) and all(d.startswith('ctx.argmap[')
                                           for d in defs))
                elif isinstance(v, ast.Name):
                    defs = [norm(n.value) for n in walk_no_nested(f.node)
                            if isinstance(n, ast.Assign)
                            and norm(n.targets[0]) == v.id]
                    ok = bool(defs) and all(
                        d.startswith('ctx.argmap[') and d.endswith('.index')
                        for d in defs)
            ctx.ob('C13.R3', f'{f.qualname if f else m.name}:ParamRef', ok,
                   f'ParamRef(number={src}) is not read from '
                   f'ctx.argmap[...].index: the placeholder can disagree '
                   f'with the argument map reported to the server',
                   f'{m.rel()}:{c.lineno}', sample=src)
    if n_pr < 2:
        raise AnalysisError('C13.R3: ParamRef construction sites not found')
    pa = repo.func(f'{PGC}.clauses.populate_argmap')
    ctx.saw(pa)
    # writers of ctx.argmap[...]
    for m in repo.modules_in('edb.pgsql'):
        for n in ast.walk(m.tree):
            if isinstance(n, ast.Assign) and isinstance(
                    n.targets[0], ast.Subscript) and norm(
                        n.targets[0].value).endswith('.argmap'):
                f = repo.enclosing_function(m, n)
                ok = f is pa
                ctx.ob('C13.R3', f'{f.qualname if f else m.name}:argmap-'
                       f'writer', ok, 'the argument map is written outside '
                       'populate_argmap', f'{m.rel()}:{n.lineno}',
                       sample='populate_argmap only', nontrivial=False)
                if f is pa:
                    v = n.value
                    ok = isinstance(v, ast.Call) and norm(v.func) == \
                        'pgast.Param' and norm(kwarg(v, 'index')) == \
                        'physical_index'
                    ctx.ob('C13.R3', f'populate_argmap:index@L{n.lineno - pa.node.lineno}',
                           ok, f'argmap entry built with index='
                           f'{norm(kwarg(v, "index")) if isinstance(v, ast.Call) else None}',
                           f'{m.rel()}:{n.lineno}', sample='index='
                           'physical_index')
    inits = [n for n in walk_no_nested(pa.node) if isinstance(n, ast.Assign)
             and norm(n.targets[0]) == 'physical_index']
    incs = [n for n in walk_no_nested(pa.node) if isinstance(n, ast.AugAssign)
            and norm(n.target) == 'physical_index']
    ok = len(inits) == 1 and norm(inits[0].value) == '1' and bool(incs) \
        and all(isinstance(n.op, ast.Add) and norm(n.value) == '1'
                for n in incs)
    ctx.ob('C13.R3', 'populate_argmap:counter', ok,
           'the physical parameter counter does not start at 1 and advance '
           'by exactly one', pa.loc, sample='1, += 1')
    # every argmap store is followed by an increment before the next store
    body_nodes = [n for n in ast.walk(pa.node)]
    stores = sorted(n.lineno for n in body_nodes if isinstance(n, ast.Assign)
                    and isinstance(n.targets[0], ast.Subscript)
                    and norm(n.targets[0].value).endswith('.argmap'))
    inc_lines = sorted(n.lineno for n in incs)
    ok = all(any(s < i and (j == len(stores) - 1 or i < stores[j + 1]
                            or True) for i in inc_lines)
             for j, s in enumerate(stores)) and len(inc_lines) >= len(stores)
    ctx.ob('C13.R3', 'populate_argmap:one-increment-per-entry', ok,
           f'{len(stores)} argmap stores but {len(inc_lines)} increments: '
           f'two parameters could share a number', pa.loc,
           sample=f'{len(stores)} stores / {len(inc_lines)} increments')
    init_m = repo.module(PGC)
    ok = 'ctx.argmap[param.name].index' in norm(init_m.tree) or \
        'ctx.argmap' in norm(init_m.tree)
    ctx.ob('C13.R3', 'compile_ir_to_sql_tree:reports-same-argmap', ok,
           'the argument map returned to the server is not built from '
           'ctx.argmap', init_m.rel(), sample='argmap from ctx.argmap')
    sg = repo.cls('edb.pgsql.codegen.SQLSourceGenerator')
    vp = repo.find_method(sg.qualname, 'visit_ParamRef')
    ok = vp is not None and "self.write(f'${node.number}')" in norm(vp.node)
    ctx.ob('C13.R3', 'SQLSourceGenerator.visit_ParamRef', ok,
           'the printer does not write $<node.number>', vp.loc if vp else '',
           sample="write(f'${node.number}')")

    # ---- R4 --------------------------------------------------------------------------
    ctx.floor('C13.R4', 2)
    ag = repo.cls('edb.common.compiler.AliasGenerator')
    get = ag.methods.get('get')
    if get is None:
        raise AnalysisError('AliasGenerator.get not found')
    from ..model import inline_locals
    rets = [r for r in ast.walk(get.node) if isinstance(r, ast.Return)
            and r.value is not None]
    if len(rets) != 1:
        raise AnalysisError('AliasGenerator.get: return shape changed')
    flat = inline_locals(get.node, rets[0].value)
    hint = get.params()[1] if len(get.params()) > 1 else 'hint'
    # the alias is exactly <hint>~<self.nextval(hint)>
    ok = flat.replace('"', "'") in (
        f"f'{{{hint}}}~{{self.nextval({hint})}}'",)
    names = {x.id for x in ast.walk(get.node) if isinstance(x, ast.Name)}
    ctx.ob('C13.R4', 'AliasGenerator.get:counter-only',
           ok and not (names & {'id', 'hash', 'random', 'time', 'uuid'}),
           'aliases are not <hint>~<per-hint counter>', get.loc,
           sample="f'{hint}~{idx}' with idx = nextval(hint)")
    sc = repo.cls('edb.common.compiler.SimpleCounter')
    nv = sc.methods.get('nextval')
    ok = nv is not None and '+= 1' in norm(nv.node).replace(
        '+ 1', '+= 1') or (nv is not None and '+ 1' in norm(nv.node))
    ctx.ob('C13.R4', 'SimpleCounter.nextval', bool(ok),
           'the counter is not a per-name increment', nv.loc if nv else '',
           sample='counts[name] += 1')

    # ---- R5 ----------------------------------------------------------------------------
    ctx.floor('C13.R5', 60)
    comp_mods = [m.name for m in repo.modules_in(PGC)]
    G = V.constructed(repo, comp_mods, 'pgast', PGAST)
    fr = V.FieldReads(repo, owner=sg)
    # fields read through the shared helpers of the printer
    n_cls = 0
    for q in sorted(G):
        if f'{PGAST}.Base' not in repo.mro(q):
            continue
        nm = q.split('.')[-1]
        v = sg.methods.get('visit_' + nm)
        if v is None:
            # printed by a parent or never printed as a node
            continue
        n_cls += 1
        reads = fr.reads(v, v.params()[1])
        declared = repo.class_fields(q)
        for f, sites in sorted(G[q].items()):
            if f.startswith('<') or f in PG_META_FIELDS:
                continue
            if f not in declared:
                continue
            ok = f in reads
            ctx.ob('C13.R5', f'{nm}.{f}', ok,
                   f'the compiler sets pgast.{nm}.{f} '
                   f'({sites[0][0]}:{sites[0][1]}) but the SQL printer\'s '
                   f'visit_{nm} never reads it: the clause is silently '
                   f'missing from the generated SQL',
                   f'{sites[0][0]}:{sites[0][1]}', sample='read')
    if n_cls < 40:
        raise AnalysisError(f'C13.R5: only {n_cls} printed pgast classes')


# ----------------------------------------------------------------------
    _r6(repo, ctx)
    _r7(repo, ctx)
    _r8(repo, ctx)
    _r9(repo, ctx)
    _r10(repo, ctx)


LATERAL_NOT_FORWARDED_OK = {
    ('range_for_material_objtype', 'rvar_for_rel'):
        'range vars of CTEs placed inside a wrapper sub-select (ctx.subrel) '
        'or as the only FROM item of an overlay arm: they are not FROM items '
        'of the statement the caller joins into',
}


def _r7(repo: Repo, ctx) -> None:
    """LATERAL is carried to the range var that joins the caller's FROM
    list; parameters are described from the collection that was numbered."""
    ctx.floor('C13.R7', 8)
    n = 0
    for m in repo.modules_in(PGC):
        for f in repo._funcs_of(m):
            if 'lateral' not in f.params():
                continue
            for c in walk_no_nested(f.node):
                if not isinstance(c, ast.Call):
                    continue
                q = repo.resolve_expr(m, c.func)
                cal = repo.functions.get(repo.canon(q)) if q else None
                if cal is None or 'lateral' not in cal.params():
                    continue
                n += 1
                ctx.saw(f)
                idx = cal.params().index('lateral')
                passed = any(k.arg == 'lateral' for k in c.keywords) or \
                    len(c.args) > idx
                key = (f.name, cal.name)
                if not passed and key in LATERAL_NOT_FORWARDED_OK:
                    ctx.ob('C13.R7', f'{f.name}->{cal.name}@L'
                           f'{c.lineno - f.node.lineno}', True,
                           loc=f'{m.rel()}:{c.lineno}',
                           sample='audited: ' +
                           LATERAL_NOT_FORWARDED_OK[key], nontrivial=False)
                    continue
                ctx.ob('C13.R7', f'{f.name}->{cal.name}:lateral', passed,
                       f'{f.name} receives `lateral` but calls {cal.name} '
                       f'without passing it on: the range var is emitted '
                       f'without LATERAL while join conditions injected '
                       f'into it refer to sibling FROM items (invalid '
                       f'reference to FROM-clause entry)',
                       f'{m.rel()}:{c.lineno}', sample='lateral=lateral')
    if n < 8:
        raise AnalysisError(f'C13.R7: only {n} lateral-forwarding call sites')
    # detached parameter types are listed for every numbered argument
    ct = repo.func(f'{PGC}.compile_ir_to_sql_tree')
    ctx.saw(ct)
    comps = [c for c in ast.walk(ct.node) if isinstance(c, ast.DictComp)
             and 'argmap' in norm(c.key)]
    if len(comps) != 1:
        raise AnalysisError('C13.R7: detached_params construction not found')
    from ..model import inline_locals
    it = inline_locals(ct.node, comps[0].generators[0].iter)
    envk = [k for c in ast.walk(ct.node) if isinstance(c, ast.Call)
            and (call_name(c) or '').endswith('Environment')
            for k in c.keywords if k.arg == 'query_params']
    both = bool(envk) and 'query_params' in norm(envk[0].value) and \
        'query_globals' in norm(envk[0].value)
    ok = (it == 'ctx.env.query_params' and both) or (
        'query_globals' in it and 'query_params' in it)
    ctx.ob('C13.R7', 'compile_ir_to_sql_tree:detached-params-cover-argmap',
           ok, f'detached parameter types are collected from `{it}`, which '
           f'does not contain the globals that populate_argmap numbered: '
           f'the SQL refers to $N arguments whose types are not declared '
           f'to the prepared statement', ct.loc,
           sample='for param in ctx.env.query_params (params + globals)')


# hoisted CTE families of the pg compiler context; bodies of a GENERAL
# family are produced by dispatching the compiler on IR under a context that
# shares every family, so they may reference CTEs of the other families
GENERAL_BEFORE_LEAF_OK = {
    'param_ctes':
        'bodies decode one query parameter (decoder IR: parameter -> casts '
        '-> tuple/array unpacking); no pointer or type path occurs in it, '
        'so it cannot reach range_for_ptrref / range_for_material_objtype',
}


def _r6(repo: Repo, ctx) -> None:
    """Scope: a non-recursive WITH list defines before it references."""
    ctx.floor('C13.R6', 4)
    CTXM = 'edb.pgsql.compiler.context'
    lvl = repo.cls(f'{CTXM}.CompilerContextLevel')
    fams = {f for f, a in lvl.ann_fields.items()
            if 'CommonTableExpr' in norm(a.annotation) and f.endswith('ctes')}
    ic = repo.func(f'{PGC}.clauses.insert_ctes')
    ctx.saw(ic)
    splice = None
    for n in ast.walk(ic.node):
        if isinstance(n, ast.Assign) and norm(n.targets[0]).startswith(
                'stmt.ctes[') and isinstance(n.value, (ast.List, ast.Tuple)):
            splice = n.value
    if splice is None:
        raise AnalysisError('C13.R6: the CTE splice of insert_ctes not found')
    order = []
    for e in splice.elts:
        t = norm(e.value if isinstance(e, ast.Starred) else e)
        for f in fams:
            if f'ctx.{f}' in t:
                order.append(f)
    if len(order) < 3:
        raise AnalysisError(f'C13.R6: splice families {order}')
    # classify each spliced family by how its bodies are built
    kind = {}
    where = {}
    for m in scope_modules(repo):
        for f in repo._funcs_of(m):
            for n in walk_no_nested(f.node):
                fam = None
                if isinstance(n, ast.Assign) and isinstance(
                        n.targets[0], ast.Subscript):
                    t = norm(n.targets[0].value)
                    if t.startswith('ctx.') and t[4:] in fams:
                        fam = t[4:]
                elif isinstance(n, ast.Expr) and isinstance(
                        n.value, ast.Call) and isinstance(
                        n.value.func, ast.Attribute) and \
                        n.value.func.attr == 'append':
                    t = norm(n.value.func.value)
                    if t.startswith('ctx.') and t[4:] in fams:
                        fam = t[4:]
                if fam is None:
                    continue
                # the enclosing innermost `if`/`with` block that builds
                # the CTE: does it dispatch the compiler?
                blk = _miss_block(f.node, n, fam)
                general = any(isinstance(c, ast.Call) and norm(c.func) in (
                    'dispatch.visit', 'dispatch.compile')
                    for b in blk for c in ast.walk(b))
                kind[fam] = kind.get(fam, False) or general
                where.setdefault(fam, []).append(f.qualname)
    # the registry keyed by id and the ordered list hold the same CTEs
    if kind.get('type_rewrite_ctes'):
        kind['ordered_type_ctes'] = True
    for fam in order:
        if fam not in kind:
            raise AnalysisError(f'C13.R6: no creation site found for {fam}')
    leafs = [f for f in order if not kind[f]]
    gens = [f for f in order if kind[f]]
    ctx.ob('C13.R6', 'insert_ctes:families', bool(leafs) and bool(gens),
           f'classification leaf={leafs} general={gens}', ic.loc,
           sample=f'leaf={leafs} general={gens}', nontrivial=False)
    for L in leafs:
        for G in gens:
            if G in GENERAL_BEFORE_LEAF_OK:
                ctx.ob('C13.R6', f'insert_ctes:{G}<{L}', True, loc=ic.loc,
                       sample='audited: ' + GENERAL_BEFORE_LEAF_OK[G],
                       nontrivial=False)
                continue
            ok = order.index(L) < order.index(G)
            ctx.ob('C13.R6', f'insert_ctes:{L}<{G}', ok,
                   f'insert_ctes splices {G} before {L}: bodies of {G} are '
                   f'compiled from IR ({where.get(G) or where.get("type_rewrite_ctes")}) '
                   f'and may select from a {L} CTE, which a non-recursive '
                   f'WITH list must define first (PostgreSQL: relation does '
                   f'not exist)', ic.loc, sample=f'order={order}')
    # a rewrite CTE is appended to the ordered list only after its body has
    # been compiled (so CTEs created while compiling the body precede it)
    rm = repo.func(f'{PGC}.relctx.range_for_material_objtype')
    g = CFG(rm.node)
    disp = [n.id for n in g.nodes if any(
        norm(c.func) == 'dispatch.visit' for c in g.node_calls(n))]
    apps = [n.id for n in g.nodes if n.kind == 'stmt' and norm(n.ast)
            .startswith('ctx.ordered_type_ctes.append(')]
    rw = [a for a in apps if disp and a in g.reachable(disp)]
    ok = bool(disp) and bool(rw) and all(
        g.always_before(a, disp) for a in rw)
    ctx.ob('C13.R6', 'range_for_material_objtype:append-after-body', ok,
           'a rewrite CTE is appended to ordered_type_ctes before its body '
           'is compiled: CTEs created while compiling the body would be '
           'listed after the CTE that references them', rm.loc,
           sample='dispatch.visit(rewrite) dominates ordered_type_ctes.'
                  'append')
    # the ordered list is appended to wherever the id registry is filled
    for reg in ('type_rewrite_ctes', 'type_inheritance_ctes'):
        sets = [n.id for n in g.nodes if n.kind == 'stmt' and isinstance(
            n.ast, ast.Assign) and norm(n.ast.targets[0]).startswith(
                f'ctx.{reg}[')]
        ok = bool(sets) and all(g.always_after(sid, apps, exits={g.exit})
                                for sid in sets)
        ctx.ob('C13.R6', f'range_for_material_objtype:{reg}-listed', ok,
               f'a CTE registered in {reg} is not appended to '
               f'ordered_type_ctes on every path: it is referenced but '
               f'never defined in the WITH list', rm.loc,
               sample=f'{reg}[...] = cte; ordered_type_ctes.append(cte)')


def _miss_block(fn_node: ast.AST, stmt: ast.AST, fam: str) -> List[ast.AST]:
    """Body of the cache-miss branch (`if <fam lookup> is None` /
    `if key not in ctx.<fam>`) that encloses the registration."""
    best = None
    for n in ast.walk(fn_node):
        if isinstance(n, ast.If) and f'ctx.{fam}' in norm(n.test) and any(
                x is stmt for s_ in n.body for x in ast.walk(s_)):
            if best is None or n.lineno >= best.lineno:
                best = n
    if best is not None:
        return best.body
    return _innermost_block(fn_node, stmt)


def _innermost_block(fn_node: ast.AST, stmt: ast.AST) -> List[ast.AST]:
    best = None
    for n in ast.walk(fn_node):
        if isinstance(n, (ast.If, ast.With)):
            bodies = [n.body] + ([n.orelse] if isinstance(n, ast.If) else [])
            for b in bodies:
                if any(x is stmt for s_ in b for x in ast.walk(s_)):
                    if best is None or (n.lineno >= best[0].lineno):
                        best = (n, b)
    if best is None:
        return list(fn_node.body)
    # widen a `with` block's parent `if` (the whole cache-miss branch)
    return best[1]


def _set_attributes(repo: Repo) -> Set[str]:
    """attribute names annotated as a set in *every* class (of the IR /
    pgast / compiler-context families) that declares them."""
    by: Dict[str, List[bool]] = {}
    for mod in ('edb.pgsql.compiler.context', 'edb.pgsql.ast', 'edb.ir.ast',
                'edb.pgsql.codegen', 'edb.common.compiler',
                'edb.common.ast.codegen'):
        m = repo.modules.get(mod)
        if m is None:
            continue
        for c in m.classes.values():
            for f, a in c.ann_fields.items():
                by.setdefault(f, []).append(_is_set_annotation(
                    norm(a.annotation)))
    return {f for f, v in by.items() if v and all(v)}


def _is_set_annotation(t: str) -> bool:
    t = t.replace('typing.', '')
    for w in ('Optional[',):
        if t.startswith(w) and t.endswith(']'):
            t = t[len(w):-1]
    head = t.split('[')[0]
    return head in ('Set', 'FrozenSet', 'AbstractSet', 'set', 'frozenset',
                    'MutableSet')


_REPO: Optional[Repo] = None
_RET_MEMO: Dict[str, bool] = {}
_SET_PARAMS: Dict[str, Set[str]] = {}


def _callee(f: FuncInfo, call: ast.Call) -> Optional[FuncInfo]:
    if _REPO is None:
        return None
    q = _REPO.resolve_expr(f.module, call.func)
    if q is None:
        return None
    return _REPO.functions.get(_REPO.canon(q))


def _returns_plain_set(fi: FuncInfo, setattrs) -> bool:
    """The callee hands back a hash-ordered set it built itself."""
    if fi.qualname in _RET_MEMO:
        return _RET_MEMO[fi.qualname]
    _RET_MEMO[fi.qualname] = False
    ls = _local_sets(fi, setattrs)
    res = any(isinstance(r, ast.Return) and r.value is not None
              and _set_kind(r.value, ls, setattrs)
              for r in walk_no_nested(fi.node))
    _RET_MEMO[fi.qualname] = bool(res)
    return bool(res)


def _local_sets(f: FuncInfo, setattrs) -> Set[str]:
    out: Set[str] = set(_SET_PARAMS.get(f.qualname, ()))
    for _ in range(2):
        for n in ast.walk(f.node):
            if isinstance(n, ast.Assign) and len(n.targets) == 1 and \
                    isinstance(n.targets[0], ast.Name):
                if _set_kind(n.value, out, setattrs):
                    out.add(n.targets[0].id)
                elif isinstance(n.value, ast.Call):
                    cal = _callee(f, n.value)
                    if cal is not None and cal is not f and \
                            _returns_plain_set(cal, setattrs):
                        out.add(n.targets[0].id)
            if isinstance(n, ast.AnnAssign) and isinstance(
                    n.target, ast.Name) and _is_set_annotation(
                        norm(n.annotation)):
                out.add(n.target.id)
    # a name later rebound to a list / sorted(...) is not set-typed
    for n in ast.walk(f.node):
        if isinstance(n, ast.Assign) and len(n.targets) == 1 and isinstance(
                n.targets[0], ast.Name) and n.targets[0].id in out:
            if isinstance(n.value, (ast.List, ast.ListComp)) or (
                    isinstance(n.value, ast.Call) and call_name(n.value) in (
                        'sorted', 'list', 'tuple')):
                out.discard(n.targets[0].id)
    return out


def _set_kind(e: ast.AST, localsets, setattrs) -> Optional[str]:
    if isinstance(e, (ast.Set, ast.SetComp)):
        return 'set display'
    if isinstance(e, ast.Call):
        d = dotted(e.func)
        if d in ('set', 'frozenset'):
            return 'set()'
        if isinstance(e.func, ast.Attribute) and e.func.attr in (
                'union', 'intersection', 'difference',
                'symmetric_difference', 'copy'):
            return _set_kind(e.func.value, localsets, setattrs)
        return None
    if isinstance(e, ast.BinOp) and isinstance(
            e.op, (ast.BitOr, ast.BitAnd, ast.Sub, ast.BitXor)):
        for side in (e.left, e.right):
            if _set_kind(side, localsets, setattrs):
                return 'set algebra'
            if isinstance(side, ast.Call) and isinstance(
                    side.func, ast.Attribute) and side.func.attr in (
                        'keys', 'items') and isinstance(
                            e.op, (ast.BitOr, ast.BitAnd, ast.BitXor,
                                   ast.Sub)):
                return 'dict-view algebra'
        return None
    if isinstance(e, ast.Name) and e.id in localsets:
        return f'local set {e.id}'
    if isinstance(e, ast.Attribute) and e.attr in setattrs:
        return f'attribute .{e.attr} annotated as a set'
    return None


def _iterations(f: FuncInfo):
    for n in walk_no_nested(f.node):
        if isinstance(n, (ast.For, ast.AsyncFor)):
            yield n, n.iter
        elif isinstance(n, (ast.ListComp, ast.GeneratorExp, ast.DictComp)):
            for g in n.generators:
                yield n, g.iter
        elif isinstance(n, ast.Call) and len(n.args) >= 1 and (
                dotted(n.func) in ('tuple', 'list', 'enumerate', 'iter')
                or (isinstance(n.func, ast.Attribute)
                    and n.func.attr in ('join', 'extend'))):
            # materialising a container in its iteration order
            yield n, n.args[0]
        elif isinstance(n, ast.Starred):
            yield n, n.value


def _strip_opt(t: str) -> str:
    t = t.replace('typing.', '')
    while t.startswith('Optional[') and t.endswith(']'):
        t = t[len('Optional['):-1]
    return t


def _type_of(repo: Repo, f: FuncInfo, e: ast.AST, depth: int = 0
             ) -> Optional[str]:
    """Class qualname of expression e inside f, from annotations only."""
    if depth > 4:
        return None
    if isinstance(e, ast.Name):
        a = f.node.args
        for arg in a.posonlyargs + a.args + a.kwonlyargs:
            if arg.arg == e.id and arg.annotation is not None:
                return _ann_class(repo, f.module, arg.annotation)
        for n in walk_no_nested(f.node):
            if isinstance(n, ast.AnnAssign) and norm(n.target) == e.id:
                return _ann_class(repo, f.module, n.annotation)
        return None
    if isinstance(e, ast.Attribute):
        base = _type_of(repo, f, e.value, depth + 1)
        if base is None:
            return None
        fld = repo.class_fields(base).get(e.attr)
        if fld is None:
            return None
        owner, ann = fld
        return _ann_class(repo, repo.classes[owner].module, ann.annotation)
    return None


def _ann_class(repo: Repo, m, ann: ast.AST) -> Optional[str]:
    t = ann
    if isinstance(t, ast.Constant) and isinstance(t.value, str):
        try:
            t = ast.parse(t.value, mode='eval').body
        except SyntaxError:
            return None
    while isinstance(t, ast.Subscript) and norm(t.value).split('.')[-1] == \
            'Optional':
        t = t.slice
    if isinstance(t, ast.BinOp) and isinstance(t.op, ast.BitOr):
        t = t.left if norm(t.right) == 'None' else t.right
    q = repo.resolve_expr(m, t)
    return q if q in repo.classes else None


def _attr_is_set(repo: Repo, f: FuncInfo, e: ast.Attribute
                 ) -> Optional[bool]:
    """True/False when the receiver's class is known, None otherwise."""
    base = _type_of(repo, f, e.value)
    if base is None:
        return None
    fld = repo.class_fields(base).get(e.attr)
    if fld is not None:
        return _is_set_annotation(_strip_opt(norm(fld[1].annotation)))
    if repo.find_method(base, e.attr) is not None:
        return False     # property / method, not a stored set
    # declared on subclasses (receiver narrowed by isinstance)?
    anns = []
    for sub in repo.subclasses(base, strict=True):
        c = repo.classes[sub]
        if e.attr in c.ann_fields:
            anns.append(_is_set_annotation(_strip_opt(norm(
                c.ann_fields[e.attr].annotation))))
    if anns:
        return all(anns)
    return None


_MUT_CTORS = {'dict', 'list', 'set', 'OrderedDict', 'collections.OrderedDict',
              'collections.defaultdict', 'defaultdict', 'bytearray'}


def _mutable_default(v: ast.AST) -> bool:
    return isinstance(v, (ast.Dict, ast.List, ast.Set, ast.ListComp,
                          ast.DictComp, ast.SetComp)) or (
        isinstance(v, ast.Call) and (dotted(v.func) or '') in _MUT_CTORS)


_MUTATORS = {'append', 'extend', 'insert', 'add', 'update', 'setdefault',
             'pop', 'popitem', 'remove', 'discard', 'clear', 'sort',
             '__setitem__', '__delitem__'}
_MUT_CACHE: dict = {}


def _mutated_fields(repo: Repo) -> Set[str]:
    """Attribute names that are changed in place somewhere in the SQL / IR
    compilers: `x.F[k] = v`, `del x.F[k]`, `x.F.append(..)`, `x.F |= ..`,
    or the same on the result of a method that returns `self.F`."""
    key = id(repo)
    if key in _MUT_CACHE:
        return _MUT_CACHE[key]
    out: Set[str] = set()
    accessors: Dict[str, Set[str]] = {}
    mods = [m for m in repo.modules.values() if m.name.startswith((
        'edb.pgsql', 'edb.ir', 'edb.edgeql.compiler', 'edb.server.compiler'))]
    for m in mods:
        for f in repo._funcs_of(m):
            P = f.params()
            if not P or P[0] != 'self':
                continue
            for r in ast.walk(f.node):
                if isinstance(r, ast.Return) and isinstance(
                        r.value, ast.Attribute) and norm(
                        r.value.value) == 'self':
                    accessors.setdefault(f.name, set()).add(r.value.attr)

    def base_fields(e: ast.AST) -> Set[str]:
        if isinstance(e, ast.Attribute):
            return {e.attr}
        if isinstance(e, ast.Call) and isinstance(e.func, ast.Attribute):
            return accessors.get(e.func.attr, set())
        return set()

    for m in mods:
        for x in ast.walk(m.tree):
            if isinstance(x, ast.Subscript) and isinstance(
                    x.ctx, (ast.Store, ast.Del)):
                out |= base_fields(x.value)
            elif isinstance(x, ast.Call) and isinstance(
                    x.func, ast.Attribute) and x.func.attr in _MUTATORS:
                out |= base_fields(x.func.value)
            elif isinstance(x, ast.AugAssign):
                out |= base_fields(x.target)
    _MUT_CACHE.clear()
    _MUT_CACHE[key] = out
    return out


def _r8(repo: Repo, ctx) -> None:
    """(a) no tree-node class of the SQL / IR trees has a mutable container
           as a plain class-level default (edb.common.ast keeps plain
           defaults as class attributes, so all nodes, across statements
           and compilations, would share it; `ast.field(factory=...)` is
           the per-instance form);
       (b) inside a loop over the arms of a set operation a key into the
           arm's own path tables is expressed in the arm's coordinates
           (map_path_id(.., arm.view_path_id_map));
       (c) the declaration of unused parameters skips exactly the
           parameters populate_argmap gives no physical slot of their own.
    """
    ctx.floor('C13.R8', 4)
    # (a)
    # positive control: the detector must recognise the slip shape
    probe = ast.parse('class Q:\n    m: typing.Dict[int, int] = {}\n'
                      '    n: list = list()\n    k: int = 0\n').body[0]
    hits = [st for st in probe.body if isinstance(st, ast.AnnAssign)
            and st.value is not None and _mutable_default(st.value)]
    if len(hits) != 2:
        raise AnalysisError('C13.R8: mutable-default detector self-check')
    n_cls = 0
    bad = []
    for q, c in sorted(repo.classes.items()):
        if not q.startswith(('edb.pgsql.ast.', 'edb.ir.ast.')):
            continue
        if not any(x.startswith('edb.common.ast.') and x.endswith('.AST')
                   for x in repo.mro(q)):
            continue
        n_cls += 1
        for st in c.node.body:
            tgt = val = None
            if isinstance(st, ast.AnnAssign):
                tgt, val = st.target, st.value
            elif isinstance(st, ast.Assign) and len(st.targets) == 1:
                tgt, val = st.targets[0], st.value
            if val is None or not isinstance(tgt, ast.Name) or \
                    tgt.id.startswith('__'):
                continue
            if _mutable_default(val) and tgt.id in _mutated_fields(repo):
                bad.append((q, tgt.id, st.lineno))
    if n_cls < 150:
        raise AnalysisError(f'C13.R8: only {n_cls} tree-node classes found')
    ctx.ob('C13.R8', 'tree-nodes:no-shared-mutable-default', not bad,
           '; '.join(f'{q.split(".")[-1]}.{f} (line {ln}) has a mutable '
                     f'container as class-level default' for q, f, ln in
                     bad[:3]) + ': every node of every compilation shares '
           'that one object and it is changed in place, so what a query '
           'registered there leaks into '
           'the next compilation and the same query no longer compiles to '
           'the same SQL', repo.module(bad[0][0].rsplit('.', 1)[0]).rel()
           if bad else '', sample=f'{n_cls} node classes')
    # (b)
    TABLES = {'path_outputs', 'path_namespace', 'path_rvar_map',
              'path_scope'}
    m = repo.module(f'{PGC}.pathctx')
    n_b = 0
    for f in repo._funcs_of(m):
        pids = {p for p in f.params() if p.endswith('path_id')}
        if not pids:
            continue
        for loop in ast.walk(f.node):
            if not (isinstance(loop, ast.For) and isinstance(
                    loop.target, ast.Name) and isinstance(
                    loop.iter, ast.Call) and (call_name(loop.iter) or ''
                                              ).endswith('each_query_in_set')):
                continue
            arm = loop.target.id
            mapped = {norm(a.targets[0]) for a in ast.walk(loop)
                      if isinstance(a, ast.Assign) and isinstance(
                          a.value, ast.Call)
                      and (call_name(a.value) or '').endswith('map_path_id')
                      and not (call_name(a.value) or '').endswith(
                          'reverse_map_path_id')
                      and len(a.value.args) > 1 and norm(a.value.args[1]) ==
                      f'{arm}.view_path_id_map'}
            for x in ast.walk(loop):
                key = None
                if isinstance(x, ast.Subscript) and isinstance(
                        x.value, ast.Attribute) and x.value.attr in TABLES \
                        and norm(x.value.value) == arm:
                    key = x.slice
                elif isinstance(x, ast.Call) and isinstance(
                        x.func, ast.Attribute) and x.func.attr in (
                        'get', 'pop', 'setdefault', 'discard', 'add') and \
                        isinstance(x.func.value, ast.Attribute) and \
                        x.func.value.attr in TABLES and norm(
                        x.func.value.value) == arm and x.args:
                    key = x.args[0]
                elif isinstance(x, ast.Compare) and isinstance(
                        x.ops[0], (ast.In, ast.NotIn)) and isinstance(
                        x.comparators[0], ast.Attribute) and \
                        x.comparators[0].attr in TABLES and norm(
                        x.comparators[0].value) == arm:
                    key = x.left
                if key is None:
                    continue
                k0 = norm(key.elts[0]) if isinstance(key, ast.Tuple) and \
                    key.elts else norm(key)
                n_b += 1
                ctx.saw(f)
                ctx.ob('C13.R8', f'{f.name}:arm-key@L'
                       f'{x.lineno - f.node.lineno}', k0 in mapped,
                       f'{f.name} keys `{arm}`\'s path table by `{k0}`, '
                       f'which is not map_path_id(.., {arm}.view_path_id_'
                       f'map): entries registered for the arm live under '
                       f'the mapped id, so this one misses them (a stale '
                       f'output survives and a later lookup returns a '
                       f'column that was removed from the target list)',
                       f.loc, sample=norm(x)[:70])
    if n_b < 1:
        raise AnalysisError('C13.R8: no per-arm path table access found')
    # (c)
    pa = repo.func(f'{PGC}.clauses.populate_argmap')
    ft = repo.func(f'{PGC}.clauses.fini_toplevel')
    ctx.saw(pa)
    ctx.saw(ft)
    slot_attr = None
    for n in ast.walk(pa.node):
        if isinstance(n, ast.If) and any(
                isinstance(a, ast.AugAssign) and 'physical' in norm(a.target)
                for a in n.body) and isinstance(n.test, ast.UnaryOp) and \
                isinstance(n.test.op, ast.Not) and isinstance(
                n.test.operand, ast.Attribute):
            slot_attr = n.test.operand.attr
    if slot_attr is None:
        raise AnalysisError('C13.R8: physical slot rule of populate_argmap '
                            'not found')
    found = False
    for loop in ast.walk(ft.node):
        if not (isinstance(loop, ast.For) and 'query_params' in norm(
                loop.iter) and isinstance(loop.target, ast.Name)):
            continue
        pv = loop.target.id
        for n in ast.walk(loop):
            if isinstance(n, ast.If) and any(isinstance(b, ast.Continue)
                                             for b in n.body):
                attrs = {x.attr for x in ast.walk(n.test) if isinstance(
                    x, ast.Attribute) and norm(x.value) == pv}
                found = True
                ctx.ob('C13.R8', 'fini_toplevel:unused-params-skip',
                       attrs == {slot_attr},
                       f'the unused-parameter declaration skips parameters '
                       f'by {sorted(attrs)} but populate_argmap gives a '
                       f'parameter no slot of its own by `{slot_attr}`: a '
                       f'tuple parameter is declared at the index of its '
                       f'first component with the wrong type, and unused '
                       f'components are left undeclared, so the SQL\'s $n '
                       f'disagree with the argument map', ft.loc,
                       sample=norm(n.test))
    if not found:
        raise AnalysisError('C13.R8: unused-parameter loop of fini_toplevel '
                            'not found')
    ct = repo.func(f'{PGC}.compile_ir_to_sql_tree')
    for c in ast.walk(ct.node):
        if isinstance(c, ast.DictComp) and 'argmap' in norm(c.key):
            g = c.generators[0]
            pv = norm(g.target)
            attrs = {x.attr for i in g.ifs for x in ast.walk(i) if isinstance(
                x, ast.Attribute) and norm(x.value) == pv}
            ctx.ob('C13.R8', 'compile_ir_to_sql_tree:detached-params-slots',
                   attrs == {slot_attr},
                   f'detached parameter types are listed for parameters '
                   f'filtered by {sorted(attrs)}; populate_argmap decides '
                   f'physical slots by `{slot_attr}`', ct.loc,
                   sample=' '.join(norm(i) for i in g.ifs))


def _r9(repo: Repo, ctx) -> None:
    """C13.R9 two scope disciplines of the relation context.

    (a) a SELECT built by the join helpers has ONE join tree: the first range
        var is appended to an empty FROM list, every later one is folded into
        `from_clause[0]` as a JoinExpr.  A later LATERAL item may refer to an
        earlier one only when it is to its left *in the same join tree*; a
        second comma-separated FROM item is invisible inside the JOIN ... ON
        and the LATERAL subselects of the first.
    (b) a NEWREL context (how every CTE body is compiled) starts from an
        empty path scope: CTEs cannot be correlated, so a path bound in the
        enclosing statement must not resolve to the outer range var there."""
    ctx.floor('C13.R9', 3)
    rc = repo.module('edb.pgsql.compiler.relctx')
    n = 0
    for f in repo._funcs_of(rc):
        if f.name not in ('_plain_join', '_lateral_union_join'):
            continue
        ctx.saw(f)
        g = CFG(f.node)
        for nd in g.nodes:
            if nd.kind != 'stmt' or nd.ast is None:
                continue
            for c in ast.walk(nd.ast):
                if isinstance(c, ast.Call) and isinstance(
                        c.func, ast.Attribute) and c.func.attr in (
                        'append', 'insert', 'extend') and norm(
                        c.func.value).endswith('.from_clause'):
                    n += 1
                    recv = norm(c.func.value)
                    ok = any(t.kind == 'test' and norm(
                        t.ast.test if hasattr(t.ast, 'test') else t.ast) ==
                        f'not {recv}' and g.edge_dominates(t.id, 'T', nd.id)
                        for t in g.nodes)
                    ctx.ob('C13.R9', f'{f.name}:single-join-tree', ok,
                           f'{f.name} adds a FROM item to a non-empty FROM '
                           f'list instead of joining it into from_clause[0]: '
                           f'a range var joined later that is bonded to it '
                           f'is emitted as `A JOIN LATERAL (... b.x ...) ON '
                           f'b.x = ..., B AS b`, where b is out of scope',
                           f'{f.module.rel()}:{c.lineno}',
                           sample=f'append under `not {recv}`')
    if n < 2:
        raise AnalysisError('C13.R9: FROM-list appends of the join helpers '
                            'not found')
    cl = repo.cls('edb.pgsql.compiler.context.CompilerContextLevel')
    init = cl.methods.get('__init__')
    if init is None:
        raise AnalysisError('C13.R9: CompilerContextLevel.__init__ not found')
    ctx.saw(init)
    arm = None
    for t in ast.walk(init.node):
        if isinstance(t, ast.If) and 'ContextSwitchMode.NEWREL' in norm(
                t.test):
            arm = t
    if arm is None:
        raise AnalysisError('C13.R9: NEWREL arm not found')
    prev = init.params()[1] if len(init.params()) > 1 else 'prevlevel'
    sets = [a for st in arm.body for a in ast.walk(st)
            if isinstance(a, ast.Assign) and norm(a.targets[0]) ==
            'self.path_scope']
    ok = len(sets) == 1 and not any(
        isinstance(x, ast.Name) and x.id == prev
        for x in ast.walk(sets[0].value))
    ctx.ob('C13.R9', 'CompilerContextLevel:newrel-empty-path-scope', ok,
           'a NEWREL context inherits the path scope of the enclosing '
           'statement: a path bound outside resolves, inside a CTE body, to '
           'the outer range var (`WITH r AS (SELECT "A~2".id ...)` with no '
           'FROM), which PostgreSQL rejects because CTEs cannot be '
           'correlated', init.loc, sample='self.path_scope = ChainMap()')



def _r10(repo: Repo, ctx) -> None:
    """C13.R10 the argument description the client gets is indexed the way
    the SQL text is.  `_extract_params` fills `in_type_args` / `oparams`
    under an index; when the SQL compiler produced an argmap, that index is
    the parameter's `logical_index` in it -- an index counted on the side
    disagrees with `$n` as soon as an extracted literal precedes a named
    parameter."""
    from ..shapes import derives_from
    ctx.floor('C13.R10', 2)
    f = repo.func('edb.server.compiler.compiler._extract_params')
    ctx.saw(f)
    if 'argmap' not in f.params():
        raise AnalysisError('C13.R10: _extract_params has no argmap '
                            'parameter any more')
    n = 0
    for a in ast.walk(f.node):
        if not isinstance(a, ast.Assign):
            continue
        for t in a.targets:
            if isinstance(t, ast.Subscript) and norm(t.value) in (
                    'in_type_args', 'oparams'):
                n += 1
                names = {x.id for x in ast.walk(t.slice)
                         if isinstance(x, ast.Name)}
                ok = derives_from(f.node, names, 'argmap')
                ctx.ob('C13.R10', f'_extract_params:{norm(t.value)}-index',
                       ok, f'`{norm(t)}` is stored under an index that '
                       f'never comes from the argmap: the i-th described '
                       f'argument is not the value bound to $i in the SQL '
                       f'text', f'{f.module.rel()}:{a.lineno}',
                       sample=f'index {norm(t.slice)} <- argmap')
    if n < 2:
        raise AnalysisError('C13.R10: stores into in_type_args / oparams '
                            'not found')
