"""C14 — type descriptors are faithful and unique.

  R1 wire-shape inclusion encoder ⊆ decoder per tag and protocol generation
  R2 tag table (one encoder family / one decoder per tag, distinct bytes)
  R3 content-derived ids cover what is written
  R4 dedup discipline (early return iff already described; single writer)
"""
from __future__ import annotations

import ast
from typing import Dict, List, Set

from .. import widths as W
from ..model import (AnalysisError, Repo, call_name, dotted, kwarg,
                     module_attr_writes, norm, walk_no_nested)

MOD = 'edb.server.compiler.sertypes'
GENS = ((1, 0), (2, 0))

# tags the server-side decoder deliberately does not handle
NO_DECODER = {
    'SQL_ROW': 'output-only descriptor of SQL query results; the server '
               'never parses it (clients do)',
    'ANNO_TYPENAME': 'annotation, skipped by the generic annotation branch '
                     'of _parse',
}


def run(repo: Repo, ctx) -> None:
    ctx.explanation = (
        'Decides for edb/server/compiler/sertypes.py: R1 for each protocol '
        'generation (<2.0, >=2.0) the regular language of field widths '
        'every encoder can emit is included in the language its tag\'s '
        'decoder reads (product-automaton inclusion; widths read from the '
        'struct format strings and packer bodies), plus the length framing; '
        'R2 the tag table: distinct bytes, every tag has an encoder and a '
        'registered decoder (two reasoned exceptions), one decoder per tag; '
        'R3 every per-element list written into a shape-like descriptor is '
        'an argument of the content-derived id; R4 each encoder returns '
        'early iff the id is already described and otherwise ends in '
        '_finish_typedesc, the only writer of the descriptor buffer. That '
        'the described shape equals the query\'s shape is NOT decided.')
    ctx.not_decided = ['that the described shape equals the compiled '
                       'query\'s shape', 'client-side decoders']
    m = repo.module(MOD)

    # ---- registry ----------------------------------------------------------
    decoders: Dict[str, List[str]] = {}
    for fn in m.tree.body:
        if isinstance(fn, ast.FunctionDef):
            for d in fn.decorator_list:
                if isinstance(d, ast.Call) and norm(d.func) == \
                        '_parse_descriptor.register' and d.args:
                    tag = norm(d.args[0]).split('.')[-1]
                    decoders.setdefault(tag, []).append(fn.name)
    tagcls = repo.cls(f'{MOD}.DescriptorTag')
    tags = {}
    for k, v in tagcls.assign_fields.items():
        if isinstance(v, ast.Constant) and isinstance(v.value, bytes):
            tags[k] = v.value
    if len(tags) < 10 or len(decoders) < 8:
        raise AnalysisError('C14: DescriptorTag members / decoder registry '
                            'not found')

    # ---- R1 ------------------------------------------------------------------
    ctx.floor('C14.R1', 20)
    emitted: Dict[str, Set[str]] = {}
    n_enc = 0
    for gen in GENS:
        wm = W.WireModel(m, gen)
        gl = f'{gen[0]}.{gen[1]}'
        dec_all = []
        dec_lang = {}
        for tag, fns in sorted(decoders.items()):
            try:
                r = wm.reader_fn(fns[0])
            except W.Unsupported as e:
                raise AnalysisError(f'C14.R1: decoder {fns[0]}: {e}')
            dec_lang[tag] = r
            if r != W.EMPTY:
                dec_all.append(W.seq(W.sym('T:' + tag), r))
        for tag, why in NO_DECODER.items():
            # accept anything after these tags (not in the decoder's domain)
            pass
        for name, fn in sorted(wm.fn.items()):
            if not (name.startswith(('_describe', 'describe'))):
                continue
            try:
                L = wm.writer_language(fn)
            except W.Unsupported as e:
                raise AnalysisError(f'C14.R1: encoder {name}: {e}')
            if L is None:
                continue
            n_enc += 1
            ctx.saw(f'{MOD}.{name}')
            etags = {s[2:] for s in W.alphabet(L) if s.startswith('T:')}
            emitted.setdefault(name, set()).update(etags)
            # split the encoder language per leading tag
            alts = L[1:] if L[0] == 'alt' else (L,)
            for a in alts:
                first = a[1] if a[0] == 'seq' else a
                tag = first[1][2:] if first[0] == 'sym' and \
                    first[1].startswith('T:') else None
                if tag is None:
                    ctx.fail('C14.R1', f'{name}@{gl}:no-tag',
                             f'encoder language does not start with a tag: '
                             f'{W.show(a)}', f'{m.rel()}:{fn.lineno}')
                    continue
                if tag in NO_DECODER:
                    ctx.ob('C14.R1', f'{name}@{gl}:tag={tag}', True,
                           loc=f'{m.rel()}:{fn.lineno}',
                           sample={'enc': W.show(a),
                                   'dec': 'n/a: ' + NO_DECODER[tag]},
                           nontrivial=False)
                    continue
                d = dec_lang.get(tag)
                if d is None:
                    ctx.fail('C14.R1', f'{name}@{gl}:tag={tag}',
                             f'no decoder registered for tag {tag}',
                             f'{m.rel()}:{fn.lineno}')
                    continue
                full = W.seq(W.sym('T:' + tag), d)
                cex = W.included(a, full)
                ctx.ob('C14.R1', f'{name}@{gl}:tag={tag}', cex is None,
                       f'protocol {gl}: encoder can emit the field-width '
                       f'sequence [{" ".join(cex or [])}] which the {tag} '
                       f'decoder does not read (enc: {W.show(a)}; dec: '
                       f'{W.show(full)})', f'{m.rel()}:{fn.lineno}',
                       sample={'enc': W.show(a), 'dec': W.show(full)})
        # framing
        fin = wm.fn.get('_finish_typedesc')
        par = wm.fn.get('_parse')
        if fin is None or par is None:
            raise AnalysisError('C14.R1: _finish_typedesc/_parse not found')
        enc_pref = 0
        for st in fin.body:
            if isinstance(st, ast.If) and wm.gen_test(st.test) is True:
                for c in ast.walk(st):
                    if isinstance(c, ast.Call) and norm(c.func) == \
                            'ctx.buffer.append' and 'len(desc)' in norm(c):
                        enc_pref = int(wm.struct_packers.get(
                            call_name(c.args[0]) or '', '0'))
        dec_pref = 0
        for st in par.body:
            if isinstance(st, ast.If) and wm.gen_test(st.test) is True:
                for c in ast.walk(st):
                    if isinstance(c, ast.Call) and norm(c.func) == \
                            'desc.read_bytes' and isinstance(
                                c.args[0], ast.Constant):
                        dec_pref = c.args[0].value
        ctx.ob('C14.R1', f'framing@{gl}', enc_pref == dec_pref,
               f'protocol {gl}: encoder length prefix {enc_pref} bytes, '
               f'decoder skips {dec_pref}', f'{m.rel()}:{fin.lineno}',
               sample=f'prefix {enc_pref} == {dec_pref}')
    if n_enc < 20:
        raise AnalysisError(f'C14.R1: only {n_enc} encoder languages')

    # ---- R2 tag table ----------------------------------------------------------
    ctx.floor('C14.R2', 12)
    byvals: Dict[bytes, List[str]] = {}
    for k, v in tags.items():
        byvals.setdefault(v, []).append(k)
    for v, ks in byvals.items():
        ctx.ob('C14.R2', f'tag-byte={v.hex()}', len(ks) == 1 and len(v) == 1,
               f'tag byte {v.hex()} shared by {ks}', tagcls.loc,
               sample=ks, nontrivial=False)
    all_emitted = set()
    for s in emitted.values():
        all_emitted |= s
    # annotations are written by _add_annotation (separate buffer)
    for n in ast.walk(m.tree):
        if isinstance(n, ast.Attribute) and n.attr == '_value_':
            d = dotted(n.value) or ''
            if d.startswith('DescriptorTag.'):
                all_emitted.add(d.split('.')[1])
    for k in tags:
        ctx.ob('C14.R2', f'encoder-for={k}', k in all_emitted,
               f'no encoder emits tag {k}', tagcls.loc, sample='emitted')
        if k in NO_DECODER and k not in decoders:
            ctx.ob('C14.R2', f'decoder-for={k}', True,
                   '', tagcls.loc, sample='exception: ' + NO_DECODER[k],
                   nontrivial=False)
        else:
            # (a listed exception that got a decoder after all is simply
            # held to the rule again)
            n = len(decoders.get(k, []))
            ctx.ob('C14.R2', f'decoder-for={k}', n == 1,
                   f'tag {k} has {n} registered decoders (later '
                   f'registrations silently replace earlier ones)',
                   tagcls.loc, sample=decoders.get(k))
    for k in decoders:
        ctx.ob('C14.R2', f'decoder-tag-known={k}', k in tags,
               f'decoder registered for unknown tag {k}', m.rel(),
               sample='member', nontrivial=False)
    # the fallback of the dispatch raises
    pd = repo.func(f'{MOD}._parse_descriptor')
    ok = any(isinstance(s, ast.Raise) for s in pd.node.body)
    ctx.ob('C14.R2', '_parse_descriptor:fallback-raises', ok,
           'unknown tag does not raise', pd.loc, sample='raise')

    # ---- R3 id covers content --------------------------------------------------
    ctx.floor('C14.R3', 6)
    id_fns = ('_get_object_shape_id', '_get_collection_type_id',
              '_get_set_type_id')
    for fname in ('_describe_object_shape', 'describe_input_shape',
                  'describe_params', 'describe_sql_result',
                  '_describe_tuple', '_describe_array', '_describe_range',
                  '_describe_multirange', '_describe_set'):
        f = repo.all_defs_named(MOD, fname)
        if not f:
            raise AnalysisError(f'C14.R3: {fname} not found')
        fn = max(f, key=lambda x: x.node.lineno)   # the implementation
        ctx.saw(fn)
        idcalls = [c for c in ast.walk(fn.node) if isinstance(c, ast.Call)
                   and call_name(c) in id_fns]
        if not idcalls:
            raise AnalysisError(f'C14.R3: {fname}: no id computation')
        covered = set()
        for c in idcalls:
            for a in list(c.args) + [k.value for k in c.keywords]:
                covered |= {x.id for x in ast.walk(a)
                            if isinstance(x, ast.Name)}
        # lists appended to in parallel with the covered ones and written
        # per element
        written = set()
        for lp in ast.walk(fn.node):
            if isinstance(lp, ast.For) and isinstance(lp.iter, ast.Call) \
                    and call_name(lp.iter) == 'zip':
                tvars = [norm(t) for t in lp.target.elts] if isinstance(
                    lp.target, ast.Tuple) else [norm(lp.target)]
                srcs = [norm(a) for a in lp.iter.args]
                used = {x.id for st in lp.body for x in ast.walk(st)
                        if isinstance(x, ast.Name)}
                appends_buf = any(
                    isinstance(c, ast.Call) and isinstance(
                        c.func, ast.Attribute) and c.func.attr == 'append'
                    for st in lp.body for c in ast.walk(st))
                if not appends_buf:
                    continue
                for tv, src in zip(tvars, srcs):
                    if tv in used:
                        written.add(src)
        # per-element buffers built in the same loop as the id lists
        if not written:
            for lp in ast.walk(fn.node):
                if isinstance(lp, ast.For):
                    apps = {}
                    for st in lp.body:
                        for c in ast.walk(st):
                            if isinstance(c, ast.Call) and isinstance(
                                    c.func, ast.Attribute) and \
                                    c.func.attr == 'append' and c.args:
                                apps.setdefault(norm(c.func.value),
                                                []).append(c.args[0])
                    bufs = [k for k in apps if k.endswith('_buf')]
                    if bufs:
                        # values written to the byte buffer must also be
                        # recorded in a covered list
                        rec = {norm(a) for k, v in apps.items()
                               if k in covered for a in v}
                        for b in bufs:
                            for a in apps[b]:
                                names = {x.id for x in ast.walk(a)
                                         if isinstance(x, ast.Name)} - {
                                    'ctx', 'protocol_version'}
                                names = {n for n in names
                                         if not n.startswith('_')}
                                for n in names:
                                    ok = n in rec or any(
                                        n in r for r in rec)
                                    ctx.ob('C14.R3', f'{fname}:element={n}',
                                           ok, f'{fname}: per-element '
                                           f'value {n} is written to the '
                                           f'descriptor but not recorded in '
                                           f'a list the id covers',
                                           fn.loc, sample=f'{n} in {sorted(rec)}')
        for src in sorted(written):
            ok = src in covered
            ctx.ob('C14.R3', f'{fname}:list={src}', ok,
                   f'{fname}: per-element list `{src}` is written into the '
                   f'descriptor but is not an argument of the id '
                   f'computation: descriptors that differ only in it share '
                   f'an id with different bytes', fn.loc,
                   sample=f'{src} covered by id')
        # the id written is the id computed
        idvars = set()
        for n in walk_no_nested(fn.node):
            if isinstance(n, ast.Assign) and n.value in idcalls:
                idvars.add(norm(n.targets[0]))
        wrote = [norm(x.value) for x in ast.walk(fn.node)
                 if isinstance(x, ast.Attribute) and x.attr == 'bytes'
                 and isinstance(x.value, ast.Name)]
        ok = bool(idvars) and all(w in idvars for w in wrote) and bool(wrote)
        ctx.ob('C14.R3', f'{fname}:id-written', ok,
               f'{fname}: the id bytes written ({wrote}) are not the '
               f'computed content id ({sorted(idvars)})', fn.loc,
               sample=f'{wrote} from {sorted(idvars)}')
    # the id functions use all their parameters
    for idf in id_fns:
        fn = repo.func(f'{MOD}.{idf}')
        used = {x.id for x in ast.walk(fn.node) if isinstance(x, ast.Name)
                and isinstance(x.ctx, ast.Load)}
        for p in fn.params():
            ctx.ob('C14.R3', f'{idf}:uses={p}', p in used,
                   f'{idf} ignores its parameter {p}: content passed by '
                   f'callers does not reach the id', fn.loc, sample='used')

    # ---- R4 dedup discipline ----------------------------------------------------
    ctx.floor('C14.R4', 10)
    writers = set()
    for attr, kind, node in module_attr_writes(m):
        if attr in ('buffer', 'uuid_to_pos'):
            f = repo.enclosing_function(m, node)
            writers.add((f.name if f else '<module>', attr, kind))
    allowed = {('_finish_typedesc', 'buffer', 'append'),
               ('_register_type_id', 'uuid_to_pos', 'setitem'),
               ('__init__', 'buffer', 'assign'),
               ('__init__', 'uuid_to_pos', 'assign'),
               ('derive', 'buffer', 'assign'),
               ('derive', 'uuid_to_pos', 'assign')}
    for w in sorted(writers):
        ctx.ob('C14.R4', f'writer={w[0]}.{w[1]}', w in allowed,
               f'{w[0]} writes ctx.{w[1]} ({w[2]}): only _finish_typedesc / '
               f'_register_type_id may', m.rel(), sample=w[2])
    if ('_finish_typedesc', 'buffer', 'append') not in writers:
        raise AnalysisError('C14.R4: _finish_typedesc no longer appends to '
                            'ctx.buffer')
    for f in repo.funcs_in(MOD):
        if f.parent is not None or not f.name.startswith(
                ('_describe_', 'describe_input_shape')):
            continue
        fins = [c for c in ast.walk(f.node) if isinstance(c, ast.Call)
                and call_name(c) == '_finish_typedesc']
        if not fins:
            continue
        # id passed to _finish_typedesc is the id tested for membership
        idv = norm(fins[0].args[0])
        tests = [n for n in ast.walk(f.node) if isinstance(n, ast.If)
                 and norm(n.test) == f'{idv} in ctx.uuid_to_pos']
        ok = len(tests) >= 1 and all(
            len(t.body) == 1 and isinstance(t.body[0], ast.Return)
            and norm(t.body[0].value) == idv for t in tests)
        if f.name in ('_describe_regular_scalar', '_describe_enum'):
            # dispatched from _describe_scalar_type, which tests first
            parent = repo.func(f'{MOD}._describe_scalar_type')
            ok = 'type_id in ctx.uuid_to_pos' in norm(parent.node)
        ctx.ob('C14.R4', f'{f.name}:early-return-iff-described', ok,
               f'{f.name} does not return the id early exactly when it is '
               f'already in uuid_to_pos (a descriptor would be emitted '
               f'twice, or skipped)', f.loc,
               sample=f'if {idv} in ctx.uuid_to_pos: return {idv}')
        # the test precedes the first buffer write
        if tests:
            first_app = min((c.lineno for c in ast.walk(f.node)
                             if isinstance(c, ast.Call)
                             and norm(c.func) == 'buf.append'),
                            default=10**9)
            ctx.ob('C14.R4', f'{f.name}:test-before-emit',
                   tests[0].lineno < first_app,
                   f'{f.name}: dedup test after the first field is built',
                   f.loc, sample='test first', nontrivial=False)
    # derived contexts must not alias the mutable descriptor state
    cx = repo.cls(f'{MOD}.Context')
    cinit = cx.methods.get('__init__')
    der = cx.methods.get('derive')
    if cinit is None or der is None:
        raise AnalysisError('C14.R4: Context.__init__/derive not found')
    mutable = [norm(n.target if isinstance(n, ast.AnnAssign)
                    else n.targets[0]).split('.', 1)[1]
               for n in walk_no_nested(cinit.node)
               if isinstance(n, (ast.Assign, ast.AnnAssign))
               and n.value is not None
               and isinstance(n.value, (ast.List, ast.Dict, ast.Set))
               and norm(n.target if isinstance(n, ast.AnnAssign)
                        else n.targets[0]).startswith('self.')]
    for attr in mutable:
        asg = [n for n in walk_no_nested(der.node)
               if isinstance(n, ast.Assign)
               and norm(n.targets[0]).endswith('.' + attr)]
        ok = len(asg) == 1 and norm(asg[0].value) in (
            f'self.{attr}.copy()', f'list(self.{attr})',
            f'dict(self.{attr})', f'self.{attr}[:]')
        ctx.ob('C14.R4', f'Context.derive:copies-{attr}', ok,
               f'Context.derive() does not give the derived context its own '
               f'copy of {attr}: descriptors emitted through one context '
               f'change the positions / dedup table of the other (equal ids '
               f'with different bytes, dangling references)', der.loc,
               sample=norm(asg[0].value) if asg else None)
    # reader takes ancestors[-1] as the fundamental type: the writer's
    # ancestor loop must emit the terminating ancestor before it stops
    rd = repo.func(f'{MOD}._parse_scalar_descriptor')
    reader_uses_last = 'ancestors[-1]' in norm(rd.node)
    for fname in ('_describe_regular_scalar', '_describe_enum'):
        fn = repo.func(f'{MOD}.{fname}')
        for lp in [n for n in ast.walk(fn.node) if isinstance(n, ast.For)]:
            app = [i for i, st in enumerate(lp.body)
                   if 'ancestors.append(' in norm(st)]
            brk = [i for i, st in enumerate(lp.body) if isinstance(st, ast.If)
                   and any(isinstance(x, ast.Break) for x in st.body)]
            if not app or not brk:
                continue
            ok = app[0] < brk[0] or not reader_uses_last
            ctx.ob('C14.R1', f'{fname}:ancestors-include-terminator', ok,
                   f'{fname} stops its ancestor walk before appending the '
                   f'fundamental type, but the decoder takes ancestors[-1] '
                   f'as the fundamental type: a derived scalar is described '
                   f'with the wrong (or no) base type',
                   f'{fn.module.rel()}:{lp.lineno}',
                   sample='append precedes the break test')

    reg = repo.func(f'{MOD}._register_type_id')
    from .. import shapes as SH
    st = SH.subscript_stores(reg.node, '.uuid_to_pos')
    if not st:
        raise AnalysisError('C14.R4: _register_type_id no longer stores '
                            'into uuid_to_pos')
    # the stored position is the current size of the table, and an id that
    # is already present keeps its position
    ok = all(norm(a.value) == f'len({norm(a.targets[0].value)})'
             for a in st)
    for a in st:
        key = norm(a.targets[0].slice)
        guard = [n for n in ast.walk(reg.node) if isinstance(n, ast.If)
                 and any(x is a for b in n.body for x in ast.walk(b))
                 and norm(n.test) in (
                     f'{key} not in {norm(a.targets[0].value)}',
                     f'({key} not in {norm(a.targets[0].value)})')]
        ok = ok and bool(guard)
    ctx.ob('C14.R4', '_register_type_id:position', ok,
           'a descriptor\'s position is not its index in emission order '
           '(type references are positions)', reg.loc,
           sample='uuid_to_pos[id] = len(uuid_to_pos)')
    trp = repo.func(f'{MOD}._type_ref_id_packer')
    ok = 'ctx.uuid_to_pos[type_id]' in norm(trp.node)
    ctx.ob('C14.R4', '_type_ref_id_packer:by-position', ok,
           'type references are not encoded as the referenced '
           'descriptor\'s position', trp.loc,
           sample='_uint16_packer(ctx.uuid_to_pos[type_id])')

    _r5(repo, ctx)
    _r6(repo, ctx)
    _r7(repo, ctx)
    _r8(repo, ctx)
    _r9(repo, ctx)
    _r10(repo, ctx)


def _r5(repo: Repo, ctx) -> None:
    """Kind-specific describers are reached only through the dispatcher that
    selects them; element flags forced by the protocol."""
    from ..absint import Facts, must_pass, open_nodes
    from ..cfg import CFG
    ctx.floor('C14.R5', 6)
    m = repo.module(MOD)
    funcs = {f.name: f for f in repo._funcs_of(m)
             if f.name.startswith('_describe') and f.parent is None}
    selected = {}     # leaf -> dispatcher
    for name, f in funcs.items():
        rets = [r.value for r in ast.walk(f.node) if isinstance(r, ast.Return)
                and isinstance(r.value, ast.Call)
                and (call_name(r.value) or '') in funcs
                and call_name(r.value) != name]
        tgt = {call_name(r) for r in rets}
        if len(tgt) >= 2:
            for t in tgt:
                selected[t] = name
    if len(selected) < 4:
        raise AnalysisError(f'C14.R5: dispatchers not recognised '
                            f'({selected})')
    for f in repo._funcs_of(m):
        for c in ast.walk(f.node):
            if isinstance(c, ast.Call) and (call_name(c) or '') in selected:
                leaf = call_name(c)
                top = f
                while top.parent is not None:
                    top = top.parent
                ok = top.name == selected[leaf]
                ctx.ob('C14.R5', f'{top.name}:calls={leaf}', ok,
                       f'{top.name} describes a type with the kind-specific '
                       f'{leaf} directly instead of going through '
                       f'{selected[leaf]}, which decides the kind: a nested '
                       f'type of the other kind (a compound inside a '
                       f'compound, an enum where a scalar is expected) is '
                       f'described with the wrong descriptor', f.loc,
                       sample=f'{leaf} only from {selected[leaf]}')
    # element flags of an object shape
    sh = repo.func(f'{MOD}._describe_object_shape')
    g = CFG(sh.node)
    impl = [n.id for n in g.nodes if n.kind == 'stmt' and isinstance(
        n.ast, ast.AugAssign) and norm(n.ast.target) == 'flags'
        and 'IS_IMPLICIT' in norm(n.ast.value)]
    if not impl:
        raise AnalysisError('C14.R5: IS_IMPLICIT flagging not found')
    for fid, facts, want in (
            ('__tid__-always-implicit',
             {'el_name': '__tid__', 'implicit_id': False}, True),
            ('__tid__-implicit-with-implicit-id',
             {'el_name': '__tid__', 'implicit_id': True}, True),
            ('explicit-id-not-implicit',
             {'el_name': 'id', 'implicit_id': False}, False),
            ('implicit-id-implicit',
             {'el_name': 'id', 'implicit_id': True}, True),
            ('other-element-not-implicit',
             {'el_name': 'name', 'implicit_id': True}, False)):
        F = Facts(facts, sh.node)
        on = open_nodes(g, F)
        reach = bool(set(impl) & on)
        # decided means: the guarding test evaluated to a definite value
        tests = [t for t in g.nodes if t.kind == 'test' and any(
            g.edge_dominates(t.id, 'T', i) for i in impl)]
        decided = all(F.eval(t.ast) is not None for t in tests) and tests
        if not decided:
            raise AnalysisError(f'C14.R5 {fid}: the IS_IMPLICIT guard is '
                                f'not decided by (el_name, implicit_id) any '
                                f'more')
        ctx.ob('C14.R5', f'_describe_object_shape:{fid}', reach == want,
               f'with {facts} the element is '
               f'{"" if reach else "not "}flagged IS_IMPLICIT, expected '
               f'{"flagged" if want else "not flagged"}: clients hide or '
               f'show the injected id / __tid__ elements by this flag',
               sh.loc, sample=f'{facts} -> implicit={want}')


def _r6(repo: Repo, ctx) -> None:
    """A length prefix counts the bytes of the payload that follows it."""
    from ..model import inline_locals
    ctx.floor('C14.R6', 2)
    m = repo.module(MOD)

    def is_len_prefix(e):
        return isinstance(e, ast.Call) and (call_name(e) or '').startswith(
            '_uint') and (call_name(e) or '').endswith('_packer') and \
            len(e.args) == 1 and isinstance(e.args[0], ast.Call) and \
            norm(e.args[0].func) == 'len' and len(e.args[0].args) == 1

    n = 0
    for f in repo._funcs_of(m):
        # (1) prefix + payload in one expression
        for b in ast.walk(f.node):
            if isinstance(b, ast.BinOp) and isinstance(b.op, ast.Add) and \
                    is_len_prefix(b.left):
                n += 1
                a = inline_locals(f.node, b.left.args[0].args[0])
                pay = inline_locals(f.node, b.right)
                ok = a == pay
                # an element count in front of the joined elements
                r_ = b.right
                if isinstance(r_, ast.Call) and isinstance(
                        r_.func, ast.Attribute) and r_.func.attr == 'join' \
                        and len(r_.args) == 1 and isinstance(
                        r_.args[0], (ast.GeneratorExp, ast.ListComp)) and \
                        len(r_.args[0].generators) == 1 and not \
                        r_.args[0].generators[0].ifs and inline_locals(
                            f.node, r_.args[0].generators[0].iter) == a:
                    ok = True
                ctx.saw(f)
                ctx.ob('C14.R6', f'{f.name}:len-prefix=payload', ok,
                       f'{f.name} prefixes `{pay[:40]}` with len({a[:30]}): '
                       f'the reader consumes that many *bytes*; for '
                       f'non-ASCII text the character count is smaller than '
                       f'the encoded length, so every field after it is '
                       f'misread', f.loc, sample=f'len({a[:30]})')
        # (2) append(prefix) ; append(payload)
        for blk in ast.walk(f.node):
            body = getattr(blk, 'body', None)
            if not isinstance(body, list):
                continue
            for s1, s2 in zip(body, body[1:]):
                c1 = s1.value if isinstance(s1, ast.Expr) else None
                c2 = s2.value if isinstance(s2, ast.Expr) else None
                if not (isinstance(c1, ast.Call) and isinstance(
                        c2, ast.Call) and isinstance(c1.func, ast.Attribute)
                        and c1.func.attr == 'append' and norm(c1.func) ==
                        norm(c2.func) and c1.args and c2.args
                        and is_len_prefix(c1.args[0])
                        and isinstance(c2.args[0], ast.Name)):
                    continue
                n += 1
                a = norm(c1.args[0].args[0].args[0])
                ok = a == c2.args[0].id
                ctx.saw(f)
                ctx.ob('C14.R6', f'{f.qualname.split(".")[-2]}.{f.name}:'
                       f'len-prefix=payload@L{s1.lineno - f.node.lineno}',
                       ok, f'{f.name} appends len({a}) and then '
                       f'`{c2.args[0].id}`: prefix and payload disagree',
                       f.loc, sample=f'len({a})')
    if n < 2:
        raise AnalysisError(f'C14.R6: only {n} length-prefixed payloads')


def _r7(repo: Repo, ctx) -> None:
    """C14.R7 per-element metadata describes the element that was selected.

    In the shape describers each loop iteration describes one pointer of the
    query's shape: its type comes from `<ptr>.get_target(...)` of the loop
    variable (the *view* pointer, which carries what the query made of it:
    `name := .name ?? 'x'` is required although the schema property is not).
    Cardinality and link flag of the same element must be computed from the
    same variable; the material (schema) pointer is only needed for the
    element's source type."""
    ctx.floor('C14.R7', 3)
    m = repo.module(MOD)
    PER_ELEMENT = ('cardinalities', 'links')
    n = 0
    for f in repo._funcs_of(m):
        if not f.name.startswith(('_describe_object_shape',
                                  'describe_input_shape',
                                  '_describe_input_shape')):
            continue
        for lp in [l for l in ast.walk(f.node) if isinstance(l, ast.For)
                   and isinstance(l.target, ast.Name)]:
            var = lp.target.id
            # loops that describe the element's type from the loop variable
            if not any(isinstance(c, ast.Call) and norm(c.func) ==
                       f'{var}.get_target' for c in ast.walk(lp)):
                continue
            for c in ast.walk(lp):
                if not (isinstance(c, ast.Call) and isinstance(
                        c.func, ast.Attribute) and c.func.attr == 'append'
                        and norm(c.func.value) in PER_ELEMENT and c.args):
                    continue
                names = {x.id for x in ast.walk(c.args[0])
                         if isinstance(x, ast.Name)} - {
                             'ctx', 'cardinality_from_ptr', 'enums', 'True',
                             'False'}
                if not names:
                    continue            # a constant (link properties)
                n += 1
                ctx.saw(f)
                ctx.ob('C14.R7',
                       f'{f.name}:{norm(c.func.value)}-from-element',
                       names <= {var},
                       f'{f.name} computes `{norm(c.func.value)}` of a shape '
                       f'element from {sorted(names)} instead of the '
                       f'pointer `{var}` whose target type is described: an '
                       f'element that redefines a schema pointer '
                       f'(`name := .name ?? \'x\'`, `assert_single(...)`) '
                       f'is described with the schema pointer\'s '
                       f'cardinality, and two shapes that differ only in '
                       f'that get the same id',
                       f'{f.module.rel()}:{c.lineno}',
                       sample=norm(c.args[0])[:60])
    if n < 3:
        raise AnalysisError('C14.R7: per-element appends of the shape '
                            'describers not found')



# reductions that map different inputs to one output: what goes through one
# of them on its way into a content-derived id no longer tells descriptors
# apart
_LOSSY_CALLS = {'any', 'all', 'len', 'bool', 'set', 'frozenset', 'sorted',
                'max', 'min', 'sum', 'hash', 'id', 'type', 'abs', 'round'}
_LOSSY_METHODS = {'lower', 'upper', 'casefold', 'strip', 'lstrip', 'rstrip',
                  'title', 'capitalize', 'swapcase', 'split', 'partition',
                  'rpartition', 'removeprefix', 'removesuffix', 'encode',
                  'isdigit', 'isalpha', 'startswith', 'endswith', 'count',
                  'find', 'index'}


def _lossy_in(e: ast.AST, names) -> str:
    """text of a lossy reduction inside e that consumes one of `names`"""
    for x in ast.walk(e):
        if isinstance(x, ast.Call):
            tgt = None
            if isinstance(x.func, ast.Name) and x.func.id in _LOSSY_CALLS:
                tgt = list(x.args)
            elif isinstance(x.func, ast.Attribute) and \
                    x.func.attr in _LOSSY_METHODS:
                tgt = [x.func.value]
            if tgt and any(isinstance(y, ast.Name) and y.id in names
                           for t in tgt for y in ast.walk(t)):
                return norm(x)[:60]
        if isinstance(x, ast.Subscript) and isinstance(x.slice, ast.Slice) \
                and any(isinstance(y, ast.Name) and y.id in names
                        for y in ast.walk(x.value)):
            return norm(x)[:60]
    return ''


def _r8(repo: Repo, ctx) -> None:
    """C14.R8 the content-derived id consumes its inputs without losing
    information.  (a) inside the id functions every parameter reaches the
    hashed text directly -- str / repr / join / per-element rendering -- and
    never through a reduction (any, len, set, lower, a slice ...) that maps
    different inputs to one text; a parameter used only in tests (`if
    names:`) besides is fine.  (b) what is appended to a list handed to an
    id function is the value itself, not a reduction of it: two descriptors
    whose bytes differ in that value would share the id."""
    ctx.floor('C14.R8', 8)
    m = repo.module(MOD)
    idfns = {}
    for f in repo._funcs_of(m):
        if f.parent is None and any(
                isinstance(c, ast.Call) and call_name(c) in (
                    'uuidgen.uuid5', 'uuid5', 'uuid.uuid5')
                for c in ast.walk(f.node)):
            idfns[f.name] = f
    # a function that returns what an id function computes from its own
    # parameters is one too (a caching / normalising front)
    for _ in range(3):
        for f in repo._funcs_of(m):
            if f.parent is None and f.name not in idfns and any(
                    isinstance(r, ast.Return) and isinstance(
                        r.value, ast.Call) and call_name(r.value) in idfns
                    for r in ast.walk(f.node)):
                idfns[f.name] = f
    if len(idfns) < 3:
        raise AnalysisError(f'C14.R8: id functions not found ({sorted(idfns)})')
    for name, f in sorted(idfns.items()):
        ctx.saw(f)
        params = [p for p in f.params()]
        # locals derived from parameters keep the taint of the parameter
        for p in params:
            tainted = {p}
            for _ in range(3):
                for a in ast.walk(f.node):
                    if isinstance(a, ast.Assign) and any(
                            isinstance(y, ast.Name) and y.id in tainted
                            for y in ast.walk(a.value)) and not _lossy_in(
                                a.value, tainted):
                        for t in a.targets:
                            if isinstance(t, ast.Name):
                                tainted.add(t.id)
            bad = ''
            for st in ast.walk(f.node):
                if isinstance(st, (ast.Assign, ast.AugAssign, ast.Return,
                                   ast.Expr)) and st.value is not None:
                    bad = bad or _lossy_in(st.value, tainted)
            ctx.ob('C14.R8', f'{name}:param={p}', not bad,
                   f'{name} feeds `{p}` into the id through `{bad}`: '
                   f'inputs that differ in what the reduction drops get the '
                   f'same id although their descriptors differ (a client '
                   f'caches the wrong shape under that id)', f.loc,
                   sample=f'{p}: rendered without reduction')
    # (b) lists handed to an id function
    n = 0
    for f in repo._funcs_of(m):
        if f.parent is not None or f.name in idfns:
            continue
        lists = set()
        for c in ast.walk(f.node):
            if isinstance(c, ast.Call) and call_name(c) in idfns:
                for a in list(c.args) + [k.value for k in c.keywords]:
                    if isinstance(a, ast.Name):
                        lists.add(a.id)
        if not lists:
            continue
        for c in ast.walk(f.node):
            if isinstance(c, ast.Call) and isinstance(c.func, ast.Attribute) \
                    and c.func.attr in ('append', 'extend', 'insert') \
                    and isinstance(c.func.value, ast.Name) \
                    and c.func.value.id in lists and c.args:
                val = c.args[-1]
                allnames = {y.id for y in ast.walk(val)
                            if isinstance(y, ast.Name)}
                bad = _lossy_in(val, allnames)
                n += 1
                ctx.ob('C14.R8', f'{f.name}:{c.func.value.id}.append', not bad,
                       f'{f.name} records `{bad}` in `{c.func.value.id}`, '
                       f'which the id is computed from, instead of the value '
                       f'written to the descriptor: descriptors that differ '
                       f'only in what the reduction drops share an id',
                       f'{f.module.rel()}:{c.lineno}',
                       sample=norm(val)[:50])
    if n < 4:
        raise AnalysisError(f'C14.R8: only {n} id-input list stores found')



def _r9(repo: Repo, ctx) -> None:
    """C14.R9 inside the per-element loops, the decoder makes a field
    optional exactly where the encoder does.  R1 reads an undecided branch
    of a decoder as a choice, which is right for a branch on wire data but
    lets a decoder skip a field on a condition the encoder knows nothing
    about.  Here the *presence conditions* are compared: a conjunct of an
    `if` test one arm of which writes (encoder) / reads (decoder) while the
    other does not.  Protocol-version conjuncts have to be the same set on
    both sides; any other decoder-side presence condition needs an
    encoder-side counterpart."""
    ctx.floor('C14.R9', 1)
    m = repo.module(MOD)
    enc_by_tag: Dict[str, List[ast.FunctionDef]] = {}
    dec_by_tag: Dict[str, List[ast.FunctionDef]] = {}
    for fn in m.tree.body:
        if not isinstance(fn, ast.FunctionDef):
            continue
        for d in fn.decorator_list:
            if isinstance(d, ast.Call) and norm(d.func) == \
                    '_parse_descriptor.register' and d.args:
                dec_by_tag.setdefault(norm(d.args[0]).split('.')[-1],
                                      []).append(fn)
        if fn.name.startswith(('_describe', 'describe')):
            for x in ast.walk(fn):
                if isinstance(x, ast.Attribute) and x.attr == '_value_' and \
                        norm(x.value).startswith('DescriptorTag.'):
                    enc_by_tag.setdefault(norm(x.value).split('.')[-1],
                                          []).append(fn)

    def is_io(c: ast.Call, enc: bool) -> bool:
        if enc:
            return isinstance(c.func, ast.Attribute) and \
                c.func.attr == 'append' and norm(c.func.value).endswith('buf')
        return any(norm(a) == 'desc' for a in c.args) or \
            norm(c.func).startswith('desc.')

    def presence(fn: ast.FunctionDef, enc: bool):
        ver, other = set(), set()
        for lp in ast.walk(fn):
            if not isinstance(lp, (ast.For, ast.While)):
                continue
            for i in ast.walk(lp):
                if not isinstance(i, ast.If):
                    continue
                a = any(isinstance(c, ast.Call) and is_io(c, enc)
                        for st in i.body for c in ast.walk(st))
                b = any(isinstance(c, ast.Call) and is_io(c, enc)
                        for st in i.orelse for c in ast.walk(st))
                if a == b:
                    continue          # both arms (or neither) move bytes
                conj = i.test.values if isinstance(i.test, ast.BoolOp) and \
                    isinstance(i.test.op, ast.And) else [i.test]
                for t in conj:
                    txt = norm(t).replace('ctx.', '')
                    (ver if 'protocol_version' in txt else other).add(txt)
        return ver, other
    n = 0
    for tag in sorted(set(enc_by_tag) & set(dec_by_tag)):
        ev, eo, dv, do = set(), set(), set(), set()
        for fn in enc_by_tag[tag]:
            v, o = presence(fn, True)
            ev |= v
            eo |= o
        for fn in dec_by_tag[tag]:
            v, o = presence(fn, False)
            dv |= v
            do |= o
        if not (ev or eo or dv or do):
            continue
        n += 1
        dname = dec_by_tag[tag][0].name
        if do and eo:
            raise AnalysisError(f'C14.R9: {tag}: both sides make element '
                                f'fields optional on non-version conditions '
                                f'({sorted(eo)} / {sorted(do)}): cannot '
                                f'pair them')
        ctx.ob('C14.R9', f'{tag}:element-presence-conditions',
               ev == dv and not do,
               f'{dname} reads an element field only when '
               f'{sorted(dv | do)} while the encoder writes it when '
               f'{sorted(ev | eo) or "always"}: whenever the two disagree '
               f'every later field of the descriptor is read at the wrong '
               f'offset', f'{m.rel()}:{dec_by_tag[tag][0].lineno}',
               sample=f'encoder {sorted(ev | eo)} = decoder '
                      f'{sorted(dv | do)}')
    if n < 1:
        raise AnalysisError('C14.R9: no tag with conditional element fields '
                            'on both sides found')



def _r10(repo: Repo, ctx) -> None:
    """C14.R10 a collection descriptor describes the collection's own element
    types.  The describers of tuples, arrays, ranges and multiranges walk
    `t.get_subtypes(schema)` and describe each element as it is; the id and
    the element references of the descriptor then name the types the data
    is encoded with.  A describer that swaps an element for another type
    first (its base, its material type) announces a codec the data was not
    produced for.  Sibling agreement: no describer re-binds the element
    between the walk and the recursive description."""
    ctx.floor('C14.R10', 4)
    m = repo.module(MOD)
    n = 0
    for fn in m.tree.body:
        if not isinstance(fn, ast.FunctionDef) or not \
                fn.name.startswith('_describe_'):
            continue
        walks = []
        for x in ast.walk(fn):
            if isinstance(x, (ast.For, ast.comprehension)) and isinstance(
                    x.target, ast.Name) and any(
                    isinstance(c, ast.Call) and isinstance(
                        c.func, ast.Attribute)
                    and c.func.attr in ('get_subtypes', 'iter_subtypes')
                    for c in ast.walk(x.iter)):
                walks.append(x)
        for w in walks:
            var = w.target.id
            scope = w if isinstance(w, ast.For) else fn
            described = [c for c in ast.walk(fn) if isinstance(c, ast.Call)
                         and (call_name(c) or '') == '_describe_type'
                         and c.args and isinstance(c.args[0], ast.Name)
                         and c.args[0].id == var]
            if not described:
                continue
            n += 1
            rebinds = [st for st in ast.walk(scope)
                       if isinstance(st, (ast.Assign, ast.AugAssign,
                                          ast.AnnAssign, ast.NamedExpr))
                       and any(isinstance(t, ast.Name) and t.id == var
                               and isinstance(t.ctx, ast.Store)
                               and not any(t is cg.target for cg in
                                           ast.walk(st) if isinstance(
                                               cg, ast.comprehension))
                               for t in ast.walk(st))]
            ctx.ob('C14.R10', f'{fn.name}:element-described-as-declared',
                   not rebinds,
                   f'{fn.name} replaces an element type of the collection '
                   f'(`{norm(rebinds[0])[:70] if rebinds else ""}`) before '
                   f'describing it: the descriptor (and the id computed '
                   f'from it) names another element type than the one the '
                   f'values are encoded with; every other collection '
                   f'describer describes the subtypes as they are',
                   f'{m.rel()}:{(rebinds[0].lineno if rebinds else fn.lineno)}',
                   sample=f'for {var} in t.get_subtypes(..): '
                          f'_describe_type({var})')
    if n < 4:
        raise AnalysisError(f'C14.R10: only {n} collection describers that '
                            f'walk get_subtypes were found')
