"""C09 — compiler session state follows transaction / savepoint semantics.

Rules R1–R8 of DESIGN §3/C09 over edb/server/compiler/dbstate.py,
compiler.py (_compile_ql_transaction, compile_in_tx) and ddl.py (migration
blocks).  dbview.pyx (Cython) is out of reach.
"""
from __future__ import annotations

import ast
import re
from typing import List

from ..cfg import CFG
from ..model import (AnalysisError, FuncInfo, Repo, call_name, dotted, kwarg,
                     norm, walk_no_nested)

DBS = 'edb.server.compiler.dbstate'
COMP = 'edb.server.compiler.compiler'
DDL = 'edb.server.compiler.ddl'


def words(name: str) -> List[str]:
    s = re.sub(r'([a-z0-9])([A-Z])', r'\1 \2', name)
    return [w.lower() for w in re.split(r'[\s_]+', s) if w]


def run(repo: Repo, ctx) -> None:
    ctx.explanation = (
        'Decides for the compiler-side session state: R1 rollback/commit '
        'rebuild the transaction from _state0/_current with every state '
        'field passed under its own name and the keyword set equal to the '
        'parameter sets down to TransactionState; R2 savepoint commands and '
        'COMMIT raise outside an explicit transaction before doing anything, '
        'START raises when already explicit; R3 _state0 is frozen, updates '
        'rebuild _current by _replace, savepoint tables receive whole '
        'states; R4 statement class, state method, TxAction and SQL verb of '
        'each branch of _compile_ql_transaction agree and cover all '
        'Transaction subclasses; R5 COMMIT reads the if-updated values '
        'before resetting the baseline; R6 rollback-to tests before erasing, '
        'release erases before testing, both newest-first and raising on no '
        'match; R7 re-synchronisation shape; R8 migration blocks pair their '
        'savepoint. Same-named savepoint histories and dbview.pyx are not '
        'decided.')
    ctx.not_decided = ['stack algorithm for same-named savepoints',
                       '_savepoints_log hygiene', 'dbview.pyx (Cython)']

    cs = repo.cls(f'{DBS}.CompilerConnectionState')
    tx = repo.cls(f'{DBS}.Transaction')
    ts = repo.cls(f'{DBS}.TransactionState')
    for f in list(cs.methods.values()) + list(tx.methods.values()):
        ctx.saw(f)

    # ---- R1 ------------------------------------------------------------
    ctx.floor('C09.R1', 10)
    init_tx = repo.find_method(cs.qualname, '_init_current_tx')
    tinit = repo.find_method(tx.qualname, '__init__')
    if init_tx is None or tinit is None:
        raise AnalysisError('C09: _init_current_tx / Transaction.__init__ '
                            'not found')
    kwonly = [a.arg for a in init_tx.node.args.kwonlyargs]
    tparams = [a.arg for a in tinit.node.args.kwonlyargs if a.arg != 'implicit']
    ctx.ob('C09.R1', '_init_current_tx:params==Transaction.__init__',
           kwonly == tparams,
           f'_init_current_tx takes {kwonly}, Transaction.__init__ takes '
           f'{tparams}', init_tx.loc, sample=kwonly)
    # _init_current_tx forwards each under its own name
    calls = [c for c in ast.walk(init_tx.node) if isinstance(c, ast.Call)
             and call_name(c) == 'Transaction']
    ok = len(calls) == 1 and all(
        k.arg in kwonly and norm(k.value) == k.arg
        for k in calls[0].keywords) and {k.arg for k in calls[0].keywords} \
        == set(kwonly)
    ctx.ob('C09.R1', '_init_current_tx:forwards', ok,
           '_init_current_tx does not forward every state parameter under '
           'its own name', init_tx.loc, sample=kwonly)
    # Transaction.__init__ stores each into TransactionState
    tcalls = [c for c in ast.walk(tinit.node) if isinstance(c, ast.Call)
              and call_name(c) == 'TransactionState']
    if len(tcalls) != 1:
        raise AnalysisError('C09.R1: TransactionState(...) in Transaction.'
                            '__init__ not found')
    tkw = {k.arg: norm(k.value) for k in tcalls[0].keywords}
    ts_fields = list(ts.ann_fields)
    for p in tparams:
        field = 'local_user_schema' if p == 'user_schema' else p
        v = tkw.get(field)
        ok = v is not None and p in v and field in ts_fields and all(
            q not in v.replace('root_user_schema', '')
            for q in tparams if q != p and q not in p and p not in q)
        ctx.ob('C09.R1', f'Transaction.__init__:stores={p}', ok,
               f'state parameter {p} is not stored in TransactionState.'
               f'{field} (got {v})', tinit.loc, sample=f'{field}={v}')
    for meth, srcattr in (('rollback_tx', '_state0'), ('commit_tx',
                                                       '_current')):
        f = repo.find_method(cs.qualname, meth)
        if f is None:
            raise AnalysisError(f'C09.R1: {meth} not found')
        ic = [c for c in ast.walk(f.node) if isinstance(c, ast.Call)
              and norm(c.func) == 'self._init_current_tx']
        if len(ic) != 1:
            raise AnalysisError(f'C09.R1: {meth} does not call '
                                f'_init_current_tx exactly once')
        srcs = set()
        for k in ic[0].keywords:
            v = k.value
            ok = isinstance(v, ast.Attribute) and v.attr == k.arg \
                and isinstance(v.value, ast.Name)
            if ok:
                srcs.add(v.value.id)
            ctx.ob('C09.R1', f'{meth}:field={k.arg}', ok,
                   f'{meth} passes {k.arg}={norm(v)}: not the same-named '
                   f'field of the snapshot', f'{f.module.rel()}:{v.lineno}',
                   sample=f'{k.arg}={norm(v)}')
        ok = {k.arg for k in ic[0].keywords} == set(kwonly)
        ctx.ob('C09.R1', f'{meth}:all-fields', ok,
               f'{meth} does not pass every state field '
               f'({sorted(set(kwonly) - {k.arg for k in ic[0].keywords})} '
               f'missing)', f.loc, sample=sorted(kwonly))
        # the snapshot variable is bound to self._current_tx.<srcattr>
        ok = len(srcs) == 1
        if ok:
            var = next(iter(srcs))
            binds = [n for n in walk_no_nested(f.node)
                     if isinstance(n, ast.Assign) and norm(n.targets[0]) == var]
            ok = len(binds) == 1 and norm(binds[0].value) == \
                f'self._current_tx.{srcattr}'
            # and is what the method returns
            rets = [n for n in walk_no_nested(f.node)
                    if isinstance(n, ast.Return)]
            ok = ok and all(norm(r.value) == var for r in rets)
        ctx.ob('C09.R1', f'{meth}:snapshot-source', ok,
               f'{meth} does not rebuild from and return '
               f'self._current_tx.{srcattr}', f.loc,
               sample=f'snapshot = self._current_tx.{srcattr}')

    # ---- R2 guards dominate -------------------------------------------
    ctx.floor('C09.R2', 5)

    def guard_first(f: FuncInfo, test_txt: str, exc: str, polarity='T'):
        g = CFG(f.node)
        tests = [t for t in g.nodes if t.kind == 'test'
                 and norm(t.ast) == test_txt]
        if not tests:
            return False, 'guard test not found'
        t = tests[0]
        # nothing with an effect on the object happens before the guard:
        # every statement that calls a method of / assigns through `self`
        # is dominated by the guard
        def effectful(n):
            if n.ast is None or n.id == t.id:
                return False
            for e in g.node_exprs(n):
                for x in ast.walk(e):
                    if isinstance(x, ast.Call) and norm(x.func).startswith(
                            'self.') and norm(x) != test_txt:
                        return True
            if isinstance(n.ast, (ast.Assign, ast.AugAssign)):
                tg = n.ast.targets if isinstance(n.ast, ast.Assign) \
                    else [n.ast.target]
                if any(norm(x).startswith('self.') for x in tg):
                    return True
            return False
        early = [n.id for n in g.nodes if effectful(n)
                 and not g.always_before(n.id, [t.id])]
        if early:
            return False, 'guard is not the first statement'
        succ = [s for s, lab in g.nodes[t.id].succ if lab == polarity]
        r = g.reachable(succ) | set(succ)
        raises = [x for x in r if isinstance(g.nodes[x].ast, ast.Raise)
                  and exc in norm(g.nodes[x].ast)]
        if not raises or g.exit in r:
            return False, 'guarded branch does not always raise ' + exc
        return True, ''

    for name in ('declare_savepoint', 'rollback_to_savepoint',
                 'release_savepoint'):
        f = repo.find_method(tx.qualname, name)
        if f is None:
            raise AnalysisError(f'C09.R2: Transaction.{name} not found')
        ok, why = guard_first(f, 'self.is_implicit()', 'TransactionError')
        # and delegates to the private worker with the same name argument
        deleg = [c for c in ast.walk(f.node) if isinstance(c, ast.Call)
                 and norm(c.func) == f'self._{name}']
        ok2 = len(deleg) == 1 and [norm(a) for a in deleg[0].args] == \
            f.params()[1:]
        ctx.ob('C09.R2', f'Transaction.{name}:implicit-guard', ok and ok2,
               f'{name} does not reject use outside a transaction block '
               f'before delegating ({why})', f.loc,
               sample='if self.is_implicit(): raise TransactionError')
    f = repo.find_method(cs.qualname, 'commit_tx')
    ok, why = guard_first(f, 'self._current_tx.is_implicit()',
                          'TransactionError')
    ctx.ob('C09.R2', 'commit_tx:implicit-guard', ok,
           f'COMMIT outside a transaction block is not rejected first '
           f'({why})', f.loc, sample='if implicit: raise')
    f = repo.find_method(cs.qualname, 'start_tx')
    g = CFG(f.node)
    t = [x for x in g.nodes if x.kind == 'test'
         and norm(x.ast) == 'self._current_tx.is_implicit()']
    ok = False
    if t:
        fs = [s for s, lab in g.nodes[t[0].id].succ if lab == 'F']
        r = g.reachable(fs) | set(fs)
        ts_ = [s for s, lab in g.nodes[t[0].id].succ if lab == 'T']
        rt = g.reachable(ts_) | set(ts_)
        ok = g.exit not in r and any(
            isinstance(g.nodes[x].ast, ast.Raise) for x in r) and any(
            'make_explicit' in norm(g.nodes[x].ast) for x in rt
            if g.nodes[x].ast is not None)
    ctx.ob('C09.R2', 'start_tx:already-explicit', ok,
           'START TRANSACTION inside an explicit transaction is not '
           'rejected, or an implicit one is not made explicit', f.loc,
           sample='implicit -> make_explicit(); else raise')
    f = repo.find_method(tx.qualname, 'make_explicit')
    from .. import shapes as SH
    from ..model import inline_locals
    flips = [a for a in SH.assigns_attr(f.node, '_implicit', 'self')
             if norm(a.value) == 'False']
    ok = bool(flips) and SH.raises([f.node], 'TransactionError')
    ctx.ob('C09.R2', 'Transaction.make_explicit', ok,
           'make_explicit does not flip the flag / reject double start',
           f.loc, sample='_implicit=False or raise')

    # ---- R3 persistent state ---------------------------------------------
    ctx.floor('C09.R3', 8)
    for m in repo.modules_in('edb.server'):
        for n in ast.walk(m.tree):
            if isinstance(n, (ast.Assign, ast.AugAssign)):
                tg = n.targets if isinstance(n, ast.Assign) else [n.target]
                for t in tg:
                    if isinstance(t, ast.Attribute) and t.attr == '_state0':
                        fn = repo.enclosing_function(m, n)
                        ok = fn is tinit
                        ctx.ob('C09.R3',
                               f'{fn.qualname if fn else m.name}:_state0',
                               ok, '_state0 (the transaction-start snapshot)'
                               ' is assigned outside Transaction.__init__',
                               f'{m.rel()}:{n.lineno}',
                               sample='_state0 set once in __init__')
    for name, f in sorted(tx.methods.items()):
        if not name.startswith('update_'):
            continue
        assigns = [n for n in walk_no_nested(f.node)
                   if isinstance(n, ast.Assign)
                   and norm(n.targets[0]) == 'self._current']
        ok = len(assigns) == 1 and isinstance(assigns[0].value, ast.Call) \
            and norm(assigns[0].value.func) == 'self._current._replace'
        if ok:
            # the replaced field(s) belong to TransactionState and the
            # value is the method's own parameter (or derived from it)
            ps = set(f.params()[1:])
            for k in assigns[0].value.keywords:
                used = {x.id for x in ast.walk(k.value)
                        if isinstance(x, ast.Name)}
                derived = set()
                for n in walk_no_nested(f.node):
                    if isinstance(n, ast.Assign) and (
                            {x.id for x in ast.walk(n.value)
                             if isinstance(x, ast.Name)} & ps):
                        derived |= {norm(t) for t in n.targets}
                if k.arg not in ts_fields or not (used & (ps | derived)):
                    ok = False
        ctx.ob('C09.R3', f'Transaction.{name}:replace', ok,
               f'{name} does not rebuild _current by _replace of a '
               f'TransactionState field from its argument', f.loc,
               sample=norm(assigns[0].value)[:80] if assigns else None)
    # field/method namesake: update_X replaces field X (schema: two fields)
    for name, f in sorted(tx.methods.items()):
        if name.startswith('update_') and name != 'update_schema':
            field = name[len('update_'):]
            kws = [k.arg for n in ast.walk(f.node) if isinstance(n, ast.Call)
                   and norm(n.func) == 'self._current._replace'
                   for k in n.keywords]
            ctx.ob('C09.R3', f'Transaction.{name}:field', kws == [field],
                   f'{name} replaces {kws}, expected [{field}]', f.loc,
                   sample=kws)
    # get_X returns _current.X ; get_X_if_updated compares with _state0.X
    for name, f in sorted(tx.methods.items()):
        if name.startswith('get_') and name not in ('get_schema',):
            base = name[len('get_'):]
            upd = base.endswith('_if_updated')
            field = base[:-len('_if_updated')] if upd else base
            rets = [norm(r.value) for r in walk_no_nested(f.node)
                    if isinstance(r, ast.Return) and r.value is not None]
            if upd:
                tests = [norm(n.test) for n in ast.walk(f.node)
                         if isinstance(n, ast.If)]
                ok = len(tests) == 1 and f'self._current.{field}' in \
                    tests[0] and f'self._state0.{field}' in tests[0] and \
                    set(rets) == {'None', f'self._current.{field}'}
            else:
                ok = rets == [f'self._current.{field}']
            ctx.ob('C09.R3', f'Transaction.{name}:reads', ok,
                   f'{name} does not read _current.{field}'
                   + (' against _state0' if upd else ''), f.loc,
                   sample=rets)
    # savepoint tables receive whole TransactionState values
    ds = repo.find_method(tx.qualname, '_declare_savepoint')
    # both tables receive one value: _current._replace(id=<fresh txid>,
    # name=<the savepoint name parameter>)
    spname = SH.param(ds.node, 0)
    st1 = SH.subscript_stores(ds.node, 'self._savepoints')
    st2 = SH.subscript_stores(ds.node, '_savepoints_log')
    if not st1 and not st2:
        raise AnalysisError('C09.R3: _declare_savepoint no longer records '
                            'into the savepoint tables')
    vals = {inline_locals(ds.node, a.value) for a in st1 + st2}
    keys = {inline_locals(ds.node, a.targets[0].slice) for a in st1 + st2}
    ok = len(vals) == 1 and len(keys) == 1 and bool(st1) and bool(st2)
    if ok:
        v = next(iter(vals))
        k = next(iter(keys))
        ok = v.startswith('self._current._replace(') and \
            f'id={k}' in v and f'name={spname}' in v and \
            k.endswith('_new_txid()')
    ctx.ob('C09.R3', 'Transaction._declare_savepoint:snapshot', ok,
           'a savepoint is not a whole copy of _current under a fresh id, '
           'recorded in both tables', ds.loc,
           sample='sp_state=_current._replace(id, name) -> both tables')
    rets = [norm(r.value) for r in walk_no_nested(ds.node)
            if isinstance(r, ast.Return)]
    keyvars = {norm(a.targets[0].slice) for a in st1 + st2}
    ctx.ob('C09.R3', 'Transaction._declare_savepoint:returns-id',
           len(rets) == 1 and set(rets) <= keyvars,
           f'returns {rets}, tables are keyed by {sorted(keyvars)}', ds.loc,
           sample=rets)

    # ---- R4 four-way table --------------------------------------------------
    ctx.floor('C09.R4', 12)
    cq = repo.func(f'{COMP}._compile_ql_transaction')
    ctx.saw(cq)
    qparam = cq.params()[1]
    txbase = 'edb.edgeql.ast.Transaction'
    concrete = [q for q in repo.subclasses(txbase, strict=True)
                if not repo.subclasses(q, strict=True)]
    if len(concrete) < 4:
        raise AnalysisError('C09.R4: qlast.Transaction subclasses not found')
    branches = {}
    node = None
    for st in cq.node.body:
        if isinstance(st, ast.If) and isinstance(st.test, ast.Call) \
                and norm(st.test.func) == 'isinstance' \
                and norm(st.test.args[0]) == qparam \
                and not isinstance(st.test.args[1], ast.Tuple):
            node = st
    while node is not None:
        cls = repo.resolve_expr(cq.module, node.test.args[1])
        branches[cls] = node.body
        if len(node.orelse) == 1 and isinstance(node.orelse[0], ast.If) \
                and isinstance(node.orelse[0].test, ast.Call) \
                and norm(node.orelse[0].test.func) == 'isinstance':
            node = node.orelse[0]
        else:
            tail = node.orelse
            node = None
    ok = bool(tail) and any(isinstance(s, ast.Raise) for s in tail)
    ctx.ob('C09.R4', '_compile_ql_transaction:else-raises', ok,
           'unknown transaction statement falls through silently', cq.loc,
           sample='else: raise')
    for c in concrete:
        ctx.ob('C09.R4', f'_compile_ql_transaction:class={c.split(".")[-1]}',
               c in branches, f'{c} has no branch', cq.loc,
               sample='has branch')
    state_methods = set(cs.methods) | set(tx.methods)
    for cls, body in branches.items():
        cname = cls.split('.')[-1]
        cw = [w for w in words(cname) if w not in ('transaction',)]
        # state method called
        meths = []
        for st in body:
            for c in ast.walk(st):
                if isinstance(c, ast.Call) and isinstance(c.func,
                                                          ast.Attribute):
                    a = c.func.attr
                    if a in state_methods and not a.startswith(
                            ('get_', 'current_tx', 'is_')):
                        meths.append(a)
        acts = [norm(st.value).split('.')[-1] for st in body
                if isinstance(st, ast.Assign)
                and norm(st.targets[0]) == 'action']
        sqls = []
        for st in body:
            if isinstance(st, ast.Assign) and norm(st.targets[0]) in (
                    'sql', 'sqls'):
                v = st.value
                while isinstance(v, ast.Call):   # .encode()
                    v = v.func.value if isinstance(v.func, ast.Attribute) \
                        else None
                lit = None
                if isinstance(v, ast.Constant):
                    lit = v.value.decode() if isinstance(v.value, bytes) \
                        else str(v.value)
                elif isinstance(v, ast.JoinedStr) and v.values and \
                        isinstance(v.values[0], ast.Constant):
                    lit = str(v.values[0].value)
                if lit:
                    sqls.append(lit)
        mw = [[w for w in words(m) if w not in ('tx',)] for m in meths]
        aw = [w for a in acts for w in words(a)]
        ok_m = len(mw) == 1 and mw[0] == cw
        ok_a = aw == cw
        ctx.ob('C09.R4', f'_compile_ql_transaction:{cname}:method', ok_m,
               f'branch for {cname} calls state method(s) {meths}',
               cq.loc, sample=meths)
        ctx.ob('C09.R4', f'_compile_ql_transaction:{cname}:action', ok_a,
               f'branch for {cname} sets action {acts}', cq.loc, sample=acts)
        drop = {'declare', 'transaction'}
        ok_s = bool(sqls)
        if ok_s:
            sw = [w.lower() for w in re.findall(r'[A-Za-z]+', sqls[0])]
            want = [w for w in words(cname) if w not in drop]
            got = [w for w in sw if w not in drop][:len(want)]
            ok_s = got == want
        ctx.ob('C09.R4', f'_compile_ql_transaction:{cname}:sql', ok_s,
               f'branch for {cname} emits SQL {sqls[:1]}', cq.loc,
               sample=sqls[:1])
        # savepoint name: from ql.name, quoted
        if 'savepoint' in cw:
            args_ok = all(
                [norm(a) for a in c.args] == [f'{qparam}.name']
                for st in body for c in ast.walk(st)
                if isinstance(c, ast.Call) and isinstance(
                    c.func, ast.Attribute) and c.func.attr in meths)
            quoted = any('pg_common.quote_ident' in norm(st) and
                         f'{qparam}.name' in norm(st) for st in body)
            raw = any(isinstance(x, ast.FormattedValue) and
                      norm(x.value) == f'{qparam}.name'
                      for st in body for x in ast.walk(st))
            ctx.ob('C09.R4', f'_compile_ql_transaction:{cname}:name',
                   args_ok and quoted and not raw,
                   'savepoint name is not passed as ql.name to the state '
                   'and quoted into the SQL', cq.loc,
                   sample='state(ql.name); SQL uses quote_ident(ql.name)')
    # TxAction members all used
    acts_enum = [k for k in repo.cls(f'{DBS}.TxAction').assign_fields]
    used = {norm(st.value).split('.')[-1] for b in branches.values()
            for st in b if isinstance(st, ast.Assign)
            and norm(st.targets[0]) == 'action'}
    ctx.ob('C09.R4', 'TxAction:all-used', set(acts_enum) == used,
           f'TxAction members {sorted(set(acts_enum) - used)} unused / '
           f'{sorted(used - set(acts_enum))} unknown', cq.loc,
           sample=sorted(used))
    # rollback-type branches report the restored modaliases
    for cls, body in branches.items():
        cname = cls.split('.')[-1]
        if cname in ('RollbackTransaction', 'RollbackToSavepoint',
                     'CommitTransaction'):
            # role-based: some local bound in this branch is the state the
            # transaction switched to; its .modaliases is what is reported
            bound = {norm(st.targets[0]) for st in body
                     if isinstance(st, ast.Assign)
                     and isinstance(st.value, ast.Call)}
            ok = any(isinstance(st, ast.Assign)
                     and isinstance(st.value, ast.Attribute)
                     and st.value.attr == 'modaliases'
                     and norm(st.value.value) in bound for st in body)
            ctx.ob('C09.R4', f'_compile_ql_transaction:{cname}:modaliases',
                   ok, f'{cname} does not report the module aliases of the '
                   f'state it switched to', cq.loc,
                   sample='modaliases = new_state.modaliases')

    # ---- R5 read before reset ------------------------------------------------
    ctx.floor('C09.R5', 3)
    g = CFG(cq.node)
    commits = [n.id for n in g.nodes if any(
        norm(c.func).endswith('.commit_tx') for c in g.node_calls(n))]
    reads = [n for n in g.nodes if any(
        isinstance(c.func, ast.Attribute) and c.func.attr.endswith(
            '_if_updated') for c in g.node_calls(n))]
    if not commits or len(reads) < 3:
        raise AnalysisError('C09.R5: commit_tx / *_if_updated reads not '
                            'found')
    for r in reads:
        after = any(r.id in g.reachable([c]) for c in commits)
        before = all(g.always_before(c, [r.id]) for c in commits)
        what = [c.func.attr for c in g.node_calls(r)
                if isinstance(c.func, ast.Attribute)
                and c.func.attr.endswith('_if_updated')][0]
        ctx.ob('C09.R5', f'_compile_ql_transaction:{what}',
               before and not after,
               f'{what}() is evaluated after commit_tx() reset the baseline '
               f'(it would always report "unchanged")',
               f'{cq.module.rel()}:{r.lineno}',
               sample=f'{what} precedes commit_tx')
    # the three values reach the unit
    ret = [n for n in walk_no_nested(cq.node) if isinstance(n, ast.Return)]
    kw = {k.arg: norm(k.value) for k in ret[-1].value.keywords} \
        if ret and isinstance(ret[-1].value, ast.Call) else {}
    for k, v in (('user_schema', 'final_user_schema'),
                 ('cached_reflection', 'final_cached_reflection'),
                 ('global_schema', 'final_global_schema'),
                 ('sp_name', 'sp_name'), ('sp_id', 'sp_id'),
                 ('action', 'action'), ('modaliases', 'modaliases')):
        ctx.ob('C09.R5', f'_compile_ql_transaction:unit.{k}',
               kw.get(k) == v, f'TxControlQuery({k}={kw.get(k)})', cq.loc,
               sample=f'{k}={v}')

    # ---- R6 savepoint loops ----------------------------------------------------
    ctx.floor('C09.R6', 6)

    def with_helpers(f: FuncInfo):
        out = [f]
        for c in ast.walk(f.node):
            if isinstance(c, ast.Call) and isinstance(
                    c.func, ast.Attribute) and norm(c.func.value) == 'self':
                h = tx.methods.get(c.func.attr)
                if h is not None and h not in out:
                    out.append(h)
        return out

    for name, rollback in (('_rollback_to_savepoint', True),
                           ('_release_savepoint', False)):
        f = repo.find_method(tx.qualname, name)
        if f is None:
            raise AnalysisError(f'C09.R6: {name} not found')
        fs = with_helpers(f)
        search = [(h, lp) for h in fs for lp in ast.walk(h.node)
                  if isinstance(lp, ast.For) and '_savepoints' in norm(lp.iter)
                  and any(isinstance(t, ast.If) and norm(t.test) in (
                      'sp.name == name', f'{norm(lp.target)}.name == name')
                      for t in ast.walk(lp))]
        if not search:
            raise AnalysisError(f'C09.R6: {name}: no savepoint search loop')
        for h, lp in search:
            ok = norm(lp.iter) == 'reversed(self._savepoints.values())'
            ctx.ob('C09.R6', f'{name}:newest-first', ok,
                   f'{name} (via {h.name}) scans savepoints as '
                   f'`{norm(lp.iter)}`: with two live savepoints of the same '
                   f'name the OLDER one is found instead of the most recent',
                   h.loc, sample=norm(lp.iter))
            # not found -> TransactionError
            after = h.node.body[h.node.body.index(lp) + 1:] if lp in \
                h.node.body else []
            ok = (bool(lp.orelse) and isinstance(lp.orelse[0], ast.Raise)
                  and 'TransactionError' in norm(lp.orelse[0])) or (
                bool(after) and isinstance(after[0], ast.Raise)
                and 'TransactionError' in norm(after[0])
                and any(isinstance(x, ast.Return) for x in ast.walk(lp)))
            ctx.ob('C09.R6', f'{name}:no-match-raises', ok,
                   f'{name} does not raise when no savepoint has the name',
                   h.loc, sample='raise TransactionError')
        # which savepoints are erased
        shape = None
        h, lp = search[0]
        if h is f and any(norm(st) == 'sp_ids_to_erase.append(sp.id)'
                          for st in lp.body):
            idx_test = idx_app = None
            sets = not rollback
            for i, st in enumerate(lp.body):
                if isinstance(st, ast.If) and norm(st.test) == \
                        'sp.name == name':
                    idx_test = i
                    if rollback:
                        sets = any(norm(x) == 'self._current = sp'
                                   for x in st.body)
                if norm(st) == 'sp_ids_to_erase.append(sp.id)':
                    idx_app = i
            er = [n for n in f.node.body if isinstance(n, ast.For)
                  and norm(n.iter) == 'sp_ids_to_erase']
            ok = idx_test is not None and idx_app is not None and sets and (
                (idx_test < idx_app) if rollback else (idx_app < idx_test)) \
                and len(er) == 1 and norm(er[0].body[0]) == \
                'self._savepoints.pop(sp_id)'
            shape = 'collect-then-erase'
        else:
            # id-based erase after a lookup helper
            cmp_ = [n for n in ast.walk(f.node) if isinstance(n, ast.If)
                    and isinstance(n.test, ast.Compare)
                    and norm(n.test.comparators[0]).endswith('.id')
                    and any('_savepoints.pop(' in norm(x) for x in n.body)]
            if len(cmp_) == 1:
                shape = 'erase-by-id'
                op = cmp_[0].test.ops[0]
                ok = isinstance(op, ast.Gt) if rollback else isinstance(
                    op, ast.GtE)
                if rollback:
                    ok = ok and any(norm(x).startswith('self._current = ')
                                    for x in ast.walk(f.node)
                                    if isinstance(x, ast.Assign))
            elif h is f and any('_savepoints.pop(' in norm(x)
                                for x in ast.walk(lp)):
                # erased while scanning: which iterations reach a pop
                shape = 'erase-while-scanning'
                idx_test = None
                top_pops = []
                for i, st in enumerate(lp.body):
                    if isinstance(st, ast.If) and norm(st.test) == \
                            f'{norm(lp.target)}.name == name':
                        idx_test = i
                    elif '_savepoints.pop(' in norm(st) and not isinstance(
                            st, ast.If):
                        top_pops.append(i)
                if idx_test is None:
                    raise AnalysisError(f'C09.R6: {name}: match test not '
                                        f'found in the scanning loop')
                if rollback:
                    ok = bool(top_pops) and all(i > idx_test
                                                for i in top_pops)
                else:
                    # every savepoint from the newest down to and including
                    # the named one goes: the pop is not conditional on the
                    # match
                    ok = bool(top_pops) and all(i < idx_test
                                                for i in top_pops)
            else:
                raise AnalysisError(f'C09.R6: {name}: unrecognised erase '
                                    f'shape: cannot decide')
        ctx.ob('C09.R6', f'{name}:order', ok,
               (f'{name}: the savepoint rolled back to must survive and '
                f'become _current, later ones are erased' if rollback
                else f'{name}: the released savepoint itself and all later '
                     f'ones must be erased'), f.loc, sample=shape)
    # migration helpers delegate to the same workers
    for name, target in (('abort_migration', '_rollback_to_savepoint'),
                         ('commit_migration', '_release_savepoint'),
                         ('start_migration', '_declare_savepoint')):
        f = repo.find_method(tx.qualname, name)
        ok = f is not None and any(
            isinstance(c, ast.Call) and norm(c.func) == f'self.{target}'
            and norm(c.args[0]) == 'name' for c in ast.walk(f.node))
        ctx.ob('C09.R6', f'Transaction.{name}:delegates', ok,
               f'{name} does not delegate to {target}(name)',
               f.loc if f else '', sample=f'{name} -> {target}(name)')

    # ---- R7 re-sync ----------------------------------------------------------------
    ctx.floor('C09.R7', 6)
    f = repo.find_method(cs.qualname, 'sync_to_savepoint')
    spid = f.params()[1]
    ok, why = guard_first(f, f'not self.can_sync_to_savepoint({spid})',
                          'RuntimeError')
    if not ok and why == 'guard test not found':
        # role-based reading: some test about the looked-up savepoint has
        # an edge that only raises, and that test precedes every store
        # through self
        g7 = CFG(f.node)
        from ..model import inline_locals as _il
        cands = []
        for t in g7.nodes:
            if t.kind != 'test':
                continue
            try:
                txt = _il(f.node, t.ast.test if hasattr(t.ast, 'test')
                          else t.ast)
            except Exception:
                txt = norm(t.ast)
            if spid not in txt:
                continue
            for lab in ('T', 'F'):
                succ = [x for x, l_ in g7.nodes[t.id].succ if l_ == lab]
                r = g7.reachable(succ) | set(succ)
                if succ and g7.exit not in r and any(
                        isinstance(g7.nodes[x].ast, ast.Raise) for x in r):
                    cands.append(t.id)
        stores7 = [n.id for n in g7.nodes if isinstance(
            n.ast, (ast.Assign, ast.AugAssign)) and any(
            norm(x).startswith('self.') for x in (
                n.ast.targets if isinstance(n.ast, ast.Assign)
                else [n.ast.target]))]
        if cands and stores7:
            ok = all(any(g7.always_before(st, [c]) for c in cands)
                     for st in stores7)
            why = 'a store through self is not preceded by the lookup test'
    ctx.ob('C09.R7', 'sync_to_savepoint:lookup-failure-raises', ok,
           f'unknown savepoint id does not raise ({why})', f.loc,
           sample='if not can_sync: raise')
    # stores performed by sync_to_savepoint itself or by a Transaction
    # helper it hands the looked-up state to (one level)
    stores = {}
    for n in ast.walk(f.node):
        if isinstance(n, ast.Assign) and isinstance(
                n.targets[0], ast.Attribute):
            stores[n.targets[0].attr] = norm(n.value)
        if isinstance(n, ast.Call) and isinstance(n.func, ast.Attribute) \
                and n.func.attr in tx.methods and n.args:
            h = tx.methods[n.func.attr]
            hp = h.params()[1:]
            amap = {p: norm(a) for p, a in zip(hp, n.args)}
            for x in ast.walk(h.node):
                if isinstance(x, ast.Assign) and isinstance(
                        x.targets[0], ast.Attribute) and norm(
                            x.targets[0].value) == 'self':
                    v = norm(x.value)
                    for p_, a_ in amap.items():
                        v = v.replace(p_, a_)
                    stores[x.targets[0].attr] = v
    look = [n for n in walk_no_nested(f.node) if isinstance(n, ast.Assign)
            and norm(n.value) in (f'self._savepoints_log[{spid}]',
                                  f'self._savepoints_log.get({spid})')]
    spv = norm(look[0].targets[0]) if look else 'sp'
    for attr, wants in (('_current_tx', [f'{spv}.tx']),
                        ('_current', [spv]),
                        ('_id', [spid, f'{spv}.id'])):
        got = stores.get(attr)
        ctx.ob('C09.R7', f'sync_to_savepoint:restores{attr}',
               bool(look) and got in wants,
               f'after re-synchronising to a savepoint, {attr} is '
               f'{"not assigned" if got is None else "assigned " + got}; '
               f'expected {wants[0]}: the compiler state would not be the '
               f'savepoint\'s (a stale transaction id makes every later '
               f'compile re-sync and lose changes)', f.loc,
               sample=f'{attr} = {got}')
    prune_fns = [f.node]
    for n in ast.walk(f.node):
        if isinstance(n, ast.Call) and isinstance(n.func, ast.Attribute) \
                and n.func.attr in tx.methods and n.args:
            prune_fns.append(tx.methods[n.func.attr].node)
    tables = set()
    for fn_node in prune_fns:
        for lp in [n for n in ast.walk(fn_node) if isinstance(n, ast.For)]:
            it = lp.iter
            if not (isinstance(it, ast.Call) and norm(it.func) == 'tuple'
                    and it.args):
                continue
            tbl = norm(it.args[0])
            last = tbl.split('.')[-1]
            if last not in ('_savepoints', '_savepoints_log'):
                continue
            tv_ = norm(lp.target)
            ok = len(lp.body) == 1 and isinstance(lp.body[0], ast.If) and \
                isinstance(lp.body[0].test, ast.Compare) and isinstance(
                    lp.body[0].test.ops[0], ast.Gt) and norm(
                        lp.body[0].test.left) == tv_ and norm(
                        lp.body[0].test.comparators[0]) in (
                            spid, f'{spv}.id', 'sp.id') and norm(
                        lp.body[0].body[0]) == f'{tbl}.pop({tv_})'
            tables.add(last)
            ctx.ob('C09.R7', f'sync_to_savepoint:prune={last}', ok,
                   f'savepoints declared after the one re-synchronised to '
                   f'are not pruned from {tbl} with `id > <savepoint id>` '
                   f'over a snapshot of its keys', f.loc,
                   sample=f'for id in tuple({tbl}): if id > spid: pop')
    # a table that is pruned in a shape this rule does not read (entries
    # are deleted from it, but not by the snapshot loop) cannot be decided
    for last in ('_savepoints', '_savepoints_log'):
        if last in tables:
            continue
        for fn_node in prune_fns:
            for x in ast.walk(fn_node):
                tgt = None
                if isinstance(x, ast.Delete):
                    tgt = ' '.join(norm(t) for t in x.targets)
                elif isinstance(x, ast.Call) and isinstance(
                        x.func, ast.Attribute) and x.func.attr in (
                        'pop', 'popitem', 'clear'):
                    tgt = norm(x.func.value)
                if tgt and tgt.split('[')[0].split('.')[-1] == last:
                    raise AnalysisError(
                        f'C09.R7: sync_to_savepoint prunes {last} in a '
                        f'shape other than the snapshot loop `for id in '
                        f'tuple(table): if id > spid: pop`: cannot decide')
    ctx.ob('C09.R7', 'sync_to_savepoint:both-tables',
           tables == {'_savepoints', '_savepoints_log'},
           f'pruned tables: {sorted(tables)} (both the transaction\'s '
           f'savepoints and the connection-wide log must be pruned)', f.loc,
           sample=sorted(tables))
    f = repo.find_method(cs.qualname, 'sync_tx')
    g = CFG(f.node)
    txid = f.params()[1]
    t0 = [t for t in g.nodes if t.kind == 'test'
          and norm(t.ast) == f'self._current_tx.id == {txid}']
    t1 = [t for t in g.nodes if t.kind == 'test'
          and norm(t.ast) == f'self.can_sync_to_savepoint({txid})']
    ok = bool(t0) and bool(t1)
    if ok:
        # normal exit reachable only via (ids equal) or (synced)
        synced = [n.id for n in g.nodes if any(
            norm(c.func) == 'self.sync_to_savepoint' and
            norm(c.args[0]) == txid for c in g.node_calls(n))]
        r = g.reachable([g.entry], avoid=synced,
                        avoid_edges={(t0[0].id, 'T')})
        ok = g.exit not in r and bool(synced) and all(
            g.edge_dominates(t1[0].id, 'T', s) for s in synced)
    ctx.ob('C09.R7', 'sync_tx:shape', ok,
           'sync_tx can return without the ids being equal or having '
           're-synchronised to the savepoint', f.loc,
           sample='return iff ids equal or synced; else raise')
    cit = repo.find_method(f'{COMP}.Compiler', 'compile_in_tx')
    g = CFG(cit.node)
    comp_cls = repo.cls(f'{COMP}.Compiler')

    def builds_ctx(c: ast.Call) -> bool:
        if call_name(c) == 'CompileContext':
            return True
        if isinstance(c.func, ast.Attribute) and norm(c.func.value) == \
                'self' and c.func.attr in comp_cls.methods:
            h = comp_cls.methods[c.func.attr]
            return any(isinstance(x, ast.Call) and call_name(x) ==
                       'CompileContext' for x in ast.walk(h.node))
        return False
    ctxs = [n.id for n in g.nodes if any(
        builds_ctx(c) for c in g.node_calls(n))]
    # expect_rollback reaches the context (else RELEASE/COMMIT/DECLARE sent
    # in a failed transaction would mutate the compiler state)
    er_ok = False
    for c in ast.walk(cit.node):
        if isinstance(c, ast.Call) and call_name(c) == 'CompileContext':
            er_ok = norm(kwarg(c, 'expect_rollback')) == 'expect_rollback'
        elif isinstance(c, ast.Call) and builds_ctx(c):
            h = comp_cls.methods[c.func.attr]
            passed = any(norm(a) == 'expect_rollback' for a in c.args) or \
                any(norm(k.value) == 'expect_rollback' for k in c.keywords)
            inner = [x for x in ast.walk(h.node) if isinstance(x, ast.Call)
                     and call_name(x) == 'CompileContext']
            er_ok = passed and bool(inner) and kwarg(
                inner[0], 'expect_rollback') is not None
    ctx.ob('C09.R7', 'Compiler.compile_in_tx:expect_rollback-forwarded',
           er_ok, 'expect_rollback is not forwarded into the CompileContext '
           'of an in-transaction compile: non-rollback transaction commands '
           'sent while the transaction is in its failed state are compiled '
           '(and change the savepoint state) instead of being rejected',
           cit.loc, sample='CompileContext(expect_rollback=expect_rollback)')
    syncs = [n.id for n in g.nodes if any(
        norm(c.func) == 'state.sync_tx' and norm(c.args[0]) == 'txid'
        for c in g.node_calls(n))]
    ok = bool(ctxs) and bool(syncs) and all(
        g.always_before(c, syncs) for c in ctxs)
    ctx.ob('C09.R7', 'Compiler.compile_in_tx:sync-before-compile', ok,
           'a statement can be compiled in a transaction without the '
           'state having been synchronised to the backend position (txid)',
           cit.loc, sample='state.sync_tx(txid) dominates CompileContext')
    # the escape: only with expect_rollback and only a bare rollback
    esc = [t for t in g.nodes if t.kind == 'test'
           and 'expect_rollback' in norm(t.ast)
           and 'can_sync_to_savepoint' in norm(t.ast)]
    ok = len(esc) == 1
    if ok:
        ts_ = [s for s, lab in g.nodes[esc[0].id].succ if lab == 'T']
        r = g.reachable(ts_) | set(ts_)
        ok = not (set(ctxs) & r) and any(
            '_try_compile_rollback' in norm(g.nodes[x].ast)
            for x in r if g.nodes[x].ast is not None)
        # the test is a conjunction led by expect_rollback
        tt = esc[0].ast
        ok = ok and isinstance(tt, ast.BoolOp) and isinstance(
            tt.op, ast.And) and norm(tt.values[0]) == 'expect_rollback'
    ctx.ob('C09.R7', 'Compiler.compile_in_tx:escape', ok,
           'the un-synchronised escape is not limited to expect_rollback '
           'compiling a bare ROLLBACK', cit.loc,
           sample='expect_rollback and id mismatch and cannot sync -> '
                  '_try_compile_rollback')

    # ---- R8 migration blocks --------------------------------------------------------
    ctx.floor('C09.R8', 4)
    ddlm = repo.module(DDL)
    openers = []
    for fn in ddlm.functions.values():
        for c in ast.walk(fn.node):
            if isinstance(c, ast.Call) and isinstance(c.func, ast.Attribute) \
                    and c.func.attr == 'start_migration':
                openers.append((fn, c))
    if len(openers) < 2:
        raise AnalysisError('C09.R8: fewer than 2 start_migration() sites')
    for fn, c in openers:
        ctx.saw(fn)
        # name bound to the result flows into initial_savepoint=
        var = None
        for n in ast.walk(fn.node):
            if isinstance(n, ast.Assign) and n.value is c:
                var = norm(n.targets[0])
        uses = [k for x in ast.walk(fn.node) if isinstance(x, ast.Call)
                for k in x.keywords if k.arg == 'initial_savepoint']
        ok = var is not None and bool(uses) and all(
            var in norm(k.value) for k in uses)
        ctx.ob('C09.R8', f'{fn.name}:savepoint-recorded', ok,
               'the savepoint opened for the migration block is not stored '
               'in the state\'s initial_savepoint', fn.loc,
               sample=f'initial_savepoint={var}')
    closers = []
    for fn in ddlm.functions.values():
        for c in ast.walk(fn.node):
            if isinstance(c, ast.Call) and isinstance(c.func, ast.Attribute) \
                    and c.func.attr in ('commit_migration', 'abort_migration'):
                closers.append((fn, c))
    if len(closers) < 4:
        raise AnalysisError('C09.R8: fewer than 4 migration closers')
    for fn, c in closers:
        ctx.saw(fn)
        a = norm(c.args[0]) if c.args else ''
        ok = a.endswith('.initial_savepoint')
        # guarded by the field's truthiness
        g = CFG(fn.node)
        nid = [n.id for n in g.nodes if c in g.node_calls(n)]
        guarded = False
        for t in g.nodes:
            if t.kind == 'test' and norm(t.ast) == a and nid and \
                    g.edge_dominates(t.id, 'T', nid[0]):
                guarded = True
        # state reset on every normal path after
        want_reset = ('update_migration_rewrite_state'
                      if a.startswith('mrstate') else
                      'update_migration_state')
        resets = [n.id for n in g.nodes if any(
            isinstance(x.func, ast.Attribute) and x.func.attr == want_reset
            and x.args and norm(x.args[0]) == 'None'
            for x in g.node_calls(n))]
        # every normal path through the closer (before or after closing
        # the savepoint, and also when the savepoint field is empty)
        ok_reset = bool(resets) and bool(nid) and g.exit not in g.reachable(
            [g.entry], avoid=resets, labels={'n', 'T', 'F'})
        ctx.ob('C09.R8', f'{fn.name}:{c.func.attr}', ok and guarded
               and ok_reset,
               f'{fn.name}: {c.func.attr}({a}) — must use the block\'s own '
               f'initial_savepoint (guarded by it) and reset the block '
               f'state on every normal path (arg_ok={ok} guarded={guarded} '
               f'reset={ok_reset})', f'{fn.module.rel()}:{c.lineno}',
               sample=f'{c.func.attr}({a}) + reset')
        # commit closers call commit_, abort closers call abort_
        kind = 'commit' if 'commit' in fn.name else (
            'abort' if 'abort' in fn.name else None)
        if kind:
            ctx.ob('C09.R8', f'{fn.name}:kind', c.func.attr.startswith(kind),
                   f'{fn.name} calls {c.func.attr}', fn.loc,
                   sample=f'{kind} -> {c.func.attr}')

    _r9(repo, ctx)
    _r10(repo, ctx)
    root_schema_rule(repo, ctx, 'C09.R11')
    _r12(repo, ctx)
    _r13(repo, ctx)
    last_state_rule(repo, ctx, 'C09.R14')
    _r15(repo, ctx)


def _isa(repo: Repo, q: str) -> Set[str]:
    return {c.split('.')[-1] for c in repo.mro(q)}


def _r9(repo: Repo, ctx) -> None:
    """Path facts of the transaction state machine."""
    from ..absint import Facts, must_pass, open_nodes
    ctx.floor('C09.R9', 10)
    # (a) sync_tx: already at that id -> nothing is restored
    st = repo.func('edb.server.compiler.dbstate.CompilerConnectionState.'
                   'sync_tx')
    ctx.saw(st)
    g = CFG(st.node)
    restore = [n.id for n in g.nodes if any(
        isinstance(c.func, ast.Attribute) and c.func.attr ==
        'sync_to_savepoint' for c in g.node_calls(n))]
    if not restore:
        raise AnalysisError('C09.R9: sync_tx no longer calls '
                            'sync_to_savepoint')
    p = st.params()[1] if len(st.params()) > 1 else 'txid'
    F = Facts({f'self._current_tx.id == {p}': True}, st.node)
    on = open_nodes(g, F)
    ok = bool(F.used) and not (set(restore) & on)
    ctx.ob('C09.R9', 'sync_tx:current-id-is-a-no-op', ok,
           'sync_tx restores a savepoint snapshot although the connection '
           'is already at the requested transaction id: after ROLLBACK TO '
           'SAVEPOINT the current id equals the savepoint id, so every '
           'later statement would be compiled against the snapshot again '
           'and lose the changes made since', st.loc,
           sample='current id == txid -> return before sync_to_savepoint')
    # (b) in a failed transaction only the two rollbacks compile
    cq = repo.func(f'{COMP}._compile_ql_transaction')
    ctx.saw(cq)
    g = CFG(cq.node)
    QL = 'edb.edgeql.ast'
    txc = [q for q in repo.subclasses(f'{QL}.Transaction')
           if q.startswith(QL) and not repo.subclasses(q, strict=True)]
    if len(txc) < 6:
        raise AnalysisError(f'C09.R9: transaction statement classes: {txc}')
    for q in sorted(txc):
        nm = q.split('.')[-1]
        F = Facts({'ctx.expect_rollback': True}, cq.node)
        F.inst['ql'] = _isa(repo, q)
        on = open_nodes(g, F)
        reaches = g.exit in on
        want = nm in ('RollbackTransaction', 'RollbackToSavepoint')
        ctx.ob('C09.R9', f'_compile_ql_transaction:failed-tx:{nm}',
               reaches == want and bool(F.used),
               f'in a failed transaction (expect_rollback) {nm} '
               f'{"compiles" if reaches else "is refused"}; only ROLLBACK '
               f'and ROLLBACK TO SAVEPOINT may: anything else would change '
               f'the compiler\'s copy of the savepoint stack while the '
               f'server refuses the statement', cq.loc,
               sample=f'{nm}: compiles={want}')
    # (c) every state component a COMMIT / DDL / migration unit carries is
    #     reported on its own condition
    mq = repo.func(f'{COMP}._make_query_unit')
    ctx.saw(mq)
    g = CFG(mq.node)
    comps = {'user_schema': 'unit.user_schema',
             'global_schema': 'unit.global_schema',
             'cached_reflection': 'unit.cached_reflection'}
    DBS = 'edb.server.compiler.dbstate'
    for cls in ('DDLQuery', 'TxControlQuery', 'MigrationControlQuery'):
        declared = set(repo.class_fields(f'{DBS}.{cls}'))
        for cname, target in comps.items():
            if cname not in declared:
                continue
            facts = {'ctx.dump_restore_mode': False, 'is_script': False}
            for other in comps:
                facts[f'comp.{other} is not None'] = (other == cname)
            F = Facts(facts, mq.node)
            F.inst['comp'] = _isa(repo, f'{DBS}.{cls}')
            tg = [n.id for n in g.nodes if n.kind == 'stmt' and isinstance(
                n.ast, ast.Assign) and any(norm(t) == target
                                           for t in n.ast.targets)]
            on = open_nodes(g, F)
            tg_open = [t for t in tg if t in on]
            ok = bool(tg_open) and must_pass(g, F, tg_open)
            ctx.ob('C09.R9', f'_make_query_unit:{cls}:{cname}', ok,
                   f'a {cls} unit whose compilation changed only '
                   f'{cname} does not report it ({target} is not assigned '
                   f'on every such path): the server keeps compiling '
                   f'later statements against the old {cname}', mq.loc,
                   sample=f'{target} set whenever comp.{cname} is not None')


TX_STATE = {'_constate', '_id', '_implicit', '_current', '_state0',
            '_savepoints'}
SAVEPOINT_REMOVERS = {'_rollback_to_savepoint', '_release_savepoint'}


def _r10(repo: Repo, ctx) -> None:
    """Everything a transaction knows is in the snapshot that rollback
    restores; savepoints disappear only by RELEASE / ROLLBACK TO."""
    ctx.floor('C09.R10', 4)
    tx = repo.cls('edb.server.compiler.dbstate.Transaction')
    # (a) no per-transaction state outside the snapshot
    extra = {}
    for name, f in tx.methods.items():
        for n in walk_no_nested(f.node):
            tg = n.targets if isinstance(n, ast.Assign) else (
                [n.target] if isinstance(n, (ast.AugAssign, ast.AnnAssign))
                else [])
            for t in tg:
                for x in (t.elts if isinstance(t, ast.Tuple) else [t]):
                    if isinstance(x, ast.Attribute) and norm(x.value) == \
                            'self' and x.attr not in TX_STATE:
                        extra.setdefault(x.attr, []).append(name)
    ctx.ob('C09.R10', 'Transaction:state-is-in-the-snapshot', not extra,
           f'Transaction keeps state in {sorted(extra)} (written by '
           f'{sorted({m for v in extra.values() for m in v})}) besides the '
           f'snapshot `_current`: ROLLBACK TO SAVEPOINT / sync_to_savepoint '
           f're-point `_current` only, so whatever is derived from it and '
           f'kept there survives the rollback (e.g. a cached chained schema '
           f'keeps rolled-back DDL visible on the same worker)',
           tx.loc, sample=sorted(TX_STATE))
    # (b) who removes savepoints
    for name, f in sorted(tx.methods.items()):
        rem = []
        for n in ast.walk(f.node):
            if isinstance(n, ast.Delete) and any(
                    isinstance(t, ast.Subscript) and norm(t.value) ==
                    'self._savepoints' for t in n.targets):
                rem.append(norm(n))
            if isinstance(n, ast.Call) and isinstance(
                    n.func, ast.Attribute) and n.func.attr in (
                    'pop', 'popitem', 'clear') and norm(
                    n.func.value) == 'self._savepoints':
                rem.append(norm(n))
        if not rem:
            continue
        ctx.ob('C09.R10', f'Transaction.{name}:removes-savepoints',
               name in SAVEPOINT_REMOVERS,
               f'Transaction.{name} removes savepoints ({rem}); only '
               f'RELEASE and ROLLBACK TO may: PostgreSQL keeps an earlier '
               f'savepoint of the same name when the name is declared '
               f'again, and RELEASE of the newer one makes the older one '
               f'addressable again', f.loc, sample=rem)
    # (c) update_schema always records both halves of the new schema
    us = tx.methods.get('update_schema')
    if us is None:
        raise AnalysisError('Transaction.update_schema not found')
    g = CFG(us.node)
    sets = [n.id for n in g.nodes if n.kind == 'stmt' and isinstance(
        n.ast, ast.Assign) and norm(n.ast.targets[0]) == 'self._current'
        and 'global_schema=' in norm(n.ast.value)
        and 'user_schema=' in norm(n.ast.value)]
    ok = bool(sets) and g.exit not in g.reachable(
        [g.entry], avoid=sets, labels={'n', 'T', 'F'})
    ctx.ob('C09.R10', 'Transaction.update_schema:records-both-schemas', ok,
           'update_schema can return without storing the new user and '
           'global schema: DDL that changes only the global schema (CREATE '
           'ROLE) is invisible to the following statements and COMMIT '
           'reports no new global schema', us.loc,
           sample='_current._replace(local_user_schema=.., '
                  'global_schema=..) on every path')


def root_schema_rule(repo: Repo, ctx, rule: str) -> None:
    """The root user schema of an open transaction is the one the caller
    supplies.  A transaction state whose savepoints carry no schema of their
    own resolves the schema through that root, so the pool may leave the
    pickle out (send the database name alone) only when the worker is known
    to hold *this very* pickle: the suppression `user_schema_pickle = None`
    is taken only on the true edge of `<worker's db>.user_schema_pickle is
    user_schema_pickle`, or together with the database name when the worker
    reuses its last state.  Otherwise a worker that has meanwhile been
    synced to a newer schema (another connection committed DDL) compiles the
    transaction's statements against that newer schema."""
    ctx.floor(rule, 2)
    n = 0
    for qn, f in sorted(repo.functions.items()):
        if f.name != 'compile_in_tx' or f.module.name != \
                'edb.server.compiler_pool.pool':
            continue
        g = CFG(f.node)
        for nd in g.nodes:
            a = nd.ast
            if nd.kind != 'stmt' or not isinstance(a, ast.Assign):
                continue
            tg = [norm(t) for t in a.targets]
            if 'user_schema_pickle' not in tg or not (isinstance(
                    a.value, ast.Constant) and a.value.value is None):
                continue
            n += 1
            ctx.saw(f)
            if 'dbname' in tg:
                ok, how = True, 'together with dbname (last state reused)'
            else:
                ok = any(t.kind == 'test' and any(
                    isinstance(c, ast.Compare) and isinstance(
                        c.ops[0], ast.Is) and {norm(c.left).split('.')[-1],
                                               norm(c.comparators[0])
                                               .split('.')[-1]} ==
                    {'user_schema_pickle'} and norm(c.left) != norm(
                        c.comparators[0])
                    for c in ast.walk(t.ast.test if hasattr(t.ast, 'test')
                                      else t.ast))
                    and g.edge_dominates(t.id, 'T', nd.id)
                    for t in g.nodes)
                how = 'under the identity test of the believed pickle'
            ctx.ob(rule, f'{f.qualname.split("pool.")[-1]}:'
                   f'root-schema-left-out@L{a.lineno - f.node.lineno}', ok,
                   f'{f.qualname} leaves the root user schema out of the '
                   f'request without having established that the worker '
                   f'holds this very pickle: the worker then uses whatever '
                   f'schema version it has for that database, and the '
                   f'statements of an open transaction (and its ROLLBACK TO '
                   f'baselines) switch to a schema another connection '
                   f'committed after the transaction started',
                   f'{f.module.rel()}:{a.lineno}', sample=how)
    if n < 2:
        raise AnalysisError(f'{rule}: suppression of the root schema in '
                            f'compile_in_tx not found')



def _r12(repo: Repo, ctx) -> None:
    """C09.R12 what travels with the pickled compiler state, and that the
    public savepoint commands always reach their worker.

    (a) `__getstate__` / `__setstate__` of the connection state agree: every
        slot is either shipped and restored from the shipped tuple at the
        same position, or reset to a constant; a slot *derived* on arrival
        (for instance the id counter restarted from the current
        transaction's id) lets the receiving worker hand out ids that are
        still alive.
    (b) `declare_savepoint`, `rollback_to_savepoint`, `release_savepoint`
        (and the migration forms) call their `_x(name)` worker on every
        path that does not raise: an early return answers the command
        without touching the savepoint stack."""
    ctx.floor('C09.R12', 7)
    mod = 'edb.server.compiler.dbstate'
    cs = repo.cls(f'{mod}.CompilerConnectionState')
    gs, ss = cs.methods.get('__getstate__'), cs.methods.get('__setstate__')
    if gs is None or ss is None:
        raise AnalysisError('C09.R12: __getstate__/__setstate__ of '
                            'CompilerConnectionState not found')
    ctx.saw(gs)
    ctx.saw(ss)
    slots = []
    v = cs.assign_fields.get('__slots__')
    if isinstance(v, (ast.Tuple, ast.List)):
        slots = [e.value for e in v.elts if isinstance(e, ast.Constant)]
    rets = [r for r in ast.walk(gs.node) if isinstance(r, ast.Return)]
    shipped = None
    if len(rets) == 1 and isinstance(rets[0].value, ast.Tuple):
        shipped = [norm(e) for e in rets[0].value.elts]
    if shipped is None or not slots:
        raise AnalysisError('C09.R12: __getstate__ does not return a tuple '
                            'of attributes / __slots__ not found')
    sp = ss.params()[1] if len(ss.params()) > 1 else 'state'
    restored = None
    others = {}
    for a in ast.walk(ss.node):
        if isinstance(a, ast.Assign):
            if norm(a.value) == sp and isinstance(a.targets[0], ast.Tuple):
                restored = [norm(e) for e in a.targets[0].elts]
            else:
                for t in a.targets:
                    if isinstance(t, ast.Attribute) and norm(
                            t.value) == 'self':
                        others[t.attr] = a.value
    if restored is None:
        # no single `a, b, c = state`: versions / legacy layouts.  What can
        # still be said: every shipped slot is assigned, on every normal
        # path, from something that comes out of `state`
        from ..shapes import derives_from
        gss = CFG(ss.node)
        ok_all = True
        for sh in shipped:
            if not sh.startswith('self.'):
                continue            # a version tag or other constant
            attr = sh[5:]
            asg = [n.id for n in gss.nodes if n.kind == 'stmt' and isinstance(
                n.ast, ast.Assign) and any(
                    isinstance(t_, ast.Attribute) and t_.attr == attr
                    and norm(t_.value) == 'self'
                    for tg in n.ast.targets
                    for t_ in ([tg] if not isinstance(
                        tg, (ast.Tuple, ast.List)) else tg.elts))]
            vals_ok = all(derives_from(
                ss.node, {x.id for x in ast.walk(gss.nodes[i].ast.value)
                          if isinstance(x, ast.Name)}, sp) for i in asg)
            ok_all = ok_all and bool(asg) and vals_ok and \
                gss.always_before(gss.exit, asg)
        restored = shipped if ok_all else restored
        others = {k: v for k, v in others.items()
                  if f'self.{k}' not in shipped}
    ctx.ob('C09.R12', 'CompilerConnectionState:shipped=restored',
           restored == shipped,
           f'__getstate__ ships {shipped} but __setstate__ unpacks into '
           f'{restored}: a field lands in the wrong slot or is dropped on '
           f'the way to the next worker', ss.loc, sample=shipped)
    for sl in slots:
        if f'self.{sl}' in (shipped or []):
            ok, how = True, 'shipped'
        elif sl in others:
            ok = isinstance(others[sl], ast.Constant)
            how = f'reset to {norm(others[sl])}'
        else:
            ok, how = False, 'neither shipped nor reset'
        ctx.ob('C09.R12', f'CompilerConnectionState:slot={sl}', ok,
               f'slot {sl} is {how} when the state moves to another '
               f'worker: a value derived on arrival (or left unset) is not '
               f'the one the transaction was using -- with the id counter '
               f'the next savepoint reuses the id of one that is still '
               f'alive', ss.loc, sample=how)
    tx = repo.cls(f'{mod}.Transaction')
    for name, worker in (('declare_savepoint', '_declare_savepoint'),
                         ('rollback_to_savepoint', '_rollback_to_savepoint'),
                         ('release_savepoint', '_release_savepoint'),
                         ('abort_migration', '_rollback_to_savepoint'),
                         ('commit_migration', '_release_savepoint'),
                         ('start_migration', '_declare_savepoint')):
        f = repo.find_method(tx.qualname, name)
        if f is None:
            raise AnalysisError(f'C09.R12: Transaction.{name} not found')
        g = CFG(f.node)
        calls = [n.id for n in g.nodes if any(
            norm(c.func) == f'self.{worker}' for c in g.node_calls(n))]
        ok = bool(calls) and g.always_before(g.exit, calls)
        ctx.ob('C09.R12', f'Transaction.{name}:reaches-worker', ok,
               f'{name} can return without calling {worker}: the command '
               f'is answered (and sent to the backend) while the compiler\'s '
               f'savepoint stack keeps its old shape', f.loc,
               sample=f'every normal exit passes self.{worker}(..)')



def _r13(repo: Repo, ctx) -> None:
    """C09.R13 a transaction-control unit that changed the compiler's
    transaction / savepoint state is not cacheable.  The server keeps
    cacheable units in its compiled-query cache and serves a later identical
    statement from there without calling the compiler; for a statement whose
    compilation *is* the state change (start / commit / rollback / declare /
    release / rollback-to) that leaves the compiler's savepoint stack behind
    the backend's.  Path fact per statement class: every path through
    `_compile_ql_transaction` that calls a state-changing method passes
    `cacheable = False` before the unit is built."""
    from ..absint import Facts, must_pass
    ctx.floor('C09.R13', 5)
    f = repo.func('edb.server.compiler.compiler._compile_ql_transaction')
    ctx.saw(f)
    g = CFG(f.node)
    MUT = {'start_tx', 'commit_tx', 'rollback_tx', 'declare_savepoint',
           'release_savepoint', 'rollback_to_savepoint'}
    qp = f.params()[1]
    arms = []
    for n in ast.walk(f.node):
        if isinstance(n, ast.If) and isinstance(n.test, ast.Call) and norm(
                n.test.func) == 'isinstance' and norm(
                n.test.args[0]) == qp and not isinstance(
                n.test.args[1], ast.Tuple):
            arms.append((norm(n.test.args[1]).split('.')[-1], n))
    if len(arms) < 5:
        raise AnalysisError('C09.R13: statement-class arms of '
                            '_compile_ql_transaction not found')
    offs = [n.id for n in g.nodes if n.kind == 'stmt' and isinstance(
        n.ast, ast.Assign) and norm(n.ast.targets[0]) == 'cacheable'
        and norm(n.ast.value) == 'False']
    rets = [n.id for n in g.nodes if n.kind == 'stmt' and isinstance(
        n.ast, ast.Return)]
    for cname, arm in arms:
        muts = sorted({c.func.attr for st in arm.body for c in ast.walk(st)
                       if isinstance(c, ast.Call) and isinstance(
                           c.func, ast.Attribute) and c.func.attr in MUT})
        if not muts:
            continue
        F = Facts({}, f.node)
        F.inst[qp] = {cname}
        ok = bool(offs) and must_pass(g, F, offs, exits=rets or None)
        ctx.ob('C09.R13', f'_compile_ql_transaction:{cname}:not-cacheable',
               ok, f'the {cname} arm changes the compiler state '
               f'({", ".join(muts)}) but can build its unit with '
               f'cacheable left True: a repeated identical statement is '
               f'served from the server\'s compiled-query cache without '
               f'reaching the compiler, whose savepoint stack then differs '
               f'from the backend\'s',
               f'{f.module.rel()}:{arm.lineno}',
               sample=f'{muts} -> cacheable = False')



def last_state_rule(repo: Repo, ctx, rule: str) -> None:
    """the state a worker remembers for REUSE_LAST_STATE is the one whose
    pickle it sends back in the same reply.  The pool takes the returned
    pickle as the identity of what the worker holds (`_last_pickled_state is
    pickled_state`) and only updates it on a successful reply; a worker that
    remembers a state before the compile call succeeded holds, after a
    rejected statement, a state the pool attributes to another connection."""
    ctx.floor(rule, 4)
    n = 0
    for modname in ('edb.server.compiler_pool.worker',
                    'edb.server.compiler_pool.multitenant_worker'):
        m = repo.modules.get(modname)
        if m is None:
            continue
        for f in repo._funcs_of(m):
            stores = [st for st in ast.walk(f.node)
                      if isinstance(st, ast.Assign)
                      and any(isinstance(t, ast.Name) and t.id == 'LAST_STATE'
                              for t in st.targets)]
            if not stores or not any(
                    isinstance(g, ast.Global) and 'LAST_STATE' in g.names
                    for g in ast.walk(f.node)):
                continue
            ctx.saw(f)
            g = CFG(f.node)
            comp = [x.id for x in g.nodes if any(
                (call_name(c) or '').split('.')[-1].startswith(
                    'compile_serialized_request')
                for c in g.node_calls(x))]
            if not comp:
                raise AnalysisError(f'{rule}: {f.name} stores LAST_STATE but '
                                    f'no compile_serialized_request* call '
                                    f'was found')
            short = modname.split('.')[-1]
            for st in stores:
                n += 1
                ids = g.nodes_of(st)
                ok = bool(ids) and all(g.always_before(i, comp) for i in ids)
                ctx.ob(rule, f'{short}.{f.name}:remember-after-compile', ok,
                       f'{f.name} stores LAST_STATE on a path that has not '
                       f'(yet) completed the compile call: if the statement '
                       f'is rejected, the worker holds a state whose pickle '
                       f'the pool never recorded for it, and a later '
                       f'REUSE_LAST_STATE request of the connection the pool '
                       f'does associate with this worker is compiled '
                       f'against it', f'{f.module.rel()}:{st.lineno}',
                       sample='LAST_STATE = <state returned by the compile '
                              'call>')
                # and it is the state that is pickled into the reply
                v = norm(st.value)
                dumped = [norm(c.args[0]) for c in ast.walk(f.node)
                          if isinstance(c, ast.Call)
                          and norm(c.func) == 'pickle.dumps' and c.args]
                n += 1
                ctx.ob(rule, f'{short}.{f.name}:remembered=returned',
                       v in dumped,
                       f'{f.name} remembers `{v}` but pickles '
                       f'{dumped or "nothing"} into the reply: the pool '
                       f'identifies the worker\'s state by the returned '
                       f'pickle', f'{f.module.rel()}:{st.lineno}',
                       sample=f'LAST_STATE = {v}; pickle.dumps({v})')
    if n < 4:
        raise AnalysisError(f'{rule}: only {n} LAST_STATE obligations')



def _r15(repo: Repo, ctx) -> None:
    """C09.R15 the aliases and settings that come with a request are applied
    to the transaction state the statement is compiled in.  `compile_in_tx`
    receives the server's transaction id; when it differs from the
    compiler's (first statement after ROLLBACK TO SAVEPOINT) `sync_tx`
    replaces the current state by the savepoint's snapshot.  An
    `update_modaliases` / `update_session_config` made before that is
    thrown away and the statement is compiled with the savepoint's aliases
    instead of the ones the request carries."""
    ctx.floor('C09.R15', 2)
    comp = repo.cls('edb.server.compiler.compiler.Compiler')
    f = repo.find_method(comp.qualname, 'compile_in_tx')
    if f is None:
        raise AnalysisError('C09.R15: Compiler.compile_in_tx not found')
    ctx.saw(f)
    g = CFG(f.node)
    syncs = [x.id for x in g.nodes if any(
        (call_name(c) or '').split('.')[-1] == 'sync_tx'
        for c in g.node_calls(x))]
    if not syncs:
        raise AnalysisError('C09.R15: compile_in_tx does not call sync_tx')
    n = 0
    for x in g.nodes:
        for c in g.node_calls(x):
            nm = (call_name(c) or norm(c.func)).split('.')[-1]
            if nm in ('update_modaliases', 'update_session_config'):
                n += 1
                ok = g.always_before(x.id, syncs)
                ctx.ob('C09.R15', f'compile_in_tx:{nm}-after-sync', ok,
                       f'compile_in_tx applies the request\'s '
                       f'{nm[7:]} before sync_tx(txid): when the '
                       f'compiler has to re-synchronise to a savepoint '
                       f'(first statement after ROLLBACK TO SAVEPOINT) the '
                       f'savepoint snapshot replaces the state just updated '
                       f'and the statement is compiled with the '
                       f'savepoint\'s {nm[7:]}, not the request\'s',
                       f'{f.module.rel()}:{c.lineno}',
                       sample=f'state.sync_tx(txid) ... {nm}(request..)')
    if n < 2:
        raise AnalysisError(f'C09.R15: only {n} request-state updates found '
                            f'in compile_in_tx')
